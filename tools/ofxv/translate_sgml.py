"""Constants of the engines Sgml / Serialize regenerated from the live interpreter and /repo's working tree into
coq/theories/Gen/SgmlGen.v on every run:

  py_isspace      every code point c with chr(c).isspace(); str.strip() and regex \\s are checked here to use the same set
  regex_pattern   TreeBuilder.regex.pattern (+ flags), and which of the two modelled variants it is
  repo_cfg        the model configuration that transcribes /repo's Parser.py as it stands:
                    cdata_lazy := the pattern is the repaired one (non-greedy DOTALL CDATA body, blanks around the section)
                    checked    := ofxtools.Parser.TreeBuilder overrides start/end/close (stack of open tag names)
  html_empty      sorted(xml.etree.ElementTree.HTML_EMPTY)

Fail closed: anything not understood raises.  A pattern that is neither of the two known texts does not fail by itself
(a harmless rewrite is possible): the repaired variant is assumed, `pattern_known := false` is emitted and the
correspondence runs switch to their deep setting."""
import os, re, importlib, inspect, ast, textwrap, hashlib
from . import common as C

LEGACY_PATTERN = r"""<(?P<tag>[A-Z0-9./_ ]+?)>
                ((<!\[CDATA\[(?P<cdata>.+)\]\]>)|(?P<text>[^<]+))?
            (</(?P<closetag>(?P=tag))>)?
            (?P<tail>[^<]+)?
        """
REPAIRED_PATTERN = r"""<(?P<tag>[A-Z0-9./_ ]+?)>
                ((\s*<!\[CDATA\[(?P<cdata>.+?)\]\]>\s*)|(?P<text>[^<]+))?
            (</(?P<closetag>(?P=tag))>)?
            (?P<tail>[^<]+)?
        """


def _squeeze(p):
    """a VERBOSE pattern without its insignificant blanks and comments (outside character classes)"""
    out, in_class, i = [], False, 0
    while i < len(p):
        c = p[i]
        if c == "\\":
            out.append(p[i:i + 2]); i += 2; continue
        if c == "[":
            in_class = True
        elif c == "]":
            in_class = False
        if c.isspace() and not in_class:
            i += 1; continue
        if c == "#" and not in_class:            # VERBOSE comment
            while i < len(p) and p[i] != "\n":
                i += 1
            continue
        out.append(c); i += 1
    return "".join(out)


# normalised-AST hashes (docstrings and comments dropped) of every function Model/Sgml.v and Model/Serialize.v transcribe by hand, for the REPAIRED
# source (fixes e7395eb, 8ba58b0, 29e64bd).  The hash is a TRIPWIRE, not the tie: the tie between a hand-transcribed function and its model is the
# correspondence run of every check.  A changed hash of an existing function, or a NEW PRIVATE helper of TreeBuilder (name with a leading underscore that
# is not a method of xml.etree's TreeBuilder: it can only matter through the pinned functions that call it), is listed in SOURCE_CHANGES; check.py then
# searches under two more seeds and, finding neither a disagreement nor a failing input, prints a NOTE and exits 0.
# FAIL CLOSED (source_is_pinned = false, obligation source_is_repaired_variant breaks) stays everything the model's validity depends on and the translator
# cannot interpret: a pinned function that disappeared; a method added to TreeBuilder that is public or overrides one of ET.TreeBuilder (data, comment, pi ...);
# OFXTree.parse / _read calling anything but what they call today (which parser is used); plus, elsewhere, the regex variant and the start/end/close overrides.
SOURCE_PINS = {
    "TreeBuilder.__init__": "2130022b4014", "TreeBuilder.start": "a131ccbf3e6c", "TreeBuilder.end": "d7ed0c7e9cfe", "TreeBuilder.close": "250dd3a4a29d",
    "TreeBuilder.feed": "95973ba24b66", "TreeBuilder._feedmatch": "de67ed002250", "TreeBuilder._start": "3c7792462434", "TreeBuilder._groomstring": "31f6d519915d",
    "OFXTree.parse": "15cea70b865b", "OFXTree._read": None, "utils.indent": "f30c62958842", "utils.tostring_unclosed_elements": "fb88dc53b9fa",
}
# what OFXTree.parse / _read call (ast.unparse of every call target): a refactor that keeps this set cannot change which parser reads the body
CALLS = {"OFXTree.parse": ["TreeBuilder", "logger.debug", "logger.info", "parser.close", "parser.feed", "self._read"],
         "OFXTree._read": ["ValueError", "hasattr", "open", "parse_header", "source.close"]}
SOURCE_CHANGES = []


def _fn_ast(f):
    f = getattr(f, "__func__", f)
    t = ast.parse(textwrap.dedent(inspect.getsource(f)))
    for n in ast.walk(t):
        if isinstance(n, ast.FunctionDef) and n.body and isinstance(n.body[0], ast.Expr) \
                and isinstance(getattr(n.body[0], "value", None), ast.Constant) and isinstance(n.body[0].value.value, str):
            n.body = n.body[1:] or [ast.Pass()]
    return t


def ast_hash(f):
    return hashlib.sha1(ast.dump(_fn_ast(f)).encode()).hexdigest()[:12]


def call_targets(f):
    return sorted({ast.unparse(n.func) for n in ast.walk(_fn_ast(f)) if isinstance(n, ast.Call)})


def source_pins(P, U):
    """-> (hashes, changes, problems): changes = tripwires (SOURCE_CHANGES), problems = fail closed"""
    import xml.etree.ElementTree as ET
    items = {}
    for n in ("__init__", "start", "end", "close", "feed", "_feedmatch", "_start", "_groomstring"):
        items["TreeBuilder." + n] = P.TreeBuilder.__dict__.get(n)
    items["OFXTree.parse"] = P.OFXTree.__dict__.get("parse")
    items["OFXTree._read"] = P.OFXTree.__dict__.get("_read")
    items["utils.indent"] = getattr(U, "indent", None)
    items["utils.tostring_unclosed_elements"] = getattr(U, "tostring_unclosed_elements", None)
    hashes, changes, problems = {}, [], []
    for k, f in items.items():
        if f is None:
            hashes[k] = None
            problems.append("%s: no longer defined" % k)
            continue
        try:
            hashes[k] = ast_hash(f)
            if k in CALLS and call_targets(f) != CALLS[k]:
                problems.append("%s calls %s (pinned: %s): which parser reads the body may have changed" % (k, call_targets(f), CALLS[k]))
                continue
        except Exception as e:
            hashes[k] = None
            problems.append("%s: cannot hash (%r)" % (k, e))
            continue
        if SOURCE_PINS.get(k) is not None and hashes[k] != SOURCE_PINS[k]:
            changes.append("%s (hash %s, transcribed from %s)" % (k, hashes[k], SOURCE_PINS[k]))
    known = {"__init__", "start", "end", "close", "feed", "_feedmatch", "_start", "_groomstring", "regex"}
    for n, v in P.TreeBuilder.__dict__.items():
        if (callable(v) or isinstance(v, (property, classmethod, staticmethod))) and n not in known:
            if n.startswith("_") and not n.startswith("__") and not hasattr(ET.TreeBuilder, n):
                changes.append("TreeBuilder.%s (new private helper)" % n)
            else:
                problems.append("TreeBuilder.%s: method not modelled" % n)
    return hashes, changes, problems


def repo_variant():
    """-> dict(cdata_lazy, checked, pattern, flags, known)"""
    C.use_repo()
    import ofxtools.Parser as P
    importlib.reload(P)
    rx = P.TreeBuilder.regex
    pat, flags = rx.pattern, rx.flags
    if not flags & re.VERBOSE:
        raise ValueError("TreeBuilder.regex is no longer compiled with re.VERBOSE")
    sq = _squeeze(pat)
    dotall = bool(flags & re.DOTALL)
    other = flags & ~(re.VERBOSE | re.DOTALL | re.UNICODE)
    if sq == _squeeze(LEGACY_PATTERN) and not dotall and not other:
        lazy, known = False, True
    elif sq == _squeeze(REPAIRED_PATTERN) and dotall and not other:
        lazy, known = True, True
    else:
        lazy, known = True, False
    d = P.TreeBuilder.__dict__
    over = [k for k in ("start", "end", "close") if k in d]
    if over and set(over) != {"start", "end", "close"}:
        # a partial set of overrides is neither of the two modelled builders: model the repaired one, deep setting
        known = False
    checked = bool(over)
    # an override of data() (or any other method the model knows nothing about) is reported by source_pins: `source_is_pinned = false`
    # breaks the obligation, and the run goes on so that the property predicate can look for a failing input
    if "data" in d:
        known = False
    import ofxtools.utils as U
    importlib.reload(U)
    hashes, changes, problems = source_pins(P, U)
    SOURCE_CHANGES[:] = changes
    return {"cdata_lazy": lazy, "checked": checked, "pattern": pat, "flags": int(flags), "known": known,
            "source_hashes": hashes, "source_changes": changes, "source_problems": problems}


def gen_sgml():
    import xml.etree.ElementTree as ET
    sp = [c for c in range(0x110000) if chr(c).isspace()]
    rx = re.compile(r"\s")
    for c in range(0x110000):
        ch = chr(c)
        inset = ch.isspace()
        if (ch.strip() == "") != inset or (rx.fullmatch(ch) is not None) != inset:
            raise ValueError("str.strip / regex \\s / str.isspace disagree on U+%04X" % c)
    v = repo_variant()
    he = sorted(ET.HTML_EMPTY)
    for t in he:
        if not (isinstance(t, str) and t.isascii() and t == t.lower()):
            raise ValueError("unexpected HTML_EMPTY member %r" % (t,))
    body = "(** GENERATED by tools/ofxv/translate_sgml.py from the running interpreter and /repo/ofxtools/Parser.py -- do not edit *)\n"
    body += "From OfxV Require Import Base.Prelude Base.SgmlBase Model.Sgml.\nLocal Open Scope N_scope.\n"
    body += "Definition py_isspace : list N := " + C.clist(["%d" % c for c in sp]) + ".\n"
    body += "Definition regex_pattern : text := " + C.ctext(v["pattern"]) + ".\n"
    body += "Definition regex_flags : N := %d.\n" % v["flags"]
    body += "Definition pattern_known : bool := %s.\n" % C.cbool(v["known"])
    body += "(* the hand-transcribed functions of Parser.py / utils.py are the ones the models were written against (normalised-AST hashes):\n"
    body += "".join("   %s %s\n" % (k, h) for k, h in sorted(v["source_hashes"].items()))
    body += "".join("   CHANGED (tripwire; tied by the correspondence run): %s\n" % q.replace("*)", "* )") for q in v["source_changes"])
    body += "".join("   PROBLEM: %s\n" % q.replace("*)", "* )") for q in v["source_problems"]) + "*)\n"
    body += "Definition source_is_pinned : bool := %s.\n" % C.cbool(not v["source_problems"])
    body += "Definition repo_cfg : cfg := {| cdata_lazy := %s; checked := %s |}.\n" % (C.cbool(v["cdata_lazy"]), C.cbool(v["checked"]))
    body += "Definition html_empty : list text :=\n [ " + "\n ; ".join(C.ctext(t) for t in he) + " ].\n"
    C.write_if_changed(os.path.join(C.THEORIES, "Gen", "SgmlGen.v"), body)
    return v
