"""Gen/ScalarsGen.v: the data the Scalars / PyDecimal models take from the running interpreter and from
/repo/ofxtools/Types.py (regenerated on every run; fail closed).

* py_space_ranges      code points with str.isspace()  (decimal.Decimal() / int() strip them)
* py_decimal_zeros     code point of the digit ZERO of every Unicode Nd decade (int() / Decimal() accept them)
* bool_mapping         Types.Bool.mapping in dict order
* string_entities      the entity dict String._convert_str hands to saxutils.unescape, in dict order (from the AST)
* anchored source digests (Python side only): a changed converter switches the correspondence run to its deep setting
"""
import os, ast, inspect, hashlib, importlib, unicodedata, textwrap
from . import common as C

ANCHORED = ["Element.enforce_required", "Bool", "String", "NagString", "OneOf", "Integer", "Decimal", "ListElement", "DateTime", "Time", "format_datetime"]

# The singledispatchmethod tables the models are written after: which class owns a dispatcher for convert / unconvert and which Python
# types it dispatches on.  A registry belongs to the descriptor, so a subclass that registers on its parent's descriptor changes the PARENT's
# behaviour: the owner and the key set of every table are compared on each run and any difference fails closed (a harmless rewrite of a
# handler body does not touch them).  None = the class defines no dispatcher of its own; "function" = a plain method.
N_, O_, S_ = "builtins.NoneType", "builtins.object", "builtins.str"
DISPATCH = {
    "Bool": {"convert": [N_, "builtins.bool", O_, S_], "unconvert": [N_, "builtins.bool", O_]},
    "String": {"convert": [N_, O_, S_], "unconvert": [N_, O_, S_]},
    "NagString": {"convert": None, "unconvert": None},
    "OneOf": {"convert": [N_, O_, S_], "unconvert": [N_, O_]},
    "Integer": {"convert": [N_, "builtins.int", O_, S_], "unconvert": [N_, "builtins.int", O_]},
    "Decimal": {"convert": [N_, O_, S_, "decimal.Decimal"], "unconvert": [N_, O_, "decimal.Decimal"]},
    "DateTime": {"convert": [N_, O_, S_, "datetime.datetime"], "unconvert": [N_, O_, "datetime.datetime"]},
    "Time": {"convert": [N_, O_, S_, "datetime.time"], "unconvert": [N_, O_, "datetime.time"]},
    "ListElement": {"convert": "function", "unconvert": "function"},
}


def dispatch_tables(T):
    out = {}
    for cname in DISPATCH:
        cls = getattr(T, cname)
        out[cname] = {}
        for m in ("convert", "unconvert"):
            d = cls.__dict__.get(m)
            if d is None:
                out[cname][m] = None
            elif hasattr(d, "dispatcher"):
                out[cname][m] = sorted(k.__module__ + "." + k.__name__ for k in d.dispatcher.registry)
            else:
                out[cname][m] = type(d).__name__
    return out


def check_dispatch(T):
    got = dispatch_tables(T)
    want = {c: {m: (sorted(v) if isinstance(v, list) else v) for m, v in t.items()} for c, t in DISPATCH.items()}
    bad = ["%s.%s: %r (expected %r)" % (c, m, got[c][m], want[c][m]) for c in want for m in want[c] if got[c][m] != want[c][m]]
    if bad:
        raise ValueError("singledispatch tables of Types.py differ from the ones the models transcribe: " + "; ".join(bad))
    return got


def _ranges(cps):
    out = []
    for c in cps:
        if out and out[-1][1] + 1 == c:
            out[-1][1] = c
        else:
            out.append([c, c])
    return out


def live_types():
    C.use_repo()
    import ofxtools.Types as T
    if not os.path.abspath(T.__file__).startswith(os.path.abspath(C.REPO)):
        importlib.reload(T)         # imported earlier from somewhere else: once, before any model class exists
    if not os.path.abspath(T.__file__).startswith(os.path.abspath(C.REPO)):
        raise RuntimeError("ofxtools.Types was imported from %s, not from %s" % (T.__file__, C.REPO))
    return T


def _norm_src(obj):
    tree = ast.parse(textwrap.dedent(inspect.getsource(obj)))
    for n in ast.walk(tree):            # docstrings and comments do not count
        if isinstance(n, (ast.FunctionDef, ast.ClassDef, ast.Module)) and n.body and isinstance(n.body[0], ast.Expr) \
                and isinstance(getattr(n.body[0], "value", None), ast.Constant) and isinstance(n.body[0].value.value, str):
            n.body = n.body[1:] or [ast.Pass()]
    return ast.dump(tree, annotate_fields=False, include_attributes=False)


def source_digests(T=None):
    T = T or live_types()
    out = {}
    for name in ANCHORED:
        obj = T
        for part in name.split("."):
            obj = getattr(obj, part)
        out[name] = hashlib.sha1(_norm_src(obj).encode()).hexdigest()[:12]
    import ofxtools.utils as U
    out["utils.tostring_unclosed_elements"] = hashlib.sha1(_norm_src(U.tostring_unclosed_elements).encode()).hexdigest()[:12]
    return out


def _entity_table(T, node):
    """the table handed to saxutils.unescape: a dict literal, or a constant the function names -- `self.X` / `cls.X` /
    `String.X` / `type(self).X` (read from the live class String) or a module-level name of Types.py (read from the live
    module).  Anything else is not understood (fail closed).  The value is read from the running interpreter, so the tie is
    to what the code uses now; the entries are type-checked by the caller."""
    if isinstance(node, ast.Dict):
        return ast.literal_eval(node)
    val = None
    if isinstance(node, ast.Attribute) and isinstance(node.ctx, ast.Load):
        base = node.value
        is_self = isinstance(base, ast.Name) and base.id in ("self", "cls", "String")
        is_type_self = (isinstance(base, ast.Call) and isinstance(base.func, ast.Name) and base.func.id == "type"
                        and len(base.args) == 1 and isinstance(base.args[0], ast.Name) and base.args[0].id == "self")
        if (is_self or is_type_self) and node.attr in vars(T.String):
            val = vars(T.String)[node.attr]
    elif isinstance(node, ast.Name) and node.id in vars(T):
        val = vars(T)[node.id]
    if not isinstance(val, dict):
        raise ValueError("String._convert_str: entity table argument not understood: %s" % ast.dump(node))
    return dict(val)


def string_entities(T):
    """the literal dict passed as 2nd argument of saxutils.unescape in String._convert_str"""
    fn = T.String.__dict__["_convert_str"]
    tree = ast.parse(textwrap.dedent(inspect.getsource(fn)))
    found = []
    for n in ast.walk(tree):
        if isinstance(n, ast.Call) and isinstance(n.func, ast.Attribute) and n.func.attr == "unescape":
            if len(n.args) == 1 and not n.keywords:
                found.append({})
            elif len(n.args) == 2 and not n.keywords:
                found.append(_entity_table(T, n.args[1]))
            else:
                raise ValueError("String._convert_str: unescape call not understood")
    if len(found) != 1:
        raise ValueError("String._convert_str: expected exactly one saxutils.unescape call, found %d" % len(found))
    ents = found[0]
    for k, v in ents.items():
        if not (isinstance(k, str) and isinstance(v, str) and k):
            raise ValueError("String._convert_str: entity table entry not understood: %r" % ((k, v),))
    return list(ents.items())


def gen_scalars():
    T = live_types()
    check_dispatch(T)
    spaces = [c for c in range(0x110000) if chr(c).isspace()]
    zeros = []
    nd = 0
    for c in range(0x110000):
        ch = chr(c)
        if ch.isdecimal():
            nd += 1
            if unicodedata.decimal(ch) == 0:
                zeros.append(c)
    for z in zeros:
        for i in range(10):
            if not (chr(z + i).isdecimal() and unicodedata.decimal(chr(z + i)) == i):
                raise ValueError("Unicode decimal digits at U+%04X are not a contiguous 0..9 run" % z)
    if nd != 10 * len(zeros):
        raise ValueError("Unicode decimal digits outside the contiguous runs")
    mapping = T.Bool.mapping
    if not isinstance(mapping, dict) or not all(isinstance(k, str) and isinstance(v, bool) for k, v in mapping.items()):
        raise ValueError("Bool.mapping not understood: %r" % (mapping,))
    ents = string_entities(T)
    for cls, strict in ((T.String, True), (T.NagString, False)):
        if cls.strict is not strict:
            raise ValueError("%s.strict is %r" % (cls.__name__, cls.strict))
    body = "(** GENERATED by tools/ofxv/translate_scalars.py from the running interpreter (unicodedata %s) and\n" % unicodedata.unidata_version
    body += "    /repo/ofxtools/Types.py (Bool.mapping; the entity dict of String._convert_str) -- do not edit *)\n"
    body += "From OfxV Require Import Base.Prelude.\nLocal Open Scope N_scope.\n"
    body += "Definition py_space_ranges : list (N * N) :=\n [ " + "; ".join("(%d,%d)" % (a, b) for a, b in _ranges(spaces)) + " ].\n"
    body += "Definition py_decimal_zeros : list N :=\n [ " + "; ".join("%d" % z for z in zeros) + " ].\n"
    body += "Definition bool_mapping : list (text * bool) :=\n [ " + "; ".join("(%s,%s)" % (C.ctext(k), C.cbool(v)) for k, v in mapping.items()) + " ].\n"
    body += "Definition string_entities : list (text * text) :=\n [ " + "; ".join("(%s,%s)" % (C.ctext(k), C.ctext(v)) for k, v in ents) + " ].\n"
    C.write_if_changed(os.path.join(C.THEORIES, "Gen", "ScalarsGen.v"), body)
    return {"spaces": spaces, "zeros": zeros, "mapping": mapping, "entities": ents, "digests": source_digests(T)}
