"""Tables of ofxtools/scripts/ofxget.py regenerated into coq/theories/Gen/OfxgetGen.v on every run (C18, C19).

From the live module: DEFAULTS, CONFIGURABLE (name -> type, in iteration order), NULL_ARGS.
From the source text (ast): the keys of the dict merge_from_ofxhome inserts and the OFXServer attribute each one
takes; the account-type tuples the request_stmt / request_stmtend loops iterate.
From the runtime the script relies on: str.isspace() code points, configparser's BOOLEAN_STATES, and the
[DEFAULT] keys of the bundled fi.cfg (the persistence theorem needs: none).
Fail closed: anything not understood raises, which the framework reports as a broken obligation."""
import os, sys, ast, importlib, configparser
from . import common as C

GEN = os.path.join(C.THEORIES, "Gen", "OfxgetGen.v")
OH_FIELDS = ["url", "org", "fid", "brokerid"]          # fields of the model's OFX Home record, by index


def scratch_env(tag="translate"):
    """ofxtools.config reads XDG_* at import: point them at a scratch directory first."""
    d = os.path.join(C.BUILD, "ofxget", tag)
    os.makedirs(d, exist_ok=True)
    if "ofxtools.config" not in sys.modules:
        os.environ["XDG_CONFIG_HOME"] = d
        os.environ["XDG_DATA_HOME"] = d
        os.environ["XDG_CACHE_HOME"] = d
    return d


def pyval(v):
    if v is None:
        return "PNone"
    if isinstance(v, bool):
        return "(PBool %s)" % C.cbool(v)
    if isinstance(v, int):
        return "(PInt %s)" % C.cZ(v)
    if isinstance(v, str):
        return "(PStr %s)" % C.ctext(v)
    if isinstance(v, list) and all(isinstance(x, str) for x in v):
        return "(PList %s)" % C.clist([C.ctext(x) for x in v])
    raise ValueError("value not understood: %r" % (v,))


TY = {str: "TStr", int: "TInt", bool: "TBool", list: "TList"}


def _func(tree, name):
    for n in tree.body:
        if isinstance(n, ast.FunctionDef) and n.name == name:
            return n
    raise ValueError("function %s not found in ofxget.py" % name)


def ofxhome_keys(tree):
    """args.maps.insert(-1, {"url": lookup.url, ...}) inside merge_from_ofxhome"""
    f = _func(tree, "merge_from_ofxhome")
    found = []
    for n in ast.walk(f):
        if isinstance(n, ast.Call) and isinstance(n.func, ast.Attribute) and n.func.attr == "insert":
            found.append(n)
    if len(found) != 1:
        raise ValueError("merge_from_ofxhome: expected exactly one .insert call, found %d" % len(found))
    call = found[0]
    tgt = call.func.value
    if not (isinstance(tgt, ast.Attribute) and tgt.attr == "maps" and isinstance(tgt.value, ast.Name) and tgt.value.id == "args"):
        raise ValueError("merge_from_ofxhome: insert is not on args.maps")
    if len(call.args) != 2 or call.keywords:
        raise ValueError("merge_from_ofxhome: insert arguments not understood")
    pos = ast.literal_eval(call.args[0])
    if pos != -1:
        raise ValueError("merge_from_ofxhome: insert position %r (the model puts the map before the last one)" % (pos,))
    d = call.args[1]
    if not isinstance(d, ast.Dict):
        raise ValueError("merge_from_ofxhome: inserted value is not a dict display")
    out = []
    for k, v in zip(d.keys, d.values):
        if not (isinstance(k, ast.Constant) and isinstance(k.value, str)):
            raise ValueError("merge_from_ofxhome: non-literal key")
        if not (isinstance(v, ast.Attribute) and isinstance(v.value, ast.Name) and v.value.id == "lookup" and v.attr in OH_FIELDS):
            raise ValueError("merge_from_ofxhome: value of %r is not lookup.<url|org|fid|brokerid>" % k.value)
        out.append((k.value, OH_FIELDS.index(v.attr)))
    return out


def loop_tuple(tree, fname):
    """the tuple iterated by `for accttype in (...)` in request_stmt / request_stmtend"""
    f = _func(tree, fname)
    found = []
    for n in ast.walk(f):
        if isinstance(n, ast.For) and isinstance(n.target, ast.Name) and n.target.id == "accttype":
            found.append(n)
    if len(found) != 1:
        raise ValueError("%s: expected one `for accttype in ...` loop, found %d" % (fname, len(found)))
    it = found[0].iter
    vals = ast.literal_eval(it)
    if not (isinstance(vals, (tuple, list)) and all(isinstance(x, str) for x in vals)):
        raise ValueError("%s: account-type loop is not over a literal tuple of str" % fname)
    return list(vals)


def load(strict=True):
    """-> (module, dict of tables) from common.REPO.  strict=False (used by the case generators after the translator
    already reported its failure): fall back to the last understood shape where the source is no longer understood,
    so that the search for a failing input can still run."""
    C.use_repo()
    scratch_env()
    import ofxtools.scripts.ofxget as G
    if not os.path.abspath(G.__file__).startswith(os.path.abspath(C.REPO)):
        raise ValueError("ofxget imported from %s, not from %s" % (G.__file__, C.REPO))
    src = open(G.__file__, encoding="utf-8").read()
    tree = ast.parse(src)
    t = {}
    t["defaults"] = list(G.DEFAULTS.items())
    for k, v in t["defaults"]:
        if not isinstance(k, str):
            raise ValueError("DEFAULTS key %r" % (k,))
        pyval(v)
    conf = []
    for k, ty in G.CONFIGURABLE.items():
        if ty not in TY:
            raise ValueError("CONFIGURABLE[%r] = %r: type not understood" % (k, ty))
        if k not in G.DEFAULTS or type(G.DEFAULTS[k]) is not ty:
            raise ValueError("CONFIGURABLE[%r] does not agree with DEFAULTS" % k)
        if k != k.lower() or not k.isascii() or not k.isidentifier():
            raise ValueError("CONFIGURABLE key %r is not a lower-case ASCII identifier" % k)
        conf.append((k, TY[ty]))
    t["configurable"] = conf
    t["null_args"] = list(G.NULL_ARGS)
    for v in t["null_args"]:
        pyval(v)
    fallback = {"ofxhome_keys": [(k, i) for i, k in enumerate(OH_FIELDS)],
                "stmt_types": ["checking", "savings", "moneymrkt", "creditline"],
                "stmtend_types": ["checking", "savings", "moneymrkt", "creditline"]}
    for key, fn in (("ofxhome_keys", lambda: ofxhome_keys(tree)), ("stmt_types", lambda: loop_tuple(tree, "request_stmt")),
                    ("stmtend_types", lambda: loop_tuple(tree, "request_stmtend"))):
        try:
            t[key] = fn()
        except ValueError:
            if strict:
                raise
            t[key] = fallback[key]
    t["isspace"] = [c for c in range(sys.maxunicode + 1) if chr(c).isspace()]
    bs = configparser.ConfigParser.BOOLEAN_STATES
    if not all(isinstance(k, str) and isinstance(v, bool) and k == k.lower() and k.isascii() for k, v in bs.items()):
        raise ValueError("BOOLEAN_STATES not understood")
    t["bool_states"] = list(bs.items())
    # the bundled FI database: [DEFAULT] keys (expected: none), read the way LibraryConfig reads it
    real = os.path.join(os.path.dirname(os.path.dirname(G.__file__)), "config", "fi.cfg")
    cp = configparser.ConfigParser(interpolation=None)
    cp.read(real)
    t["fi_default_keys"] = list(cp.defaults().keys())
    t["fi_sections"] = len(cp.sections())
    t["fi_path"] = real
    return G, t


def gen():
    G, t = load()
    o = ["(** GENERATED from %s (DEFAULTS, CONFIGURABLE, NULL_ARGS, merge_from_ofxhome, request_stmt/request_stmtend loops)"
         % "ofxtools/scripts/ofxget.py",
         "    and from the Python runtime (str.isspace, configparser.BOOLEAN_STATES) -- do not edit *)",
         "From OfxV Require Import Base.Prelude Base.OfxgetBase.",
         "Local Open Scope N_scope.",
         "(* DEFAULTS, in definition order *)",
         "Definition og_defaults : amap :=\n [ " + "\n ; ".join("(%s, %s) (* %s *)" % (C.ctext(k), pyval(v), k) for k, v in t["defaults"]) + " ].",
         "(* CONFIGURABLE.items(): option -> type, in iteration order *)",
         "Definition og_configurable : dict oty :=\n [ " + "\n ; ".join("(%s, %s) (* %s *)" % (C.ctext(k), ty, k) for k, ty in t["configurable"]) + " ].",
         "Definition og_null_args : list pyval := " + C.clist([pyval(v) for v in t["null_args"]]) + ".",
         "(* keys of the dict merge_from_ofxhome inserts before the last map; field index into [url; org; fid; brokerid] *)",
         "Definition og_ofxhome_keys : dict N :=\n [ " + "\n ; ".join("(%s, %d) (* %s *)" % (C.ctext(k), i, k) for k, i in t["ofxhome_keys"]) + " ].",
         "(* account-type option names iterated by request_stmt / request_stmtend *)",
         "Definition og_stmt_types : list text := " + C.clist([C.ctext(x) for x in t["stmt_types"]]) + ".",
         "Definition og_stmtend_types : list text := " + C.clist([C.ctext(x) for x in t["stmtend_types"]]) + ".",
         "(* code points c with chr(c).isspace() *)",
         "Definition og_isspace : list N := " + C.clist(["%d" % c for c in t["isspace"]]) + ".",
         "(* configparser.ConfigParser.BOOLEAN_STATES *)",
         "Definition og_bool_states : dict bool := " + C.clist(["(%s, %s)" % (C.ctext(k), C.cbool(v)) for k, v in t["bool_states"]]) + ".",
         "(* keys of the [DEFAULT] section of the bundled ofxtools/config/fi.cfg (%d sections) *)" % t["fi_sections"],
         "Definition og_fi_default_keys : list text := " + C.clist([C.ctext(x) for x in t["fi_default_keys"]]) + ".",
         ""]
    C.write_if_changed(GEN, "\n".join(o))
    return t
