"""C09: data regenerated from /repo's working tree into coq/theories/Gen/DateTimeGen.v on every run:
utils.TZS (zone name -> whole hours) and the code points Python's `\\d` / int() treat as decimal digits
(runs of ten starting at a zero).  Fail closed on anything not understood."""
import os, importlib, hashlib, re
from . import common as C

# pattern texts the hand-written recogniser Model/DateTimeM.v (match_dt / match_time) was written against
DT_PATTERN_SHA = "c4b23333"      # sha1 of the whitespace-free pattern + flags the recogniser was transcribed from
TIME_PATTERN_SHA = "690c37a2"


def _norm(p):
    return re.sub(r"\s+", "", p)


def pattern_state():
    """-> dict: whether DT_REGEX / TIME_REGEX still are the patterns the recogniser was transcribed from."""
    C.use_repo()
    import ofxtools.Types as T
    out = {}
    for name, want in (("DT_REGEX", DT_PATTERN_SHA), ("TIME_REGEX", TIME_PATTERN_SHA)):
        rx = getattr(T, name)
        h = hashlib.sha1((_norm(rx.pattern) + "|%d" % rx.flags).encode()).hexdigest()[:8]
        out[name] = {"sha": h, "unchanged": h == want}
    return out


def gen_datetime():
    C.use_repo()
    import ofxtools.utils as U
    importlib.reload(U)
    tzs = U.TZS
    if not isinstance(tzs, dict):
        raise ValueError("utils.TZS is not a dict")
    rows = []
    for k, v in tzs.items():
        if not isinstance(k, str) or isinstance(v, bool) or not isinstance(v, int):
            raise ValueError("utils.TZS entry not understood: %r: %r" % (k, v))
        rows.append("(%s, %s)" % (C.ctext(k), C.cZ(v) + "%Z"))
    nd = [i for i in range(0x110000) if chr(i).isdecimal()]
    if len(nd) % 10:
        raise ValueError("decimal digits do not come in runs of ten")
    zeros = []
    for k in range(0, len(nd), 10):
        run = nd[k:k + 10]
        if run != list(range(run[0], run[0] + 10)) or [int(chr(c)) for c in run] != list(range(10)):
            raise ValueError("decimal digit run not understood at U+%04X" % run[0])
        zeros.append(run[0])
    if 48 not in zeros:
        raise ValueError("ASCII digits missing")
    body = "(** GENERATED from /repo/ofxtools/utils.py TZS and the interpreter's decimal-digit table -- do not edit *)\n"
    body += "From OfxV Require Import Base.Prelude.\nLocal Open Scope N_scope.\n"
    body += "Definition tzs : list (text * Z) :=\n [ " + "\n ; ".join(rows) + " ].\n"
    body += "(** first code point of every run of ten decimal digits (str.isdecimal / re \\d / int()) *)\n"
    body += "Definition nd_zeros : list N :=\n [ " + "; ".join("%d" % z for z in zeros) + " ].\n"
    C.write_if_changed(os.path.join(C.THEORIES, "Gen", "DateTimeGen.v"), body)
    return tzs, zeros
