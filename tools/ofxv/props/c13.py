"""C13 - every child a model class declares can actually be built, written and read back (finite, exhaustive)."""
import warnings, copy
import xml.etree.ElementTree as ET
from .. import common as C
from .. import schema_harness as H
from .. import translate_schema as TS

PROP = "C13"
COQ_EXTRA = ["theories/Model/ConvertCases.vo", "theories/Gen/SchemaS.vo"]
IMPORTS = ["Model.Schema", "Model.Convert", "Model.ConvertCases", "Gen.SchemaGen", "Gen.SchemaS"]
PARTIAL = ["element converters are opaque at this level (tables filled by the real converters); their laws are C09/C10's",
           "the translator (tools/ofxv/translate_schema.py) is trusted to report the class table; cross-checked by spec_model_matches_python and by the per-child probe on the real classes"]
MANIFEST = {
    "engine": "Schema",
    "text": "The property quantifies over programs: the class table, a finite space enumerated COMPLETELY on every run. The table is regenerated from the live "
            "classes into Coq; a kernel-evaluated well-formedness check (export, child naming, tag alphabet, list adjacency, exclusivity-group members and "
            "inheritance, ElementList shape, renames, constructibility) must return no witness, the Gallina model of the MRO/ChainMap spec machinery must equal "
            "what the interpreter computes for all 396 classes, and generic theorems over ANY well-formed table give the checks their meaning (a child written by "
            "to_etree is read back by from_etree into the same attribute). The generic construct/from_etree/to_etree model is compared with the implementation on "
            "instances of every concrete class, and a per-child construct/write/read probe is run on the real classes for all ~2100 declared children.",
    "note": "Trusted: Coq kernel + vm_compute; translator; hand transcription Model/Schema.v, Model/Convert.v (validated by correspondence on all 390 concrete classes); "
            "scalar converters opaque here. Print Assumptions: closed under the global context.",
}


def translate():
    TS.generate()


FILE_HEAD = '<?xml version="1.0" encoding="UTF-8" standalone="no"?>\r\n<?OFX OFXHEADER="200" VERSION="220" SECURITY="NONE" OLDFILEUID="NONE" NEWFILEUID="NONE"?>\r\n'


def child_probe(ctx, cls, attr, t, rng):
    """construct an instance holding the child, write it, read it back: -> None or (key, what, replay)"""
    T = ctx.Types
    obj = None
    lost = None
    cn = cls.__name__
    for attempt in range(48):      # the generator, not the class, must never be the reason a child is not exhibited: many tries, several shapes
        args, kw = H.gen_args(ctx, cls, rng, (1, 2, 1, 0, 2, 3)[attempt % 6], (0.15, 0.4, 0.05)[attempt % 3], force=attr)
        try:
            with warnings.catch_warnings():
                warnings.simplefilter("ignore")
                cand = cls(*args, **kw)
        except Exception:
            continue
        if isinstance(t, (T.ListAggregate, T.ListElement)):
            ok = len(cand) > 0 and (isinstance(t, T.ListElement) or any(type(m).__name__.lower() == attr for m in cand))
        else:
            ok = cand.__dict__.get(attr) is not None
            if not ok and kw.get(attr) not in (None, ""):
                lost = repr(kw.get(attr))[:80]     # the constructor took the child and the instance does not hold it
        if ok:
            obj = cand; break
    if obj is None and lost is not None:
        return ("%s.%s:given-but-not-held" % (cn, attr), "%s(%s=%s) is accepted but the instance does not hold %s: the declared child cannot be built" % (cn, attr, lost, attr), {"cls": cn, "attr": attr})
    if obj is None:
        # is it the generator or the class?  try the direct way once
        try:
            if isinstance(t, T.ListAggregate):
                m = H.gen_instance(ctx, t.__type__, rng, depth=1, full=0.15)
                args, kw = H.gen_args(ctx, cls, rng, 1, 0.15)
                cls(*([m] + [a for a in args if type(a) is not type(m)]), **kw)
            return ("generator", "%s.%s: no instance holding this child could be generated" % (cn, attr), None)
        except Exception as e:
            return ("%s.%s:cannot-be-built" % (cn, attr), "%s: child %s cannot be constructed: %r" % (cn, attr, e), {"cls": cn, "attr": attr})
    try:
        tree = obj.to_etree()
    except Exception as e:
        return ("%s.%s:cannot-be-written" % (cn, attr), "%s.to_etree() with %s raised %r" % (cn, attr, e), {"cls": cn, "attr": attr})
    tags = [c.tag for c in tree]
    want = attr.upper()
    if cn in ("MAIL",) and want == "FRM": want = "FROM"
    if cn in ("MFINFO", "STOCKINFO") and want == "YLD": want = "YIELD"
    if want not in tags:
        return ("%s.%s:written-under-other-tag" % (cn, attr), "%s: child %s is not written under tag %s (tags %s)" % (cn, attr, want, tags), {"cls": cn, "attr": attr})
    out, wtags = H.run_from_etree(ctx, tree)
    if out[0] != "ok":
        if not lists_adjacent(ctx, cls):
            return ("%s:list-attributes-not-adjacent" % cn, "%s (holding %s): repeated children are declared non-adjacently and the library's reader rejects the library's own output (%s)" % (cn, attr, out[1]),
                    {"cls": cn, "attr": attr, "xml": ET_str(tree)})
        return ("%s.%s:own-output-rejected" % (cn, attr), "%s holding %s: the library's reader rejects the library's own output (%s)" % (cn, attr, out[1]), {"cls": cn, "attr": attr, "xml": ET_str(tree)})
    back = out[1]
    if wtags or not H.inst_equal(ctx, obj, back):
        return ("%s.%s:not-read-back" % (cn, attr), "%s: child %s is not read back into the same attribute (unknown-tag warnings %s)" % (cn, attr, wtags), {"cls": cn, "attr": attr, "xml": ET_str(tree)})
    # ... and through the door an application uses: the same tree written as a version-2 FILE and read by OFXTree.parse + convert (an empty
    # aggregate child, a data-less optional child: nothing on the way in may drop what the class declares and the instance holds)
    import io
    from ofxtools.Parser import OFXTree
    data = (FILE_HEAD + ET.tostring(tree, encoding="unicode", short_empty_elements=False)).encode("utf-8")

    def parse_convert():
        tr = OFXTree(); tr.parse(io.BytesIO(data)); return tr.convert()
    out2 = H.outcome(parse_convert)
    if out2[0] != "ok":
        return ("%s.%s:own-output-rejected-as-file" % (cn, attr), "%s holding %s: OFXTree.parse + convert rejects the file holding the library's own output (%s)" % (cn, attr, out2[1]),
                {"cls": cn, "attr": attr, "xml": ET_str(tree), "door": "file"})
    if not H.inst_equal(ctx, obj, out2[1]):
        return ("%s.%s:not-read-back-from-file" % (cn, attr), "%s: child %s is not read back into the same attribute when the written tree goes through OFXTree.parse + convert" % (cn, attr),
                {"cls": cn, "attr": attr, "xml": ET_str(tree), "door": "file"})
    # a character-data child holding only white space is still a value: built, written under its tag and read back (at the model level:
    # the text parser would strip it)
    if type(t) in (T.String, T.NagString):
        blank = rng.choice([" ", "\t", "\u00a0", "\u3000", "\u2003", " \n"])
        try:
            with warnings.catch_warnings():
                warnings.simplefilter("ignore")
                obj2 = copy.deepcopy(obj)
                setattr(obj2, attr, blank)
                held = obj2.__dict__.get(attr)
        except Exception:
            held = None
        if held == blank:
            try:
                tree2 = obj2.to_etree()
            except Exception as e:
                return ("%s.%s:blank-value-cannot-be-written" % (cn, attr), "%s.to_etree() with %s=%r raised %r" % (cn, attr, blank, e), {"cls": cn, "attr": attr, "blank": blank})
            out2, w2 = H.run_from_etree(ctx, tree2)
            if out2[0] != "ok" or w2 or not H.inst_equal(ctx, obj2, out2[1]):
                return ("%s.%s:blank-value-not-read-back" % (cn, attr), "%s holding %s=%r: written, then %s" % (cn, attr, blank, out2[1] if out2[0] != "ok" else "read back differently (warnings %s)" % w2),
                        {"cls": cn, "attr": attr, "blank": blank})
    return None


def lists_adjacent(ctx, cls):
    T = ctx.Types
    kinds = [isinstance(t, (T.ListAggregate, T.ListElement)) for k, t in cls.spec.items() if not isinstance(t, T.Unsupported)]
    if True not in kinds:
        return True
    first = kinds.index(True); last = len(kinds) - 1 - kinds[::-1].index(True)
    return all(kinds[first:last + 1])


def ET_str(e):
    import xml.etree.ElementTree as ET
    return ET.tostring(e).decode()


def mutex_probes(ctx, cls, rng):
    """static + functional check of every group declared anywhere in the MRO"""
    T = ctx.Types
    out = []
    cn = cls.__name__
    spec = cls.spec
    for kind in ("optionalMutexes", "requiredMutexes"):
        eff = [list(g) for g in getattr(cls, kind)]
        declared = []
        for b in cls.__mro__:
            for g in b.__dict__.get(kind, []) or []:
                if list(g) not in declared:
                    declared.append(list(g))
        for g in declared:
            if g not in eff:
                out.append(("%s:group-not-in-force[%s]" % (cn, ",".join(g)), "%s inherits the %s group %s but it is shadowed (effective: %s)" % (cn, kind, g, eff), {"cls": cn, "group": g}))
        for g in eff:
            for m in g:
                t = spec.get(m)
                if t is None or isinstance(t, (T.ListAggregate, T.ListElement, T.Unsupported)) or getattr(t, "required", False):
                    why = "missing" if t is None else ("repeated child" if isinstance(t, (T.ListAggregate, T.ListElement)) else "unsupported or required")
                    out.append(("%s:group-member-%s[%s]" % (cn, why.replace(" ", "-"), m), "%s: %s group %s names %s, which is %s: the constraint can never fire" % (cn, kind, g, m, why), {"cls": cn, "group": g, "member": m}))
    # functional: two members of a declared group must be rejected
    for b in cls.__mro__:
        for g in b.__dict__.get("optionalMutexes", []) or []:
            live = [m for m in g if m in spec and not isinstance(spec[m], (T.ListAggregate, T.ListElement, T.Unsupported))]
            if len(live) < 2:
                continue
            for _ in range(4):
                args, kw = H.gen_args(ctx, cls, rng, 1, 0.2, force=live[0])
                if live[0] not in kw:
                    continue
                t2 = spec[live[1]]
                v2 = H.gen_instance(ctx, t2.__type__, rng, 1, 0.2) if isinstance(t2, T.SubAggregate) else H.gen_value(ctx, t2, rng)
                kw2 = dict(kw); kw2[live[1]] = v2
                try:
                    with warnings.catch_warnings():
                        warnings.simplefilter("ignore")
                        cls(*args, **kw)        # baseline must be constructible, otherwise the probe says nothing
                except Exception:
                    continue
                try:
                    with warnings.catch_warnings():
                        warnings.simplefilter("ignore")
                        cls(*args, **kw2)
                    out.append(("%s:group-not-in-force[%s]" % (cn, ",".join(g)), "%s accepts both %s and %s although %s declares them mutually exclusive" % (cn, live[0], live[1], b.__name__), {"cls": cn, "group": list(g)}))
                except Exception:
                    pass
                break
    return out


# the class table must not depend on the order in which classes are first used (a memoised classproperty inherited by a subclass would
# make a declared child silently unreachable): two fresh interpreters touch every class-level table, bases first resp. leaves first
ORDER_SCRIPT = r'''
import sys, json, warnings
warnings.simplefilter("ignore")
import ofxtools.models as M
from ofxtools.models.base import Aggregate
seen = []
def walk(c):
    for s in c.__subclasses__():
        if s not in seen:
            seen.append(s); walk(s)
walk(Aggregate)
order = sorted(seen, key=lambda c: (len(c.__mro__), c.__name__), reverse=(sys.argv[1] == "leaves-first"))
props = ("spec", "spec_no_listaggregates", "elements", "subaggregates", "listaggregates", "listelements", "unsupported")
for c in order:
    for p in props:
        getattr(c, p)
print(json.dumps({c.__name__: {p: list(getattr(c, p)) for p in props} for c in seen}))
'''


def class_tables(order):
    import subprocess, json, os
    r = subprocess.run([C.PY, "-c", ORDER_SCRIPT, order], env=dict(os.environ, PYTHONPATH=C.REPO, PYTHONHASHSEED="0"), stdout=subprocess.PIPE, stderr=subprocess.PIPE, text=True, timeout=300)
    if r.returncode:
        raise RuntimeError("class-table probe (%s) failed: %s" % (order, r.stderr[-400:]))
    return json.loads(r.stdout.strip().splitlines()[-1])


def order_probe():
    """-> list of (key, what, replay) for every class-level table that differs between the two histories"""
    a, b = class_tables("bases-first"), class_tables("leaves-first")
    out = []
    for cn in sorted(a):
        for p, va in a[cn].items():
            vb = b.get(cn, {}).get(p)
            if va != vb:
                lost = [k for k in (vb or []) if k not in va] or [k for k in va if k not in (vb or [])]
                out.append(("%s.%s:class-table-depends-on-history" % (cn, p),
                            "%s.%s is %s when base classes are used first and %s when subclasses are used first: declared children %s become unreachable" % (cn, p, va[:8], (vb or [])[:8], lost[:6]),
                            {"cls": cn, "table": p, "probe": "order"}))
    return out


def run(rep, tier, rng):
    try:
        for r in order_probe()[:12]:
            rep.failures.append(C.Failure(*r))
        rep.count(("order-probe",), nontrivial=True, kind="class-table-order-probe")
    except Exception as e:
        rep.broken.append("class-table order probe could not run: %r" % (e,))
    ctx = H.Ctx()
    d = ctx.d
    T = ctx.Types
    if d["problems"]:
        rep.broken.append("translator not complete: %s" % d["problems"][:3])
    rep.extra["watched_source_hashes"] = d["watched"]
    rep.extra["classes"] = len(d["raw"]); rep.extra["concrete_classes"] = len(ctx.concrete)
    per_class = 6 if tier == "thorough" else 2
    items, meta = [], []
    n_children = 0
    # every concrete aggregate is found by its tag
    for cls in ctx.concrete:
        if getattr(ctx.M, cls.__name__, None) is not cls:
            rep.failures.append(C.Failure("%s:not-exported" % cls.__name__, "%s is not found by its tag" % cls.__name__, {"cls": cls.__name__}))
    for cls in ctx.concrete:
        # correspondence: random instances, written and read back
        for _ in range(per_class):
            obj = H.gen_instance(ctx, cls, rng, depth=2)
            if obj is None:
                continue
            c, out = H.case_to(ctx, obj); items.append(c); meta.append(("to_etree", cls.__name__))
            rep.count(c, nontrivial=(out[0] == "ok"), kind="to_etree:" + out[0])
            if out[0] == "ok":
                c2, out2, tags = H.case_from(ctx, out[1]); items.append(c2); meta.append(("from_etree", cls.__name__))
                rep.count(c2, nontrivial=(out2[0] == "ok"), kind="from_etree:" + out2[0])
        # exhaustive per-child probe on the real classes (property predicate on the implementation)
        for attr, t in cls.spec.items():
            if isinstance(t, T.Unsupported):
                continue
            n_children += 1
            r = child_probe(ctx, cls, attr, t, rng)
            rep.count(("probe", cls.__name__, attr), nontrivial=True, kind="child-probe")
            if r is None:
                continue
            if r[0] == "generator":
                rep.broken.append(r[1])
            else:
                rep.failures.append(C.Failure(*r))
        for r in mutex_probes(ctx, cls, rng):
            rep.failures.append(C.Failure(*r))
    rep.extra["children_probed"] = n_children
    rep.extra["exhaustive"] = True
    rep.sample({"probe": "for every class and declared child: construct an instance holding it, to_etree, tag present, from_etree, deep-equal", "children": n_children})
    if items:
        rep.sample({"case": items[0][:400]})
    rep.rule = ("exhaustive over the class table: every declared child of every concrete class probed on the real classes (construct/write/read/compare), every "
                "exclusivity group checked statically and by a two-member construction; plus %d random instances per class through to_etree and from_etree, model vs "
                "implementation. non-trivial = the implementation returned a value; distinct by case text" % per_class)
    bad = C.coq_bad_indices(PROP, "convert", IMPORTS, "ccase_ok S", "ccase", items, shard=150, prelude="Local Open Scope string_scope.")
    for i in bad[:30]:
        rep.disagreements.append({"what": meta[i][0], "class": meta[i][1], "case": items[i][:1500]})
    # when the kernel-evaluated obligation no longer holds, show its witnesses
    wit = C.coq_eval(PROP, "wf", ["Model.Schema", "Model.SchemaWf", "Proofs.SchemaKnown", "Gen.SchemaGen", "Gen.SchemaS"],
                     "wf_schema_except S raw_classes known_witnesses, py_mismatches S py_table, translator_complete")
    rep.extra["wf_schema_output"] = wit[-1500:]


def replay(obj):
    C.use_repo()
    import random
    ctx = H.Ctx()
    r = obj["replay"]
    if r.get("probe") == "order":
        res = [x for x in order_probe() if x[2]["cls"] == r["cls"] and x[2]["table"] == r["table"]]
        print("replay:", res[:1])
        if res:
            print("VIOLATION property=C13 replay=(this file)")
        return 1 if res else 0
    cls = ctx.byname[r["cls"]]
    if "attr" in r:
        res = child_probe(ctx, cls, r["attr"], cls.spec[r["attr"]], random.Random(1))
    else:
        res = next((x for x in mutex_probes(ctx, cls, random.Random(1)) if x[0] == obj["key"]), None)
    print("replay:", res)
    if res:
        print("VIOLATION property=C13 replay=(this file)")
    return 1 if res else 0
