"""C10 - element type converters are mutually inverse, canonical and strict at limits
(ofxtools/Types.py:181-453, 747-762: enforce_required, Bool, String, NagString, OneOf, Integer, Decimal, ListElement).

Also the shared scalar machinery of C11 (encoders, generators, implementation runner): c11.py imports this module."""
import os, re, json, glob, decimal, datetime, warnings, importlib, fractions
from .. import common as C
from ..translate_scalars import gen_scalars, source_digests

PROP = "C10"
COQ_EXTRA = ["theories/Model/ScalarsCases.vo", "theories/Gen/ScalarsGen.vo"]
PARTIAL = [
    "decimal.Decimal / int / str.replace / saxutils are CPython runtime: PyDecimal.v and the text routines of Scalars.v are hand transcriptions of their documented "
    "behaviour under the DEFAULT decimal context (prec 28, ROUND_HALF_EVEN), tied to the interpreter by the correspondence run only",
    "float, bytes and tuple arguments of convert() are outside the model (POther = list/dict/set/object()/complex); DateTime and Time are the C09 engine's",
    "String values are entity-free texts (string_unescape v = v): String.convert un-escapes, ET.tostring escapes, so a value that still contains '&amp;' cannot be held "
    "after a second read at converter level (reading adopted in DESIGN.md section 6 C10; lemma String_canonical_needs_entity_free pins the witness '&amp;amp;')",
    "Integer keeps a Python bool as it is and writes it as 1 / 0, which reads back as the int 1 / 0 (equal in Python): Integer_bool_reads_back_as_int",
    "Decimal round trip is exact (sign, coefficient, exponent) on what convert can deliver (finite, exponent <= 0, at most 28 digits when a scale is declared); "
    "decimal_plain_roundtrip is proved for every finite value with exponent <= 0 and any number of digits",
]
MANIFEST = {
    "engine": "Scalars, PyDecimal",
    "text": "Theorems over every parameterisation (length None|n, scale None|n, required or not, any token set, ListElement nesting) and every value: "
            "unconvert-then-convert returns the value on everything convert can deliver; convert-then-unconvert yields a canonical text that reads to the same value and is a "
            "fixed point; None passes through iff optional; length n / 10^n-1 accepted and n+1 / +-10^n rejected (NagString kept whole with one warning); "
            "off-quantum decimals refused on write and quantised on read; wrong Python types refused on write; non-Y/N, non-numeric, non-member texts refused on read; "
            "ListElement delegates; saxutils.unescape inverts escaping for every text. The Gallina model (with the repairs fixes/C10-1, C11-1, C11-2) is tied to Types.py "
            "by evaluating it with vm_compute on the same cases as the implementation and by constants regenerated from the source (Bool.mapping, the entity table).",
    "note": "Trusted: Coq kernel + vm_compute; hand transcriptions Model/PyDecimal.v, Model/Scalars.v (validated by correspondence only); CPython's decimal/int/str; "
            "the translator. Print Assumptions: closed under the global context.",
}

# normalised-AST digests of the anchored code: unpatched /repo and /repo with fixes/C10-1, C11-1, C11-2, C11-3.
# Any other digest switches the run to its deep setting (larger streams), nothing else.
KNOWN_DIGESTS = {
    "Element.enforce_required": {"f98018ac0a50"}, "Bool": {"8c0952b1336a"}, "String": {"386d0938afca"}, "NagString": {"678aacaa7227"},
    "OneOf": {"3bf564b86f84"}, "Integer": {"4e5a30164d9c", "fa85d1e51405"}, "Decimal": {"84dd63cd768c", "c92f942cab8e"},
    "ListElement": {"0da847f219d0"}, "utils.tostring_unclosed_elements": {"7836dac1a843", "41b0e5f24a7e"},
    "DateTime": {"5ad32235b1d2"}, "Time": {"7d21779c68ca"}, "format_datetime": {"8cb9629dc614"},
}
IMPORTS = ["Base.Digits", "Gen.ScalarsGen", "Model.PyDecimal", "Model.Scalars", "Model.ScalarsLex", "Model.ScalarsCases"]
D = decimal.Decimal
_state = {}


def translate():
    _state["gen"] = gen_scalars()
    return _state["gen"]


def is_deep():
    try:
        dg = source_digests()
    except Exception:
        return True
    return any(v not in KNOWN_DIGESTS.get(k, ()) for k, v in dg.items())


def types():
    """ofxtools.Types of the tree under check (never reloaded once the model classes may exist: they hold its instances)"""
    from ..translate_scalars import live_types
    return live_types()


# ------------------------------------------------------------------ element descriptions (JSON-able dicts)
def mk_elem(T, e):
    if "list" in e:
        return T.ListElement(mk_elem(T, e["list"]), required=e.get("required", False))
    t, r = e["type"], e.get("required", False)
    if t == "Bool":
        return T.Bool(required=r)
    if t == "String":
        return (T.String if e.get("strict", True) else T.NagString)(e.get("length"), required=r)
    if t == "OneOf":
        return T.OneOf(*e["valid"], required=r)
    if t == "Integer":
        return T.Integer(e.get("length"), required=r)
    if t == "Decimal":
        return T.Decimal(e.get("scale"), required=r)
    if t == "DateTime":
        return T.DateTime(required=r)
    if t == "Time":
        return T.Time(required=r)
    raise ValueError(e)


def base_elem(e):
    while "list" in e:
        e = e["list"]
    return e


class Enc:
    """Coq encoders; big token sets are named in the shard prelude instead of being repeated per case."""
    def __init__(self):
        self.sets, self.prelude = {}, []

    def valid(self, toks):
        key = tuple(toks)
        if len(key) <= 6:
            return C.clist([C.ctext(t) for t in key])
        if key not in self.sets:
            name = "V%d" % len(self.sets)
            self.sets[key] = name
            self.prelude.append("Definition %s : list text := %s." % (name, C.clist([C.ctext(t) for t in key])))
        return self.sets[key]

    def sty(self, e):
        t = e["type"]
        if t == "Bool":
            return "TBool"
        if t == "String":
            return "(TString %s %s)" % (C.copt(e.get("length"), C.cN), C.cbool(e.get("strict", True)))
        if t == "OneOf":
            return "(TOneOf %s)" % self.valid(e["valid"])
        if t == "Integer":
            return "(TInteger %s)" % C.copt(e.get("length"), C.cN)
        if t == "Decimal":
            return "(TDecimal %s)" % C.copt(e.get("scale"), C.cN)
        raise ValueError(e)

    def elem(self, e):
        if "list" in e:
            return "(ListElem %s %s)" % (self.elem(e["list"]), C.cbool(e.get("required", False)))
        return "(Elem %s %s)" % (self.sty(e), C.cbool(e.get("required", False)))


class Other:
    """stands for the POther values: no converter dispatches on them, int() and Decimal() refuse them"""
    KINDS = {"list": lambda: [], "dict": lambda: {}, "set": lambda: set(), "object": object, "complex": lambda: 1j}

    def __init__(self, kind):
        self.kind = kind

    def make(self):
        return self.KINDS[self.kind]()

    def __repr__(self):
        return "Other(%s)" % self.kind


OTHER_TAG = {k: i for i, k in enumerate(sorted(Other.KINDS))}
AWARE_DT = datetime.datetime(2020, 2, 29, 12, 0, 0, tzinfo=datetime.timezone.utc)
AWARE_TIME = datetime.time(12, 0, 0, tzinfo=datetime.timezone.utc)


def zstr(v):
    """str(v) without tripping the interpreter's int/str digit limit (which the implementation must keep)"""
    if abs(v) < 10 ** 4000:
        return str(v)
    hi, lo = divmod(abs(v), 10 ** 4000)
    return ("-" if v < 0 else "") + zstr(hi) + str(lo).zfill(4000)


def zint(s):
    neg = s.startswith("-")
    ds = s.lstrip("+-")
    v = 0
    for i in range(0, len(ds), 4000):
        chunk = ds[i:i + 4000]
        v = v * 10 ** len(chunk) + int(chunk)
    return -v if neg else v


def cdec(d):
    """decimal.Decimal -> Coq [dec]: integers only (sign, coefficient, exponent)"""
    sign, digits, exp = d.as_tuple()
    n = int("".join(map(str, digits))) if digits else 0
    sg = C.cbool(bool(sign))
    if exp == "F":
        return "(Inf %s)" % sg
    if exp in ("n", "N"):
        return "(NaN %s %s %d)" % (sg, C.cbool(exp == "N"), n)
    return "(Fin %s %d %s)" % (sg, n, C.cZ(exp))


def cval(v):
    if v is None:
        return "PNone"
    if isinstance(v, bool):
        return "(PBool %s)" % C.cbool(v)
    if isinstance(v, int):
        if abs(v) < 10 ** 60:
            return "(PInt %s)" % C.cZ(v)
        chunks, m = [], abs(v)
        while m:
            m, c = divmod(m, 10 ** 18)
            chunks.append("%d" % c)
        return "(PInt (bigZ %s [%s]))" % (C.cbool(v < 0), ";".join(reversed(chunks)))
    if isinstance(v, str):
        return "(PStr %s)" % C.ctext(v)
    if isinstance(v, D):
        return "(PDec %s)" % cdec(v)
    if isinstance(v, datetime.datetime):
        return "(PDT 0)"
    if isinstance(v, datetime.time):
        return "(PTime 0)"
    if isinstance(v, Other):
        return "(POther %d)" % OTHER_TAG[v.kind]
    raise ValueError("value outside the model: %r" % (v,))


def jval(v):
    """value -> JSON-able (for replay files / corpus)"""
    if v is None or isinstance(v, (bool, str)):
        return v
    if isinstance(v, int):
        return {"int": zstr(v)}
    if isinstance(v, D):
        s, dg, e = v.as_tuple()
        return {"dec": [s, "".join(map(str, dg)), e]}
    if isinstance(v, datetime.datetime):
        return {"other": "datetime"}
    if isinstance(v, datetime.time):
        return {"other": "time"}
    if isinstance(v, Other):
        return {"other": v.kind}
    return {"repr": repr(v)}


def unjval(j):
    if j is None or isinstance(j, (bool, str)):
        return j
    if "int" in j:
        return zint(j["int"])
    if "dec" in j:
        s, dg, e = j["dec"]
        return D((s, tuple(int(c) for c in dg), e))
    if j.get("other") == "datetime":
        return AWARE_DT
    if j.get("other") == "time":
        return AWARE_TIME
    if "other" in j:
        return Other(j["other"])
    raise ValueError(j)


def same(a, b):
    """the same Python value: same type family, decimals by (sign, digits, exponent)"""
    if isinstance(a, D) and isinstance(b, D):
        return a.as_tuple() == b.as_tuple()
    if isinstance(a, D) or isinstance(b, D):
        return False
    if isinstance(a, bool) != isinstance(b, bool):
        return False
    return type(a) is type(b) and a == b


def call(T, conv, op, v):
    """run the implementation: ('ok', result, warned) | ('reject'|'crash', exception class name)"""
    if isinstance(v, Other):
        v = v.make()
    try:
        with warnings.catch_warnings(record=True) as w:
            warnings.simplefilter("always")
            r = getattr(conv, op)(v)
        nw = sum(1 for x in w if issubclass(x.category, T.OFXTypeWarning))
        return ("ok", r, nw)
    except (ValueError, TypeError) as e:
        return ("reject", type(e).__name__)
    except Exception as e:
        return ("crash", type(e).__name__)


def cout_conv(out):
    if out[0] == "ok":
        if out[2] > 1:
            return None
        return "(OK (%s,%s))" % (cval(out[1]), C.cbool(out[2] == 1))
    return "(Err Reject)" if out[0] == "reject" else "(Err Crash)"


def cout_unconv(out):
    if out[0] == "ok":
        if out[2] > 1 or not (out[1] is None or isinstance(out[1], str)):
            return None
        return "(OK (%s,%s))" % (C.copt(out[1], C.ctext), C.cbool(out[2] == 1))
    return "(Err Reject)" if out[0] == "reject" else "(Err Crash)"


def jout(out):
    return [out[0], jval(out[1]) if out[0] == "ok" else out[1]] + ([out[2]] if out[0] == "ok" else [])


# ------------------------------------------------------------------ generators
ASCII_WORD = "ABCDEFGHIJKLMNOPQRSTUVWXYZabcdefghijklmnopqrstuvwxyz0123456789 .-_/"
MARKUP = "&<>\"';#"
ENTITIES = ["&amp;", "&lt;", "&gt;", "&nbsp;", "&apos;", "&quot;", "&amp;amp;", "&amp;lt;", "&#38;", "&AMP;", "&amp", "&lt", "&;"]
NONASCII = "éü €中٣\U0001f600\u0085\x1c\x00\x7f"
UNI_DIGITS = ["٠", "١", "٢", "٣", "٩", "１", "０", "०", "९"]
SPACES = [" ", "\t", "\n", "\r", "\x0b", "\x0c", "\x1c", "\x1f", "\x85", "\xa0", " ", "　"]


def rand_string(rng, n):
    """n code points: words, markup characters, entity references, non-ASCII"""
    plain = rng.random() < 0.45
    out = []
    while len(out) < n:
        r = rng.random()
        if plain or r < 0.6:
            out.append(rng.choice(ASCII_WORD))
        elif r < 0.8:
            out.append(rng.choice(MARKUP))
        elif r < 0.9:
            out.append(rng.choice(NONASCII))
        else:
            out.extend(rng.choice(ENTITIES))
    return "".join(out)[:n]


def gen_lengths(rng):
    return rng.choice([None, None, 1, 2, 3, 4, 5, 9, 10, 12, 22, 32, 40, rng.randint(1, 40)])


def string_values(rng, length, k):
    out = ["", "Y", "&", "<", "&amp;", "&lt;b&gt;", "AT&T", "&amp;amp;", "a&nbsp;b", "&apos;&quot;"]
    ns = [0, 1, 2, 7] if length is None else [max(0, length - 1), length, length + 1, length + 2, max(1, length // 2)]
    for _ in range(k):
        n = rng.choice(ns) if rng.random() < 0.8 else rng.randint(0, 45)
        out.append(rand_string(rng, n))
        if length is not None and rng.random() < 0.3:
            # a text whose un-escaped value sits exactly at / just over the limit
            m = rng.randint(0, min(3, length))
            body = rand_string(rng, max(0, length - m + rng.choice([0, 0, 1])))
            out.append(body.replace("&", "x")[: max(0, length - m + 1)] + "".join(rng.choice(["&amp;", "&lt;", "&gt;", "&nbsp;"]) for _ in range(m)))
    return out


def int_values(rng, length, k):
    out = [0, 1, -1, 7, -7, True, False, 10 ** 18, -(10 ** 18)]
    ns = [length] if length is not None else [1, 3, 9, 19]
    for n in ns:
        out += [10 ** n - 1, 10 ** n, -(10 ** n - 1), -(10 ** n), 10 ** n + 1, -(10 ** n) - 1, 10 ** (n - 1) if n else 0, -(10 ** (n - 1)) if n else 0]
    for _ in range(k):
        nd = rng.choice(ns) + rng.choice([-1, 0, 0, 1]) if rng.random() < 0.7 else rng.randint(1, 30)
        nd = max(1, nd)
        v = rng.randrange(10 ** (nd - 1) if nd > 1 else 0, 10 ** nd)
        out.append(v if rng.random() < 0.6 else -v)
    return out


def int_texts(rng, ints, k):
    out = ["", "0", "-0", "+0", "007", "+7", " 7", "7 ", "\t7\n", "1_000", "1__0", "_1", "1_", "+_1", "- 1", "+", "-", "1.0", "1e3", "0x10", "12a", "a", "١٢", "\xa07", "\x1c7", "True", "None",
           "9" * 30, "-" + "9" * 30]
    pool = [x for x in ints if not isinstance(x, bool)]
    for _ in range(k):
        v = rng.choice(pool)
        s = str(v)
        r = rng.random()
        if r < 0.35:
            pass
        elif r < 0.45:
            s = ("+" if v >= 0 else "-") + "0" * rng.randint(0, 3) + str(abs(v))
        elif r < 0.55:
            s = rng.choice(SPACES) * rng.randint(0, 2) + s + rng.choice(SPACES) * rng.randint(0, 2)
        elif r < 0.65 and len(s) > 2:
            i = rng.randrange(1, len(s))
            s = s[:i] + "_" + s[i:]
        elif r < 0.72:
            s = "".join(chr(ord(z) + int(c)) if c.isdigit() else c for c in s for z in [rng.choice(["0", "٠", "０", "०"])])
        else:
            i = rng.randrange(0, len(s) + 1)
            s = s[:i] + rng.choice("xe.,+- _\x00é²") + s[i:]
        out.append(s)
    return out


def dec_values(rng, scale, k):
    """finite and special decimal values, boundary-biased; exponents stay small enough to print"""
    out = [D("0"), D("-0"), D("0.00"), D("-0.00"), D("0E+2"), D("-0E+3"), D("1"), D("-1"), D("1E+2"), D("-12E+3"), D("1E-7"), D("-1.5E-9"), D("150.65"), D("-.5"),
           D("NaN"), D("-NaN"), D("sNaN"), D("NaN123"), D("Infinity"), D("-Infinity"), D("1E+27"), D("1E+28"), D("12E+27"), D("9" * 28), D("9" * 29), D("9" * 28 + ".5"),
           D("9" * 27 + ".5"), D("1." + "1" * 40), D("0." + "0" * 30 + "1"), D("1E+30"), D("1E-30")]
    exps = [0, -1, -2, -3, -4, -8, 1, 2, 5]
    if scale is not None:
        q = max(scale, 1)
        exps += [-q, -q, -q, -q - 1, -q + 1, -q - 2]
        out += [D((0, (5,), -q - 1)), D((0, (1, 5), -q - 1)), D((0, (2, 5), -q - 1)), D((1, (2, 5, 0), -q - 2)), D((0, (2, 5, 0, 1), -q - 3)), D((0, (4, 9, 9), -q - 3)),
                D((0, tuple([9] * 28), -q)), D((0, tuple([9] * 29), -q)), D((0, tuple([9] * 28) + (5,), -q - 1)), D((0, tuple([9] * 27) + (5,), -q - 1)),
                D((0, tuple([9] * 27) + (4, 9), -q - 2))]
    for _ in range(k):
        nd = rng.choice([1, 1, 2, 3, 5, 8, 12, 27, 28, 29, 35])
        digits = [rng.randrange(10) for _ in range(nd)]
        if rng.random() < 0.9 and nd > 1:
            digits[0] = rng.randrange(1, 10)
        if rng.random() < 0.3:
            t = rng.choice([[5], [5, 0], [5, 0, 0], [4, 9], [5, 1], [0, 0]])
            digits = (digits + t)[-max(nd, len(t)):] if nd > len(t) else digits
        e = rng.choice(exps) if rng.random() < 0.75 else rng.randint(-40, 40)
        out.append(D((rng.randrange(2), tuple(digits), e)))
    return out


def dec_texts(rng, decs, k):
    out = ["", " ", "0", "-0", "+0", ".5", "5.", ".", "-.5", "1,5", ",5", "5,", "1,5,5", "1.5,5", "1,5.5", "1e2", "1E+2", "1e-7", "1e", "e5", "1e+", "--1", "+-1", "1 2",
           "NaN", "nan", "-NaN", "sNaN", "NaN12", "nan_1", "Infinity", "-inf", "INF", "i_n_f", "Infinit", "1_000.5_0", "_1", "1_", "_", " 1.5\n", "\x1c1.5\x1f", "\xa01",
           "٣.٥", "٣,٥", "1.5x", "x", "$1.50", "1.5%", "0x1p3", "True", "\x005", "1e999999999999999999", "1e1000000000000000000",
           "1e-1999999999999999997", "1e-1999999999999999998", "0e999999999999999999", "0e1000000000000000000", "10e999999999999999999",
           "0.00000000001e1000000000000000005", "123e4567890123456789", "0.1e-1999999999999999997", "1e28", "1e27", "12e27", "1e29", "9" * 28, "9" * 29,
           "9" * 28 + ".5", "9" * 27 + ".5", "0.5", "1.5", "2.5", "0.05", "0.15", "0.25", "0.35", "0.45", "0.050", "0.0501", "0.0499", "-0.05", "-0.15", "1.005", "1.015",
           "1.025", "0.004", "0.005", "0.006", "0.0050000000000000000000000000000000001"]
    pool = [d for d in decs if d.is_finite()]
    for _ in range(k):
        d = rng.choice(pool)
        r = rng.random()
        if r < 0.35:
            s = format(d, "f") if abs(d.as_tuple().exponent) < 60 else str(d)
        elif r < 0.5:
            s = str(d)
        elif r < 0.6:
            s = format(d, "f").replace(".", ",") if abs(d.as_tuple().exponent) < 60 else str(d)
        elif r < 0.7:
            sg, dg, e = d.as_tuple()
            s = ("-" if sg else rng.choice(["", "+"])) + "".join(map(str, dg)) + rng.choice("eE") + rng.choice(["", "+"] if e >= 0 else [""]) + str(e)
        elif r < 0.78:
            s = rng.choice(SPACES) * rng.randint(0, 2) + str(d) + rng.choice(SPACES) * rng.randint(0, 2)
        elif r < 0.84:
            s = str(d)
            i = rng.randrange(0, len(s) + 1)
            s = s[:i] + "_" + s[i:]
        elif r < 0.88:
            s = "".join(chr(ord(rng.choice(["0", "٠", "０"])) + int(c)) if c.isdigit() else c for c in format(d, "f")) if abs(d.as_tuple().exponent) < 60 else str(d)
        else:
            s = str(d)
            i = rng.randrange(0, len(s) + 1)
            s = s[:i] + rng.choice("xe.,+- E\x00é²n") + s[i:]
        out.append(s)
    return out


def collect_token_sets(T, rng):
    """token sets from the live model classes plus a few synthetic ones"""
    sets = []
    try:
        import ofxtools.models  # noqa: F401
        from ofxtools.models.base import Aggregate
        seen, stack = set(), [Aggregate]
        while stack:
            c = stack.pop()
            for s in c.__subclasses__():
                if s not in seen:
                    seen.add(s); stack.append(s)
        found = set()
        for c in sorted(seen, key=lambda c: c.__name__):
            for v in c.__dict__.values():
                conv = v.converter if isinstance(v, T.ListElement) else v
                if isinstance(conv, T.OneOf) and all(isinstance(x, str) for x in conv.valid):
                    found.add(tuple(conv.valid))
        sets = sorted(found, key=lambda s: (len(s), s))
    except Exception:
        sets = []
    small = [s for s in sets if len(s) <= 17]
    big = [s for s in sets if len(s) > 17]
    chosen = small[:: max(1, len(small) // 12)][:12] + big[:3]
    chosen += [("CALL", "PUT"), ("A",), ("Y", "N", ""), ("a", "A", "AA"), ()]
    return [list(s) for s in chosen]


def oneof_texts(rng, valid, k):
    out = ["", "x", "CALL ", " CALL", "call"]
    for _ in range(k):
        if valid and rng.random() < 0.6:
            t = rng.choice(valid)
            r = rng.random()
            out.append(t if r < 0.6 else t.lower() if r < 0.7 else t + rng.choice(" X") if r < 0.8 else t[:-1] if r < 0.9 else " " + t)
        else:
            out.append(rand_string(rng, rng.randint(0, 5)))
    return out


WRONG = lambda: [None, True, False, 0, 1, -5, 10 ** 30, "", "Y", "N", "abc", "12", "1.5", D("1.5"), D("12"), D("-0.00"), D("1E+2"), D("NaN"), D("Infinity"),
                 AWARE_DT, AWARE_TIME] + [Other(k) for k in sorted(Other.KINDS)]


def build_cases(T, rng, n_scale):
    """-> list of (elem_desc, op, value): the structured (mostly valid) stream, the malformed stream and the wrong-type stream"""
    cases = []
    K = n_scale

    def both(e, vals, ops=("convert", "unconvert")):
        for v in vals:
            for op in ops:
                cases.append((e, op, v))
    token_sets = collect_token_sets(T, rng)
    # every type x every value kind (wrong-type stream), both directions, both required flags
    reps = [{"type": "Bool"}, {"type": "String", "length": 3}, {"type": "String"}, {"type": "String", "length": 3, "strict": False},
            {"type": "OneOf", "valid": ["Y", "N", "12", "abc"]}, {"type": "Integer"}, {"type": "Integer", "length": 1}, {"type": "Integer", "length": 3},
            {"type": "Decimal"}, {"type": "Decimal", "scale": 2}, {"type": "Decimal", "scale": 0}]
    for e0 in reps:
        for req in (False, True):
            e = dict(e0, required=req)
            both(e, WRONG())
            both({"list": e, "required": not req}, WRONG()[:8])
    for _ in range(3 * K):
        req = rng.random() < 0.3
        # Bool
        both({"type": "Bool", "required": req}, [rng.choice([True, False, "Y", "N", "y", "n", "", "T", "1", "YES", " Y", "Y ", "true", "Ｙ", None])])
        # String / NagString
        ln = gen_lengths(rng)
        e = {"type": "String", "length": ln, "strict": rng.random() < 0.7, "required": req}
        both(e, string_values(rng, ln, 3))
        # OneOf
        vs = rng.choice(token_sets)
        e = {"type": "OneOf", "valid": vs, "required": req}
        both(e, oneof_texts(rng, vs, 3 if len(vs) < 50 else 1))
    for _ in range(K):
        req = rng.random() < 0.3
        ln = rng.choice([None, 1, 2, 3, 4, 5, 6, 9, 10, 18, rng.randint(1, 30)])
        e = {"type": "Integer", "length": ln, "required": req}
        iv = int_values(rng, ln, 6)
        both(e, iv)
        both(e, int_texts(rng, iv, 12), ops=("convert",))
        both(e, [D(rng.randrange(-2000, 2000)) / rng.choice([1, 2, 4, 8, 10]) for _ in range(2)] + [D("1E+3"), D("999.9"), D("-999.9"), D("NaN"), D("Infinity")], ops=("convert",))
        sc = rng.choice([None, None, None, 0, 1, 2, 2, 3, 4, 5, 8])
        e = {"type": "Decimal", "scale": sc, "required": req}
        dv = dec_values(rng, sc, 14)
        both(e, dv)
        both(e, dec_texts(rng, dv, 14), ops=("convert",))
        both(e, [rng.choice([0, 1, -1, 5, 10 ** 27, 10 ** 28, -(10 ** 28) + 1, rng.randrange(-10 ** 6, 10 ** 6), True, False])], ops=("convert",))
    # ListElement delegation, nested
    for _ in range(K):
        inner = rng.choice([{"type": "String", "length": 5, "required": rng.random() < 0.5}, {"type": "Integer", "length": 4, "required": rng.random() < 0.5},
                            {"type": "OneOf", "valid": ["A", "B"], "required": rng.random() < 0.5}, {"type": "Decimal", "scale": 2}, {"type": "Bool", "required": True}])
        e = {"list": inner, "required": rng.random() < 0.5}
        if rng.random() < 0.2:
            e = {"list": e, "required": rng.random() < 0.5}
        both(e, [None, "", "A", "abcde", "abcdef", "9999", "10000", -9999, 12345, D("1.005"), D("1.00"), True, "Y", "1,5"][rng.randrange(4):][:6])
    return cases


def load_corpus(prop):
    out = []
    for p in sorted(glob.glob(os.path.join(C.VERIF, "corpus", prop, "*.json"))):
        obj = json.load(open(p))
        for c in obj.get("cases", []):
            out.append((c["elem"], c["op"], unjval(c["value"])))
    return out


def case_key(e, op, v):
    return (json.dumps(e, sort_keys=True), op, repr(jval(v)))


def run_impl(T, cases, rep, prop_tag):
    """run every distinct case on the implementation; -> list of (elem, op, value, outcome)"""
    seen, done, convs = set(), [], {}
    for (e, op, v) in cases:
        k = case_key(e, op, v)
        if k in seen:
            continue
        seen.add(k)
        ek = k[0]
        if ek not in convs:
            convs[ek] = mk_elem(T, e)
        out = call(T, convs[ek], op, v)
        done.append((e, op, v, out))
        b = base_elem(e)
        rep.count(k, nontrivial=(out[0] == "ok" and out[1] is not None),
                  kind="%s%s.%s:%s" % ("List:" if "list" in e else "", b["type"] if b.get("strict", True) else "NagString", op, out[0] if out[0] != "ok" else ("ok" if out[1] is not None else "None")))
    return done, convs


def coq_items(done, enc):
    items, kept = [], []
    for (e, op, v, out) in done:
        try:
            co = (cout_conv if op == "convert" else cout_unconv)(out)
            cv = cval(v)
        except ValueError:
            co = None
        if co is None:
            # outcome not expressible in the model (e.g. two warnings, a non-str text): a disagreement by construction
            items.append("SWireOk [] false"); kept.append((e, op, v, out))
            continue
        items.append("%s %s %s %s" % ("SConv" if op == "convert" else "SUnconv", enc.elem(e), cv, co))
        kept.append((e, op, v, out))
    return items, kept


# ------------------------------------------------------------------ the property predicate on the implementation (independent oracle)
def half_even_quantize(d, q):
    """reference rounding with integers only: (sign, coefficient) of d at exponent -q, ROUND_HALF_EVEN"""
    sign, digits, e = d.as_tuple()
    c = int("".join(map(str, digits)))
    fr = fractions.Fraction(c) * fractions.Fraction(10) ** (e + q)
    fl = fr.numerator // fr.denominator
    rem = fr - fl
    if rem > fractions.Fraction(1, 2) or (rem == fractions.Fraction(1, 2) and fl % 2 == 1):
        fl += 1
    return sign, fl


INT_RE = re.compile(r"^\s*[+-]?\d+(_\d+)*\s*$")
NUMERIC_CHARS = re.compile(r"^[\s\d+\-.,eE_]*$")


def type_ok_for_write(b, v):
    t = b["type"]
    if v is None:
        return True
    if t == "Bool":
        return isinstance(v, bool)
    if t in ("String", "OneOf"):
        return isinstance(v, str)
    if t == "Integer":
        return isinstance(v, int)
    if t == "Decimal":
        return isinstance(v, D)
    return True


REF_ENTITIES = [("&lt;", "<"), ("&gt;", ">"), ("&nbsp;", " "), ("&apos;", "'"), ("&quot;", '"'), ("&amp;", "&")]


def ref_unescape(s):
    """what an escaped text denotes (OFX section 2.3.2.1 + the three extra entities the library documents), '&amp;' last"""
    for k, v in REF_ENTITIES:
        s = s.replace(k, v)
    return s


def entity_free(T, s):
    return ref_unescape(s) == s


def predicate(T, done, convs, fails):
    """C10's clauses evaluated on the implementation's own answers; appends Failure objects"""
    def fail(key, what, e, op, v, **kw):
        fails.append(C.Failure(key, what, dict(elem=e, op=op, value=jval(v), **kw)))

    # --- String.convert un-escapes exactly what the serializers escape (theorem unescape_escape), for every string value
    from xml.sax import saxutils
    import xml.etree.ElementTree as ET
    for (e, op, v, out) in done:
        if isinstance(v, str) and v != "" and base_elem(e)["type"] == "String" and op == "unconvert" and out[0] == "ok" and isinstance(out[1], str):
            conv = convs[case_key(e, op, v)[0]]
            for esc_name, esc in (("saxutils.escape", saxutils.escape), ("ET._escape_cdata", ET._escape_cdata)):
                back = call(T, conv, "convert", esc(v))
                if back[0] != "ok" or back[1] != v or back[2] != out[2]:
                    fail("String.convert:unescape-not-inverse-of-escape", "%s: %r is written (%d warning), escaped on the wire as %r, and read back as %r"
                         % (json.dumps(base_elem(e)), v, out[2], esc(v), back), e, "convert", esc(v), observed=jout(back), expected=v)
    for (e, op, v, out) in done:
        b = base_elem(e)
        t, req = b["type"], b.get("required", False)
        conv = convs[case_key(e, op, v)[0]]
        nm = t if b.get("strict", True) else "NagString"
        desc = "%s(%s)" % (nm, ", ".join("%s=%r" % (k, b[k]) for k in ("length", "scale", "required") if b.get(k) is not None) + (", %d tokens" % len(b["valid"]) if t == "OneOf" else ""))
        # --- None passes through iff optional
        if v is None:
            want_err = req
            if (out[0] != "ok") != want_err or (out[0] == "ok" and out[1] is not None):
                fail("%s.%s:None-passthrough" % (nm, op), "%s.%s(None) -> %r with required=%r" % (desc, op, out, req), e, op, v, observed=jout(out))
            continue
        # --- ListElement delegates
        if "list" in e:
            inner = call(T, mk_elem(T, b), op, v)
            if inner[0] != out[0] or (inner[0] == "ok" and not (inner[1] is None and out[1] is None) and not (same(inner[1], out[1]) and inner[2] == out[2])):
                fail("ListElement.%s:not-delegating" % op, "ListElement(%s).%s(%r) -> %r but the converter alone gives %r" % (desc, op, v, out, inner), e, op, v, observed=jout(out))
        if op == "unconvert":
            # --- wrong Python type refused on write
            if not type_ok_for_write(b, v):
                if out[0] == "ok":
                    fail("%s.unconvert:wrong-type-accepted" % nm, "%s.unconvert(%r) -> %r: a %s is not a value of the type" % (desc, v, out[1], type(v).__name__), e, op, v, observed=jout(out))
                continue
            # --- limits on write
            if t == "String" and b.get("length") is not None:
                over = len(v) > b["length"]
                if b.get("strict", True):
                    if (out[0] == "ok") == over:
                        fail("String.unconvert:length-limit", "%s.unconvert(len %d) -> %r" % (desc, len(v), out[0]), e, op, v, observed=jout(out))
                elif out[0] != "ok" or out[1] != v or out[2] != (1 if over else 0):
                    fail("NagString.unconvert:warn-and-keep", "%s.unconvert(len %d) -> %r" % (desc, len(v), out), e, op, v, observed=jout(out))
            if t == "OneOf" and (out[0] == "ok") != (v in b["valid"]):
                fail("OneOf.unconvert:membership", "%s.unconvert(%r) -> %r, tokens %r" % (desc, v, out, b["valid"][:8]), e, op, v, observed=jout(out))
            if t == "Integer" and b.get("length") is not None:
                over = abs(int(v)) >= 10 ** b["length"]
                if (out[0] == "ok") == over:
                    key = "Integer.enforce_length:negative-unbounded" if (over and v < 0) else "Integer.unconvert:length-limit"
                    fail(key, "%s.unconvert(%r) -> %r: %d digits allowed" % (desc, v, out, b["length"]), e, op, v, observed=jout(out))
            if t == "Decimal" and b.get("scale") is not None and v.is_finite():
                onq = v.as_tuple().exponent == -max(b["scale"], 1)
                if (out[0] == "ok") != onq:
                    fail("Decimal.unconvert:quantum", "%s.unconvert(%r) -> %r: exponent %r vs scale" % (desc, v, out, v.as_tuple().exponent), e, op, v, observed=jout(out))
            # --- round trip on the domain (what convert delivers unchanged)
            if isinstance(v, D) and v.is_finite() and abs(v.as_tuple().exponent) > 5000:
                continue
            held = call(T, conv, "convert", v)
            in_dom = held[0] == "ok" and held[1] is not None and same(held[1], v)
            if in_dom and not (t == "String" and not entity_free(T, v)):
                if out[0] != "ok" or not isinstance(out[1], str):
                    fail("Decimal.convert:non-finite-value-accepted" if (t == "Decimal" and not v.is_finite()) else "%s.unconvert:domain-value-refused" % nm, "%s holds %r but unconvert -> %r" % (desc, v, out), e, op, v, observed=jout(out))
                else:
                    back = call(T, conv, "convert", out[1])
                    okb = back[0] == "ok" and (same(back[1], v) or (t == "Integer" and isinstance(v, bool) and back[1] == v and type(back[1]) is int))
                    if not okb:
                        key = "Integer.unconvert:bool-written-as-True" if (t == "Integer" and isinstance(v, bool)) else "%s:write-read-roundtrip" % nm
                        fail(key, "%s: %r written as %r reads back as %r" % (desc, v, out[1], back), e, op, v, observed=jout(back))
            continue
        # ------------- op == convert
        if isinstance(v, str):
            s = v
            # --- bad text refused on read
            bad = None
            if t == "Bool":
                bad = s not in ("Y", "N")
            elif t == "OneOf":
                bad = None if s == "" else s not in b["valid"]      # "" is the None route
            elif t == "Integer":
                bad = (s != "" and not INT_RE.match(s)) or None
                if s != "" and INT_RE.match(s) and not any(c in s for c in "\x1c\x1d\x1e\x1f"):
                    bad = False
            elif t == "Decimal":
                low = re.sub(r"[\s_]", "", s).lower().lstrip("+-")
                if not NUMERIC_CHARS.match(s) or not any(c.isdigit() for c in s):
                    bad = True
                    if low in ("inf", "infinity") or re.match(r"^s?nan\d*$", low):
                        bad = "nonfinite"
            if t == "String" and s != "":
                u = ref_unescape(s)                       # the value the text denotes
                if u != "":
                    over = b.get("length") is not None and len(u) > b["length"]
                    strict = b.get("strict", True)
                    want = ("reject",) if (over and strict) else ("ok", u, 1 if over else 0)
                    got = (out[0],) if out[0] != "ok" else out
                    if (want[0] == "ok") != (got[0] == "ok") or (want[0] == "ok" and want != got):
                        key = ("%s.convert:length-limit" % nm) if strict else "NagString.convert:warn-and-keep"
                        fail(key, "%s.convert(%r) -> %r: the text denotes %r (%d characters), expected %r" % (desc, s, out, u, len(u), want), e, op, v, observed=jout(out))
            if bad and out[0] == "ok":
                key = "Decimal.convert:non-finite-text-accepted" if bad == "nonfinite" else "%s.convert:bad-text-accepted" % nm
                fail(key, "%s.convert(%r) -> %r: the text does not denote a value of the type" % (desc, s, out[1]), e, op, v, observed=jout(out))
                continue
            if bad is False and out[0] != "ok" and t in ("Bool", "OneOf"):
                fail("%s.convert:good-text-refused" % nm, "%s.convert(%r) -> %r" % (desc, s, out), e, op, v, observed=jout(out))
            if t == "Integer" and bad is False:
                z = int(s)
                if b.get("length") is None:
                    over = False
                else:
                    over = abs(z) >= 10 ** b["length"]
                if (out[0] == "ok") == over or (out[0] == "ok" and not same(out[1], z)):
                    key = "Integer.enforce_length:negative-unbounded" if (over and z < 0 and out[0] == "ok") else "Integer.convert:length-limit"
                    fail(key, "%s.convert(%r) -> %r: %s digits allowed" % (desc, s, out, b.get("length")), e, op, v, observed=jout(out))
            if t == "Decimal" and out[0] == "ok" and out[1] is not None and b.get("scale") is not None and out[1].is_finite():
                q = max(b["scale"], 1)
                try:
                    src = D(s)
                except decimal.InvalidOperation:
                    try:
                        src = D(s.replace(",", "."))
                    except decimal.InvalidOperation:
                        fail("Decimal.convert:bad-text-accepted", "%s.convert(%r) -> %r: neither the text nor its comma-as-point reading is a decimal numeral" % (desc, s, out[1]), e, op, v, observed=jout(out))
                        continue
                got = out[1].as_tuple()
                sg, coeff = half_even_quantize(src, q) if abs(src.as_tuple().exponent) < 5000 else (src.as_tuple().sign, 0)
                if got.exponent != -q or int("".join(map(str, got.digits))) != coeff or got.sign != sg:
                    fail("Decimal.convert:not-quantised", "%s.convert(%r) -> %r: expected coefficient %d at exponent %d (half-even)" % (desc, s, out[1], coeff, -q), e, op, v, observed=jout(out))
            # --- canonical text: reads to the same value and is a fixed point
            if out[0] == "ok" and out[1] is not None:
                val = out[1]
                if t == "String" and not entity_free(T, val):
                    continue
                if isinstance(val, D) and val.is_finite() and abs(val.as_tuple().exponent) > 5000:
                    continue        # plain notation would need more characters than can be written; not exercised
                c1 = call(T, conv, "unconvert", val)
                if c1[0] != "ok" or not isinstance(c1[1], str):
                    fail("%s:accepted-text-not-writable" % nm, "%s.convert(%r) -> %r but unconvert -> %r" % (desc, s, val, c1), e, op, v, observed=jout(c1))
                    continue
                v2 = call(T, conv, "convert", c1[1])
                if v2[0] != "ok" or not same(v2[1], val):
                    fail("%s:canonical-text-reads-differently" % nm, "%s: %r reads %r, written %r, read again %r" % (desc, s, val, c1[1], v2), e, op, v, observed=jout(v2))
                    continue
                c2 = call(T, conv, "unconvert", v2[1])
                if c2[0] != "ok" or c2[1] != c1[1]:
                    fail("%s:canonical-text-not-fixed-point" % nm, "%s: canonical %r rewritten as %r" % (desc, c1[1], c2), e, op, v, observed=jout(c2))
        elif t == "Integer" and isinstance(v, int) and b.get("length") is not None:
            over = abs(int(v)) >= 10 ** b["length"]
            if (out[0] == "ok") == over:
                key = "Integer.enforce_length:negative-unbounded" if (over and v < 0) else "Integer.convert:length-limit"
                fail(key, "%s.convert(%r) -> %r: %d digits allowed" % (desc, v, out, b["length"]), e, op, v, observed=jout(out))


_DAY = 86400 * 10 ** 6
_EPOCH = datetime.datetime(1, 1, 1, tzinfo=datetime.timezone.utc)


def _td_us(td):
    return (td.days * 86400 + td.seconds) * 10 ** 6 + td.microseconds


def dt_instant(v):                  # microseconds since 0001-01-01T00:00 UTC
    return _td_us(v - _EPOCH)


def dt_tod(t):                      # UTC time of day in microseconds
    return ((t.hour * 3600 + t.minute * 60 + t.second) * 10 ** 6 + t.microsecond - _td_us(t.utcoffset())) % _DAY


def dt_chain(T, nm, conv, v, fail, rep=None):
    """write v, read it back (to half a millisecond), write the value read (canonical text), read again, write again (fixed point)"""
    timeonly = isinstance(v, datetime.time)
    measure = dt_tod if timeonly else dt_instant
    w = call(T, conv, "unconvert", v)
    if rep is not None:
        rep.count((nm, repr(v)), nontrivial=(w[0] == "ok"), kind="%s.unconvert:%s" % (nm, w[0]))
    if w[0] != "ok" or not isinstance(w[1], str):
        fail("%s.unconvert:domain-value-refused" % nm, "%s.unconvert(%r) -> %r" % (nm, v, w), type=nm, value=repr(v))
        return
    r1 = call(T, conv, "convert", w[1])
    d = None
    if r1[0] == "ok" and r1[1] is not None:
        d = abs(measure(r1[1]) - measure(v))
        if timeonly:
            d = min(d, _DAY - d)
    if d is None or d > 500:
        fail("%s:write-read-roundtrip" % nm, "%s: %r (utcoffset %s) written as %r reads back as %r" % (nm, v, v.utcoffset(), w[1], r1), type=nm, value=repr(v), text=w[1])
        return
    c = call(T, conv, "unconvert", r1[1])
    r2 = call(T, conv, "convert", c[1]) if c[0] == "ok" else ("none",)
    if r2[0] != "ok" or r2[1] != r1[1]:
        fail("%s:canonical-text-reads-differently" % nm, "%s: %r reads %r, written %r, read again %r" % (nm, w[1], r1[1], c, r2), type=nm, value=repr(v), text=w[1])
        return
    c2 = call(T, conv, "unconvert", r2[1])
    if c2[0] != "ok" or c2[1] != c[1]:
        fail("%s:canonical-text-not-fixed-point" % nm, "%s: canonical %r rewritten as %r" % (nm, c[1], c2), type=nm, value=repr(v), text=c[1])


def dt_conv(T, nm):
    return {"DateTime": lambda: T.DateTime(), "Time": lambda: T.Time(), "ListElement(DateTime)": lambda: T.ListElement(T.DateTime(required=True)),
            "ListElement(Time)": lambda: T.ListElement(T.Time())}[nm]()


def datetime_clauses(T, rng, rep, fails, n):
    """C10's clauses for DateTime / Time on the implementation (the model and the theorems for these two types are the C09 engine's:
    dt_roundtrip_half_ms, tm_roundtrip_half_ms, dt_unconvert_shape, dt_convert_denotes, dt_naive_refused)."""
    def fail(key, what, **kw):
        fails.append(C.Failure(key, what, dict(kind="datetime", **kw)))

    def chain(nm, conv, v, measure=None, modulo=None):
        dt_chain(T, nm, conv, v, fail, rep)

    inst, tod = dt_instant, dt_tod
    dtc, tmc = T.DateTime(), T.Time()
    ldtc, ltmc = T.ListElement(T.DateTime(required=True)), T.ListElement(T.Time())      # the repeated-element wrappers
    for k in range(n):
        off = rng.choice([0, 60, -60, 330, -210, -570, 345, 840, -720, -15, -30, -45, -1, -59, 15, 30, 45, rng.randrange(-720, 841)])   # the zones the reader admits: -12:00..+14:00
        name = rng.choice([None, None, "UTC", "EST", "CET"])
        tz = datetime.timezone(datetime.timedelta(minutes=off), name) if name else datetime.timezone(datetime.timedelta(minutes=off))
        usec = rng.choice([0, 499, 500, 501, 999499, 999500, 999999, rng.randrange(10 ** 6)])
        y = rng.choice([1000, 1900, 1999, 2000, 2024, 2200, 9998, rng.randrange(1000, 9999)])
        hh, mi, ss = rng.choice([(0, 0, 0), (23, 59, 59), (rng.randrange(24), rng.randrange(60), rng.randrange(60))])
        v = datetime.datetime(y, rng.randrange(1, 13), rng.randrange(1, 29), hh, mi, ss, usec, tzinfo=tz)
        chain("DateTime", dtc, v, inst, False)
        chain("Time", tmc, v.timetz(), tod, True)
        if k % 4 == 0:
            chain("ListElement(DateTime)", ldtc, v, inst, False)
            chain("ListElement(Time)", ltmc, v.timetz(), tod, True)
    # texts in the other accepted notations: read, written canonically, read again
    for _ in range(n // 2):
        y, mo, dd = rng.randrange(1000, 9999), rng.randrange(1, 13), rng.randrange(1, 29)
        hh, mi, ss, ms = rng.randrange(24), rng.randrange(60), rng.randrange(60), rng.randrange(1000)
        offh = rng.randrange(-12, 15)
        tail = rng.choice(["", ".%03d" % ms, ".%03d[%d]" % (ms, offh), ".%03d[%+d:XYZ]" % (ms, offh), "[%d]" % offh, ".%03d[%+d.30]" % (ms, offh), ".%03d[-0.30:X]" % ms])
        for nm, conv, text in (("DateTime", dtc, "%04d%02d%02d%s" % (y, mo, dd, rng.choice(["", "%02d%02d%02d%s" % (hh, mi, ss, tail)]))),
                               ("Time", tmc, "%02d%02d%02d%s" % (hh, mi, ss, tail))):
            r1 = call(T, conv, "convert", text)
            rep.count((nm, text), nontrivial=(r1[0] == "ok"), kind="%s.convert:%s" % (nm, r1[0]))
            if r1[0] != "ok":
                fail("%s.convert:good-text-refused" % nm, "%s.convert(%r) -> %r" % (nm, text, r1), type=nm, text=text)
                continue
            c = call(T, conv, "unconvert", r1[1])
            r2 = call(T, conv, "convert", c[1]) if c[0] == "ok" else ("none",)
            if r2[0] != "ok" or r2[1] != r1[1]:
                fail("%s:canonical-text-reads-differently" % nm, "%s: %r reads %r, written %r, read again %r" % (nm, text, r1[1], c, r2), type=nm, text=text)
    # one ASCII digit of a valid text replaced by the same-valued decimal digit of another script: such a text is not in the OFX notation
    # and must be refused (every digit position except the offset-minutes field, whose pattern is \\d\\d on the unchanged tree: C09's PARTIAL)
    SCRIPT_ZEROS = [0xFF10, 0x0660, 0x06F0, 0x0966, 0x0E50, 0x1D7CE]
    probes = [("DateTime", dtc), ("Time", tmc), ("ListElement(DateTime)", ldtc), ("ListElement(Time)", ltmc)]
    for k in range(max(6, n // 40)):
        y, mo, dd = rng.randrange(1000, 9999), rng.randrange(1, 13), rng.randrange(1, 29)
        hh, mi, ss, ms = rng.randrange(24), rng.randrange(60), rng.randrange(60), rng.randrange(1000)
        offh = rng.randrange(-12, 15)
        tails = ["", ".%03d" % ms, ".%03d[%d]" % (ms, offh), ".%03d[%+d:EST]" % (ms, offh), "[%d]" % offh, ".%03d[%+d.30]" % (ms, offh)]
        hms = "%02d%02d%02d" % (hh, mi, ss)
        texts = {"DateTime": ["%04d%02d%02d" % (y, mo, dd)] + ["%04d%02d%02d%s%s" % (y, mo, dd, hms, tl) for tl in tails], "Time": [hms + tl for tl in tails]}
        for nm, conv in probes:
            base = "Time" if "Time" in nm and "Date" not in nm else "DateTime"
            for text in texts[base]:
                if call(T, conv, "convert", text)[0] != "ok":
                    continue
                lb = text.find("[")
                stop = len(text) if lb < 0 else min([i for i in (text.find(".", lb), text.find(":", lb), text.find("]", lb)) if i >= 0])
                for i in range(stop):
                    if not ("0" <= text[i] <= "9"):
                        continue
                    for z in (SCRIPT_ZEROS if nm in ("DateTime", "Time") else [rng.choice(SCRIPT_ZEROS)]):
                        bt = text[:i] + chr(z + int(text[i])) + text[i + 1:]
                        o = call(T, conv, "convert", bt)
                        rep.count((nm, "convert", bt), nontrivial=False, kind="%s.convert:non-ascii-digit" % nm)
                        if o[0] == "ok":
                            fail("%s.convert:non-ascii-digit-accepted" % nm, "%s.convert(%r) -> %r: U+%04X at position %d is not an ASCII digit; the text is not in the OFX notation"
                                 % (nm, bt, o[1], ord(bt[i]), i), type=base, text=bt)
    # wrong Python types, both directions, also through ListElement, on fresh instances and on instances that have already read a text
    # (handlers are registered at run time by normalize_to_gmt; a dispatcher shared between DateTime and Time would show here)
    utc = datetime.timezone.utc
    adt, atm = datetime.datetime(2020, 1, 2, 3, 4, 5, tzinfo=utc), datetime.time(1, 2, 3, tzinfo=utc)
    wrong = {"naive datetime": adt.replace(tzinfo=None), "naive time": atm.replace(tzinfo=None), "date": datetime.date(2020, 1, 2), "int": 20200102, "float": 1.5,
             "bool": True, "Decimal": D("1"), "list": [], "timedelta": datetime.timedelta(hours=1), "tuple": (2020, 1, 2)}
    matrix = [("DateTime", lambda: T.DateTime(), dict(wrong, **{"aware time": atm}), "20200102030405"),
              ("Time", lambda: T.Time(), dict(wrong, **{"aware datetime": adt}), "030405"),
              ("ListElement(DateTime)", lambda: T.ListElement(T.DateTime()), dict(wrong, **{"aware time": atm}), "20200102030405"),
              ("ListElement(Time)", lambda: T.ListElement(T.Time(required=True)), dict(wrong, **{"aware datetime": adt}), "030405")]
    for nm, mk, vals, good_text in matrix:
        for used in (False, True):
            conv = mk()
            if used:
                call(T, conv, "convert", good_text)
            for label, wv in vals.items():
                for op in ("convert", "unconvert"):
                    o = call(T, conv, op, wv)
                    rep.count((nm, op, label, used), nontrivial=False, kind="%s.%s:wrong-type" % (nm, op))
                    if o[0] == "ok":
                        fail("%s.%s:wrong-type-accepted" % (nm, op), "%s.%s(%r) -> %r: a %s is not a value of the type and must be refused" % (nm, op, wv, o[1], label),
                             type=nm, op=op, value=repr(wv), label=label)
            for label, wv in (("str", "garbage"), ("str", good_text)):
                o = call(T, conv, "unconvert", wv)
                rep.count((nm, "unconvert", wv, used), nontrivial=False, kind="%s.unconvert:wrong-type" % nm)
                if o[0] == "ok":
                    fail("%s.unconvert:wrong-type-accepted" % nm, "%s.unconvert(%r) -> %r: a str is not a value of the type" % (nm, wv, o[1]), type=nm, op="unconvert", value=repr(wv), label="str")
    # None, bad texts on read
    naive = datetime.datetime(2020, 1, 1, 12, 0, 0)
    for nm, cls in (("DateTime", T.DateTime), ("Time", T.Time)):
        for req in (False, True):
            conv = cls(required=req)
            for op in ("convert", "unconvert"):
                o = call(T, conv, op, None)
                rep.count((nm, op, None, req), nontrivial=False, kind="%s.%s:None" % (nm, op))
                if (o[0] != "ok") != req or (o[0] == "ok" and o[1] is not None):
                    fail("%s.%s:None-passthrough" % (nm, op), "%s(required=%r).%s(None) -> %r" % (nm, req, op, o), type=nm)
            nv = naive if nm == "DateTime" else naive.time()
            o = call(T, conv, "convert", nv)                  # a naive value denotes no instant: refused on the way in as well
            rep.count((nm, "convert", "naive", req), nontrivial=False, kind="%s.convert:naive" % nm)
            if o[0] == "ok":
                fail("%s.convert:naive-value-accepted" % nm, "%s.convert(%r) -> %r" % (nm, nv, o[1]), type=nm, value=repr(nv))
            for lconv in (T.ListElement(conv),):
                for op in ("convert", "unconvert"):
                    o = call(T, lconv, op, None)
                    if (o[0] != "ok") != req or (o[0] == "ok" and o[1] is not None):
                        fail("ListElement.%s:not-delegating" % op, "ListElement(%s(required=%r)).%s(None) -> %r" % (nm, req, op, o), type=nm)
            bads = ["x", "2020", "2020010", "20201301", "20200132", "20200100", "20200230", "20200101250000", "20200101126000", "20200101120061", "2020010112000a",
                    "20200101120000.12", "20200101120000.123[", "20200101120000.123[5", "abcdefgh", "Y", "12.5"] if nm == "DateTime" else \
                   ["x", "12", "1200", "250000", "126000", "120061", "12000a", "120000.12", "120000.123[", "20200101120000", "Y"]
            for bt in bads:
                o = call(T, conv, "convert", bt)
                rep.count((nm, "convert", bt, req), nontrivial=False, kind="%s.convert:bad-text" % nm)
                if o[0] == "ok":
                    fail("%s.convert:bad-text-accepted" % nm, "%s.convert(%r) -> %r" % (nm, bt, o[1]), type=nm, text=bt)


def scratch_env():
    """ofxtools.config reads / creates its directories under XDG_*: point them at a scratch directory before it is first imported"""
    import sys
    if "ofxtools.config" not in sys.modules:
        d = os.path.join(C.BUILD, "scratch", "xdg-%d" % os.getpid())
        os.makedirs(d, exist_ok=True)
        for k in ("XDG_DATA_HOME", "XDG_CONFIG_HOME", "XDG_CACHE_HOME"):
            os.environ[k] = d


def ofxget_front_door(T, rng, rep, fails, n):
    """the public entry point that feeds user-typed dates to DateTime.convert: ofxtools.scripts.ofxget.convert_datetime(args) must give, for every text,
    the value DateTime().convert gives, or refuse when it refuses (the converter's own denotation is C09's / the clauses above)"""
    scratch_env()
    try:
        import ofxtools.scripts.ofxget as G
    except Exception as ex:
        rep.extra["ofxget_front_door"] = "skipped: %r" % (ex,)
        return
    conv = T.DateTime()
    texts = ["", None, "20070131", "2007-01-31", "2007/01/31", "2007-0131", "200701-31", "-20070131", "20070131-", "2007/0131", "20070131120000[-5:EST]", "20070131120000.000[-5]",
             "20070131120000[-3.30]", "20070131120000.123[-0.30:X]", "20070131120000[+5.30]", "20070131120000[5]", "20070131120000[-12]", "20070131120000.000[-5:E-S/T]",
             "2007013112", "20070131 12:00", "31/01/2007", "01-31-2007", "2007.01.31", "20070131120000[--5]", "20070131120000[-]"]
    for _ in range(n):
        y, mo, dd = rng.randrange(1000, 9999), rng.randrange(1, 13), rng.randrange(1, 29)
        hh, mi, ss, ms = rng.randrange(24), rng.randrange(60), rng.randrange(60), rng.randrange(1000)
        offh = rng.randrange(-12, 15)
        tail = rng.choice(["", ".%03d" % ms, ".%03d[%d]" % (ms, offh), ".%03d[%+d:XYZ]" % (ms, offh), "[%d]" % offh, ".%03d[%+d.30]" % (ms, offh), "[-%d.%02d:A-B]" % (rng.randrange(13), rng.randrange(60))])
        t = "%04d%02d%02d%s" % (y, mo, dd, rng.choice(["", "%02d%02d%02d%s" % (hh, mi, ss, tail)]))
        texts.append(t)
        r = rng.random()
        if r < 0.5:
            i = rng.randrange(len(t) + 1)
            texts.append(t[:i] + rng.choice("-/-/ .:") + t[i:])          # a separator typed into the text: not OFX notation
        if r < 0.25:
            texts.append("%04d-%02d-%02d" % (y, mo, dd)); texts.append("%04d/%02d/%02d" % (y, mo, dd))
    for t in texts:
        want = call(T, conv, "convert", t or None)
        for slot in ("dtstart", "dtend", "dtasof"):
            args = {"dtstart": None, "dtend": "", "dtasof": None}
            args[slot] = t
            try:
                got = ("ok", G.convert_datetime(args)[slot[2:]], 0)
            except Exception as ex:
                got = ("reject", type(ex).__name__)
            rep.count(("ofxget", slot, t), nontrivial=(got[0] == "ok" and got[1] is not None), kind="ofxget.convert_datetime:%s" % got[0])
            if (want[0] == "ok") != (got[0] == "ok") or (want[0] == "ok" and want[1] != got[1]):
                fails.append(C.Failure("ofxget.convert_datetime:differs-from-DateTime.convert",
                                       "ofxget.convert_datetime({%r: %r}) -> %r but DateTime().convert(%r) -> %r" % (slot, t, got, t or None, want),
                                       dict(kind="frontdoor", slot=slot, text=t)))
                break


RULE = ("corpus first; structured stream: every type x parameterisation (lengths None/1..40, scales None/0..8, both required flags, token sets of the live model classes, "
        "ListElement nesting) x boundary-biased values (length n-1/n/n+1, +-(10^n-1)/+-10^n, halves at the quantum, 28/29-digit coefficients, signed zeros, specials) and "
        "their texts in every accepted notation; malformed stream: single-character corruptions, separators, blanks, underscores, Unicode digits, huge exponents; "
        "wrong-type stream: every pyval constructor x every type, both directions; DateTime/Time (implementation and oracle only, model = C09 engine): aware values "
        "over all whole-minute offsets incl. -0:mm, rounding edges, five notations, None, wrong types, malformed texts, digits of other scripts; the same text classes through the "
        "public entry point ofxget.convert_datetime. non-trivial = the implementation returned a value other than None; distinct by (element, operation, value)")


def run(rep, tier, rng):
    T = types()
    thorough = tier == "thorough"
    deep = is_deep()
    rep.extra["deep_setting"] = deep
    K = 2500 if thorough else (160 if deep else 110)
    cases = load_corpus(PROP) + build_cases(T, rng, K)
    done, convs = run_impl(T, cases, rep, PROP)
    oracle_error = None
    try:
        predicate(T, done, convs, rep.failures)
        datetime_clauses(T, rng, rep, rep.failures, 3000 if thorough else 400)
        ofxget_front_door(T, rng, rep, rep.failures, 2000 if thorough else 150)
    except Exception as ex:          # an oracle problem must not hide the correspondence result
        import traceback
        traceback.print_exc()
        oracle_error = ex
    enc = Enc()
    items, kept = coq_items(done, enc)
    for k in (0, len(kept) // 3, 2 * len(kept) // 3, len(kept) - 1):
        e, op, v, out = kept[k]
        rep.sample({"elem": e, "op": op, "value": jval(v), "implementation": jout(out)})
    rep.rule = RULE
    bad = C.coq_bad_indices(PROP, "scalars", IMPORTS, "scase_ok", "scase", items, shard=2000, prelude="\n".join(enc.prelude))
    for i in bad[:60]:
        e, op, v, out = kept[i]
        rep.disagreements.append({"elem": e, "op": op, "value": jval(v), "implementation": jout(out)})
    if oracle_error is not None:
        raise oracle_error


def replay(obj):
    T = types()
    r = obj["replay"]
    if r.get("kind") == "frontdoor":
        scratch_env()
        import ofxtools.scripts.ofxget as G
        args = {"dtstart": None, "dtend": "", "dtasof": None}
        args[r["slot"]] = r["text"]
        want = call(T, T.DateTime(), "convert", r["text"] or None)
        try:
            got = ("ok", G.convert_datetime(args)[r["slot"][2:]], 0)
        except Exception as ex:
            got = ("reject", type(ex).__name__)
        print("replay ofxget.convert_datetime({%r: %r}) -> %r; DateTime().convert -> %r" % (r["slot"], r["text"], got, want))
        bad = (want[0] == "ok") != (got[0] == "ok") or (want[0] == "ok" and want[1] != got[1])
        if bad:
            print("VIOLATION property=C10 replay=(this file) %s" % obj.get("key"))
        return 1 if bad else 0
    if r.get("kind") == "datetime":
        fails = []
        fail = lambda key, what, **kw: fails.append((key, what))
        if "value" in r and not r.get("label") and r.get("type") in ("DateTime", "Time", "ListElement(DateTime)", "ListElement(Time)") and r["value"].startswith("datetime."):
            v = eval(r["value"], {"datetime": datetime})        # the repr of a datetime / time value written by this check
            dt_chain(T, r["type"], dt_conv(T, r["type"]), v, fail)
            print("replay %s round trip of %r: %s" % (r["type"], v, fails or "ok"))
        elif r.get("label") and r.get("op") in ("convert", "unconvert"):
            v = eval(r["value"], {"datetime": datetime, "Decimal": D})
            for used in (False, True):
                conv = dt_conv(T, r["type"])
                if used:
                    call(T, conv, "convert", "030405" if "Time" in r["type"] else "20200102030405")
                o = call(T, conv, r["op"], v)
                print("replay %s.%s(%r)%s -> %r" % (r["type"], r["op"], v, " after a text was read" if used else "", o))
                if o[0] == "ok":
                    fails.append((obj.get("key"), "%s.%s(%r) -> %r" % (r["type"], r["op"], v, o[1])))
        elif "text" in r and r.get("type") in ("DateTime", "Time"):
            conv = dt_conv(T, r["type"])
            r1 = call(T, conv, "convert", r["text"])
            c = call(T, conv, "unconvert", r1[1]) if r1[0] == "ok" else ("none",)
            r2 = call(T, conv, "convert", c[1]) if c[0] == "ok" else ("none",)
            print("replay %s.convert(%r) -> %r, written %r, read again %r   [recorded: %s]" % (r["type"], r["text"], r1, c, r2, obj.get("what")))
            if (("bad-text" in obj.get("key", "")) or ("non-ascii-digit" in obj.get("key", ""))) == (r1[0] == "ok") or (r1[0] == "ok" and (r2[0] != "ok" or r2[1] != r1[1])):
                fails.append((obj.get("key"), obj.get("what")))
        else:
            print("replay: clause %r is re-evaluated by bin/check C10" % obj.get("key"))
            fails.append((obj.get("key"), obj.get("what")))
        for k, wt in fails:
            print("VIOLATION property=C10 replay=(this file) %s: %s" % (k, wt))
        return 1 if fails else 0
    v = unjval(r["value"])
    conv = mk_elem(T, r["elem"])
    out = call(T, conv, r["op"], v)
    print("replay %s.%s(%r) -> %r   [recorded: %s]" % (json.dumps(r["elem"]), r["op"], v, out, obj.get("what")))
    fails = []
    done = [(r["elem"], r["op"], v, out)]
    predicate(T, done, {case_key(r["elem"], r["op"], v)[0]: conv}, fails)
    for f in fails:
        print("VIOLATION property=C10 replay=(this file) %s: %s" % (f.key, f.what))
    return 1 if fails else 0
