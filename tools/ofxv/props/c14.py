"""C14 - the client sends only what it should, where it should, and nothing on a dry run (ofxtools/Client.py)."""
import os, io, json, glob, shutil, datetime
from .. import common as C
from .. import client_harness as H
from ..translate_client import gen_client

PROP = "C14"
COQ_EXTRA = ["theories/Model/HttpClientCases.vo", "theories/Gen/ClientGen.vo"]
PARTIAL = [
    "urllib (build_opener, Request, handlers), TLS and sockets are CPython runtime: not modelled; the fake server sits directly under the opener, so they run for real in the correspondence run only",
    "http.cookiejar's domain/path/expiry/secure policy is abstracted to 'same host, last value of a name wins' in the MODEL (its cases use host-only session cookies with Path=/); "
    "Domain= / Path= / Secure / Max-Age / Expires cookies are probed on the implementation only, against an RFC 6265 user-agent oracle, and the jar's class and policy flags are a watched constant (cookie_policy_is_default)",
    "HTTP redirects (urllib re-issues a redirected POST as a GET) are outside the model and the fake server never redirects",
    "the optional `requests` branch of post_request (USE_REQUESTS) cannot be exercised here (requests is not installed): outside the claim; the translator fails closed if it becomes active",
    "'body is the serialized OFX request' is a statement about bytes: checked on the implementation (posted bytes == bytes returned by the dry run of the same call with uuid/clock frozen, and parsed back), not a theorem",
    "credentials_only_to_advertised_url is proved under the explicit hypothesis that clients sharing a cache key (org, fid) share the URL; without it the statement is refuted (credentials_to_foreign_url_refuted; finding 18, shared with C15)",
]
MANIFEST = {
    "engine": "HttpClient",
    "text": "Theorems about the Gallina transcription of download/post_request/request_profile/_get_service_urls/request_* for EVERY finite sequence of calls on "
            "any number of client instances against an arbitrary (adaptive) server: a dry run sends nothing and changes nothing; every other call sends one POST "
            "(two with the profile lookup) with the fixed headers; profile requests go to the configured URL with placeholder credentials; credentialed requests go only "
            "to the single URL advertised by a profile that the client's own server sent (configured URL under skip_profile) - under the stated hypothesis that the cache "
            "key is not shared across servers; a cookie appears in a request of client k only if an earlier response to client k from that host set it, and is replayed. "
            "The model is tied to Client.py by running both on the same call sequences (requests observed under urllib's opener) and comparing traces, jars and cache.",
    "note": "Partial: urllib, the cookie policy of http.cookiejar (abstracted to same-host), TLS, redirects and the byte-level equality of body and serialized request are "
            "CPython runtime / byte facts covered by the correspondence run (differential testing) only; the `requests` branch is outside the claim. Known finding 18 "
            "(cache key ignores the URL) lets credentials reach a URL advertised by another server: theorem stated with the hypothesis, refutation lemma proved.",
}

HOSTS = ["cfg0.example", "cfg1.example", "svc0.example", "svc1.example", "svc2.example"]
# paths as institutions really advertise them: mixed case, a file extension, a query with '&', '=' and a %-escape
PATHS = ["/ofx", "/bank", "/cc", "/OFXServer/Statements.DLL", "/cgi-bin/Ofx.exe?Inst=ABC%2F1&Lang=EN"]
UAS = ["InetClntApp/3.0", "VerifAgent/1.0"]
# (org, fid) as indices into client_harness.ORGS / FIDS: plain tokens, then identities as the bundled fi.cfg has them (dotted ORG shared by
# two FIDs, dashes, blanks, '&', non-ASCII, leading dot, decimal point).  Pairs that render to the SAME '<org>-<fid>' text are C15's subject
# (recorded finding there) and are not generated here.
ORGFID = [(None, None), (1, 1), (2, 2), (1, None), (3, 3), (3, 4), (4, 8), (4, 5), (6, 6), (8, 7), (9, 11), (13, 11), (7, 11), (7, 8)]
KINDS = ["profile", "stmt", "acct", "tax"]
MODES = ["dry", "skip", "normal"]
COOKIE_NAMES = {"sid": 1, "lb": 2}
ACCEPT = "*/*, application/x-ofx, application/xml;q=0.9"
KEY18 = "credentials-to-foreign-url:clients with org=None, fid=None and different url"


def url_str(u):
    return "https://%s%s" % (HOSTS[u[0]], PATHS[u[1]])


def url_of_str(s):
    for h in range(len(HOSTS)):
        for p in range(len(PATHS)):
            if url_str((h, p)) == s:
                return (h, p)
    return None


def user_str(n): return None if n == 0 else "user-%d-id" % n
def pass_str(n): return "pw-%d-secret" % n


def num_of(s, prefix, suffix, placeholder):
    if s == placeholder:
        return 0
    if s and s.startswith(prefix) and s.endswith(suffix) and s[len(prefix):len(s) - len(suffix)].isdigit():
        return int(s[len(prefix):len(s) - len(suffix)])
    return 999999


def translate():
    H.setup_env("c14")
    return gen_client()


# ------------------------------------------------------------------ Coq encoding
def c_url(u): return "(Url %d %d)" % tuple(u)
def c_optn(x): return "None" if x is None else "(Some %d)" % (x if x >= 0 else 999999)
def c_cookies(cs): return C.clist("(%d,%d)" % c for c in cs)
def c_sets(sets): return C.clist("(MsgSet %s %s %s)" % ({"bank": "SBank", "cc": "SCc", "inv": "SInv", "other": "SOther", "prof": "SOther"}[k], c_url(u), C.cbool(cl)) for k, u, cl in sets)
def c_profile(p): return "(Profile %d %d %s)" % (p["id"], p["date"], c_sets(p["sets"]))


def c_payload(a):
    k = a["payload"]
    if k == "profile": return "(RProfile %s)" % c_profile(a["profile"])
    return {"uptodate": "RUpToDate", "errstatus": "RErrStatus", "opaque": "ROpaque"}[k]


def c_response(a):
    return "(Rs %s %s %s %s)" % (C.cbool(a["transport"]), C.cbool(a["status"] == 200), c_cookies(a["cookies"]), c_payload(a))


def c_cfg(c):
    k = H.model_key(c["org"], c["fid"])      # the model's cache key = the file name the configuration renders to
    return "(Cfg %s %d %s %s %s %d)" % (c_url(c["url"]), c["user"], c_optn(k[0]), c_optn(k[1]), C.cbool(c["persist"]), c["ua"])


def c_op(o):
    return "(%d%%nat, Op %s %s %d)" % (o["client"], {"profile": "KProfile", "stmt": "KStmt", "acct": "KAcct", "tax": "KTax"}[o["kind"]],
                                       {"dry": "MDry", "skip": "MSkip", "normal": "MNormal"}[o["mode"]], o["pass"])


def c_request(r):
    kind = {"profile": "KProfile", "stmt": "KStmt", "acct": "KAcct", "tax": "KTax"}.get(r["kind"])
    if kind is None or r["url"] is None:
        # something the model has no term for: make the case disagree (url 999/999)
        return "(Rq (Url 999 999) %s 0 0 0 [] (Body KProfile 999999 999999 None))" % C.cbool(r["post"])
    return "(Rq %s %s %d %d %d %s (Body %s %d %d %s))" % (c_url(r["url"]), C.cbool(r["post"]), r["ctype"], r["accept"], r["ua"], c_cookies(r["cookies"]),
                                                         kind, r["user"], r["pass"], c_optn(r["dtprofup"]))


def c_outcome(o):
    if o[0] == "dry": return "(OK ODry)"
    if o[0] == "answer": return "(OK (OAnswer %d%%nat))" % o[1]
    if o[0] == "prof": return "(OK (OProf %d))" % o[1]
    return "(Err Reject)" if o[0] == "reject" else "(Err Crash)"


def c_case(case, obs):
    seen = C.clist("(%s, %s)" % (C.clist(c_request(r) for r in e["requests"]), c_outcome(e["outcome"])) for e in obs["events"])
    jars = C.clist(C.clist("(%d,(%d,%d))" % j for j in jar) for jar in obs["jars"])
    cache = C.clist("((%s,%s),%d)" % (c_optn(k[0]), c_optn(k[1]), pid) for k, pid in obs["cache"])
    return "HCase %s %s %s %s %s %s" % (C.clist(c_cfg(c) for c in case["cfgs"]), C.clist(c_response(a) for a in obs["world"]),
                                       C.clist(c_op(o) for o in case["ops"]), seen, jars, cache)


# ------------------------------------------------------------------ case generation
def gen_case(rng, shape=None):
    """a configuration of 1-3 clients + a sequence of <= 8 calls + the seed of the server's choices."""
    ncl = rng.choice([1, 1, 2, 2, 3])
    shape = shape or rng.choice(["plain", "plain", "plain", "shared-none", "same-fi", "distinct-fi", "dotted-org"])
    cfgs = []
    for k in range(ncl):
        if shape == "shared-none":      # finding 18's input class: no ORG/FID, different URLs
            orgfid, u = (None, None), (k % 2, 0)
        elif shape == "same-fi":        # several instances configured for one institution and server
            orgfid, u = (1, 1), (0, 0)
        elif shape == "dotted-org":     # fi.cfg: msdw.com/1235 and msdw.com/14137 are different servers
            orgfid, u = (3, 3 + k % 2), (k % 2, 0)
        elif shape == "distinct-fi":
            orgfid, u = ORGFID[1 + k % 3], (k % 2, 0)
        else:
            orgfid = rng.choice(ORGFID)
            u = (rng.choice([0, 1]), 0)
        cfgs.append({"url": u, "user": rng.choice([0, 1, 2, 3]), "org": orgfid[0], "fid": orgfid[1], "persist": rng.random() < 0.85, "ua": rng.choice([0, 0, 1])})
    # the model's key is (org, fid): make clients that share a key while the property's precondition (same server) fails only in shape shared-none
    if shape != "shared-none":
        seen = {}
        for c in cfgs:
            k = H.model_key(c["org"], c["fid"])
            if k in seen:
                c["url"] = seen[k]
            seen[k] = c["url"]
    nops = rng.choice([1, 2, 3, 4, 5, 6, 7, 8])
    ops = []
    for _ in range(nops):
        kind = rng.choice(KINDS)
        mode = rng.choice(["dry", "skip", "normal", "normal", "normal"])
        ops.append({"client": rng.randrange(ncl), "kind": kind, "mode": mode, "pass": rng.choice([1, 2, 3])})
    return {"cfgs": cfgs, "ops": ops, "server_seed": rng.getrandbits(32), "shape": shape}


class Server:
    """scripted-at-random fake institution(s): one profile history per URL it is asked at."""
    def __init__(self, seed, script=None):
        import random
        self.rng = random.Random(seed)
        self.script = list(script) if script else None   # corpus cases: explicit list of answers
        self.world = []          # answers given, in order (what the Coq case gets)
        self.profiles = {}       # bytes -> id
        self.by_id = {}
        self.state = {}          # url -> {"date": n, "current": profile dict}
        self.sent = {}           # url -> [profile dict] sent from that URL, in order

    def _new_profile(self, date, home):
        rng = self.rng
        shape = rng.choice(["same", "other", "other", "two", "none", "multi"])
        svc = (rng.choice([2, 3, 4]), rng.randrange(len(PATHS)))
        if shape == "same":
            sets = [("bank", home, rng.random() < 0.3)]
        elif shape == "other":
            sets = [(k, svc, rng.random() < 0.3) for k in rng.sample(["bank", "cc", "inv"], rng.choice([1, 2, 3]))]
        elif shape == "two":
            sets = [("bank", svc, False), ("cc", (svc[0], (svc[1] + 1) % len(PATHS)), False)]
        elif shape == "none":
            sets = [("other", svc, False)]      # MSGSETLIST must not be empty: a profile advertising no statement service
        else:   # two BANKMSGSETs: the last decides StmtRq, the first (if closingavail) StmtEndRq
            second = svc if rng.random() < 0.5 else (svc[0], (svc[1] + 1) % len(PATHS))
            sets = [("bank", svc, rng.random() < 0.5), ("bank", second, False), ("other", home, False)]
        if rng.random() < 0.5:
            # the profile message set advertises a URL of its own - mostly NOT the configured one: later profile requests of the same
            # client (cached profile present) must still go to the configured URL
            sets = sets + [("prof", home if rng.random() < 0.2 else (rng.choice([2, 3, 4]), rng.randrange(len(PATHS))), False)]
        return self.profile(date, sets)

    def profile(self, date, sets):
        pid = len(self.profiles) + 1
        # the URL element as servers write it: now and then with blanks around it (the parser strips them: the URL advertised is the text)
        blank = lambda t: ("  " + t + " ") if self.rng.random() < 0.15 else t
        data = H.make_profile(date, [(k, blank(url_str(u)), cl) for k, u, cl in sets], tag="p%d" % pid)
        self.profiles[data] = pid
        order = {"other": 1, "bank": 2, "cc": 3, "inv": 4, "prof": 5}
        p = {"id": pid, "date": date, "sets": sorted(sets, key=lambda s: order[s[0]]), "bytes": data}
        self.by_id[pid] = p
        return p

    def answer(self, rq):
        rng = self.rng
        idx = len(self.world)
        is_prof = b"<PROFRQ>" in (rq.body or b"")
        home = url_of_str(rq.url)
        if self.script is not None:
            a = dict(self.script.pop(0)) if self.script else {"payload": "opaque", "transport": False}
            a.setdefault("transport", True); a.setdefault("status", 200)
            a["cookies"] = [tuple(c) for c in a.get("cookies", [])]
            if a["payload"] == "profile":
                a["profile"] = self.profile(a["date"], [(k, tuple(u), cl) for k, u, cl in a["sets"]])
        else:
            a = {"transport": True, "status": 200, "cookies": [], "payload": "opaque"}
            r = rng.random()
            if r < 0.06:
                a["transport"] = False
            elif r < 0.10:
                a["status"] = 500
            if rng.random() < 0.5:
                for name in rng.sample(["sid", "lb"], rng.choice([1, 1, 2])):
                    a["cookies"].append((COOKIE_NAMES[name], 100 + idx * 2 + COOKIE_NAMES[name]))
            if is_prof and home is not None:
                st = self.state.setdefault(home, {"date": 10, "current": None})
                b = rng.choice(["newer", "newer", "newer", "same", "older", "uptodate", "uptodate", "errstatus", "garbage"])
                if st["current"] is None and b in ("same", "older"):
                    b = "newer"
                if b == "newer":
                    st["date"] += rng.choice([0, 1, 1, 2])
                    st["current"] = self._new_profile(st["date"], home)
                    a.update(payload="profile", profile=st["current"])
                elif b == "same":
                    a.update(payload="profile", profile=st["current"])
                elif b == "older":
                    a.update(payload="profile", profile=self._new_profile(st["date"] - rng.choice([1, 3]), home))
                elif b == "uptodate":
                    a["payload"] = "uptodate"
                elif b == "errstatus":
                    a["payload"] = "errstatus"
                else:
                    a["payload"] = "opaque"; a["garbage"] = rng.randrange(len(H.GARBAGE))
        if a["transport"] is False:
            a["cookies"] = []
        if a["payload"] == "profile":
            body = a["profile"]["bytes"]
            if a["transport"] and a["status"] == 200:
                self.sent.setdefault(rq.url, []).append(a["profile"])
        elif a["payload"] == "uptodate":
            body = H.make_status_only(1)
        elif a["payload"] == "errstatus":
            body = H.make_status_only(2000)
        elif "garbage" in a:
            body = H.GARBAGE[a["garbage"]]
        else:
            body = b"ANSWER-%d" % idx
        self.world.append(a)
        return H.Resp(body=body, cookies=[("sid" if n == 1 else "lb", "v%d" % v) for n, v in a["cookies"]], status=a["status"], transport=a["transport"])


def make_client(L, c):
    return L.OFXClient(url_str(c["url"]), userid=user_str(c["user"]), org=H.org_str(c["org"]), fid=H.fid_str(c["fid"]),
                       useragent=UAS[c["ua"]] if c["ua"] else None, persist_cookies=c["persist"], bankid="123456789")


def call_op(L, cl, o, force_dry=False):
    mode = "dry" if force_dry else o["mode"]
    pw = pass_str(o["pass"])
    kw = {"dryrun": mode == "dry"}
    if o["kind"] == "profile":
        return cl.request_profile(**kw)
    kw["skip_profile"] = mode == "skip"
    if o["kind"] == "stmt":
        return cl.request_statements(pw, L.Client.StmtRq(acctid="1", accttype="CHECKING"), **kw)
    if o["kind"] == "acct":
        return cl.request_accounts(pw, datetime.datetime(2019, 1, 1, tzinfo=datetime.timezone.utc), **kw)
    return cl.request_tax1099(pw, "2019", **kw)


def dir_snapshot(d):
    out = {}
    for root, _dirs, files in os.walk(d):          # not glob: a leading dot in an ORG makes a hidden file
        for f in files:
            p = os.path.join(root, f)
            out[os.path.relpath(p, d)] = open(p, "rb").read()
    return out



# ------------------------------------------------------------------ cookie-policy probe (implementation only; the model's jar is "same host")
CK_P = "profile.ofx.bank0.example"        # the configured (profile) host
CK_S = "ofx.bank0.example"                # the advertised statement host, one label above it
CK_DOMAINS = [None, ".bank0.example", "bank0.example", ".ofx.bank0.example", "ofx.bank0.example", CK_P, "." + CK_P, ".other.example", "other.example"]
CK_PATHS = [None, "/", "/ofx", "/Stmt"]
CK_EXP = [None, "max-age", "expires"]


def gen_cookie_cases(rng, n, everything=False):
    """Set-Cookie lines with Domain= (one / two labels above the answering host, the host itself, with and without leading dot, a foreign
    domain), Path= variants, Secure, Max-Age / Expires in the future, deletion by Max-Age=0, several per response; the statement URL on
    https or http (a Secure cookie must stay off http)."""
    grid = [(d, p_, sec, e) for d in CK_DOMAINS for p_ in CK_PATHS for sec in (False, True) for e in CK_EXP]
    picks = grid if everything else ([(".bank0.example", None, False, None), ("bank0.example", "/", True, "max-age"), (None, None, False, None),
                                      (".other.example", "/", False, None), (".ofx.bank0.example", "/Stmt", False, "expires")] + rng.sample(grid, n))
    out = []
    for k, g in enumerate(picks):
        mk = lambda i, a: {"name": "c%d" % i, "value": "v%d-%d" % (k, i), "domain": a[0], "path": a[1], "secure": a[2], "exp": a[3]}
        r0 = [mk(0, g)] + [mk(1 + j, rng.choice(grid)) for j in range(rng.choice([0, 1, 2]))]
        r1 = [mk(5 + j, rng.choice(grid)) for j in range(rng.choice([0, 1, 2]))]
        # overwrite / delete the first cookie from the OTHER host's answer - only where that host belongs to the cookie's domain
        # (http.cookiejar clears an expired cookie before it asks its policy whether the sender may set it: a stdlib quirk, not probed)
        if rng.random() < 0.3 and r0[0]["domain"] in (".bank0.example", "bank0.example", ".ofx.bank0.example", "ofx.bank0.example"):
            r1.append(dict(r0[0], value="w%d" % k, exp=rng.choice([None, "delete"])))
        out.append({"kind": "cookies", "shape": "cookie-policy", "r0": r0, "r1": r1, "svc_http": rng.random() < 0.25, "server_seed": 0})
    return out


def set_cookie_line(c):
    s_ = "%s=%s" % (c["name"], c["value"])
    if c["domain"]: s_ += "; Domain=%s" % c["domain"]
    if c["path"]: s_ += "; Path=%s" % c["path"]
    if c["secure"]: s_ += "; Secure"
    if c["exp"] == "max-age": s_ += "; Max-Age=3600"
    elif c["exp"] == "expires": s_ += "; Expires=Fri, 31 Dec 2060 23:59:59 GMT"
    elif c["exp"] == "delete": s_ += "; Max-Age=0"
    return s_


class Rfc6265Jar:
    """independent statement of what a user agent stores and sends (RFC 6265 5.3 / 5.4 as http.cookiejar's DEFAULT policy implements it - the
    jar's class and policy flags are pinned by Gen/ClientGen.v cookie_policy_is_default): domain-match, path-match with the default path, Secure only on https, Max-Age=0 deletes, (name, domain, path) is the key."""
    def __init__(self):
        self.store = {}

    @staticmethod
    def dmatch(host, d):
        return host == d or host.endswith("." + d)

    def set(self, host, rpath, c):
        if c["domain"]:
            d = c["domain"].lstrip(".")
            if not self.dmatch(host, d):
                return                        # a host cannot set a cookie for a domain it does not belong to
            key_d, host_only = d, False
        else:
            key_d, host_only = host, True
        path = c["path"] or (rpath[:rpath.rfind("/")] or "/")
        key = (c["name"], key_d, host_only, path)
        if c["exp"] == "delete":
            self.store.pop(key, None)
        else:
            self.store[key] = (c["value"], c["secure"])

    def send(self, scheme, host, rpath):
        out = []
        for (name, d, host_only, path), (value, secure) in self.store.items():
            # a cookie without Domain= also goes to hosts BELOW the one that set it: http.cookiejar's default (Netscape, DomainLiberal) policy,
            # as observed on the unchanged tree; RFC 6265's host-only flag would be stricter, DomainStrict is what seeded/C14-9 switches on
            if self.dmatch(host, d) and (rpath == path or rpath.startswith(path.rstrip("/") + "/") or path == "/") \
                    and (not secure or scheme == "https"):
                out.append((name, value))
        return sorted(out)


def run_cookie_case(case, workdir):
    L = H.lib()
    shutil.rmtree(workdir, ignore_errors=True)
    H.set_datadir(workdir)
    svc = "%s://%s/Stmt/Download.dll" % ("http" if case["svc_http"] else "https", CK_S)
    prof = H.make_profile(10, [("bank", svc, False)], tag="ck")
    a = L.OFXClient("https://%s/ofx" % CK_P, userid="user-1-id", org="ORG1", fid="FID1", bankid="1")
    b = L.OFXClient("https://%s/ofx" % CK_P, userid="user-2-id", org="ORG2", fid="FID2", bankid="1")
    fails, want_jar, log = [], Rfc6265Jar(), []
    state = {"n": 0, "who": "a"}

    def responder(rq):
        import urllib.parse
        u = urllib.parse.urlsplit(rq.url)
        sent = rq.cookies()
        if state["who"] == "a":
            want = want_jar.send(u.scheme, u.hostname, u.path)
            if sent != want:
                missing = [c for c in want if c not in sent]; extra = [c for c in sent if c not in want]
                key = "cookie:not-replayed" if missing else "cookie:never-set-for-this-client"
                fails.append((key, "request %d of the client to %s carries Cookie %r; the answers it received so far (%s) make a user agent send %r%s"
                              % (state["n"], rq.url, sent, "; ".join(log) or "none", want,
                                 " - a cookie the server set for a domain the host belongs to was dropped" if missing else ""), {"request": state["n"]}))
        elif sent:
            fails.append(("cookie:from-another-client", "a request of a second client instance to %s carries %r" % (rq.url, sent), {}))
        is_prof = b"<PROFRQ>" in (rq.body or b"")
        lines = []
        if state["who"] == "a":
            cs = case["r0"] if (is_prof and state["n"] == 0) else (case["r1"] if (not is_prof and state["n"] == 1) else [])
            for c in cs:
                want_jar.set(u.hostname, u.path, c)
                lines.append(set_cookie_line(c))
            if lines:
                log.append("%s answered Set-Cookie: %s" % (u.hostname, " | ".join(lines)))
        state["n"] += 1
        return H.Resp(body=prof if is_prof else b"ANSWER", set_cookie=lines)

    stmt = lambda cl, **kw: cl.request_statements("pw-1-secret", L.Client.StmtRq(acctid="1", accttype="CHECKING"), **kw)
    with H.FakeNet(responder):
        try:
            stmt(a); stmt(a)
            a.request_tax1099("pw-1-secret", "2019", skip_profile=True)
            state["who"] = "b"
            stmt(b, skip_profile=True); stmt(b)
        except Exception as e:
            fails.append(("cookie-probe:request-failed", "a request of the cookie probe raised %r" % (e,), {}))
    return {"cookies": {"requests": state["n"], "kept": len(want_jar.store)}}, fails


# ------------------------------------------------------------------ the front door: ofxget.main() (implementation only)
def gen_cli_cases(rng):
    """`ofxget stmt|stmtend myfi [--all | -C acct] [--skipprofile]` through ofxget.main() with a user configuration file, against a fake
    institution whose profile advertises the configured or another URL and whose ACCTINFORS lists two ACTIVE accounts."""
    out = []
    for cmd in ("stmt", "stmtend"):
        for all_ in (True, False):
            for skip in (False, True):
                for other in (True, False):
                    out.append({"kind": "cli", "shape": "cli", "cmd": cmd, "all": all_, "skip": skip,
                                "svc": [rng.choice([2, 3, 4]), rng.randrange(len(PATHS))] if other else [0, 0], "server_seed": 0})
    return out


def run_cli_case(case, workdir):
    shutil.rmtree(workdir, ignore_errors=True)
    os.makedirs(workdir)
    cfg_url, svc_url = url_str((0, 0)), url_str(tuple(case["svc"]))
    argv = [case["cmd"], "myfi", "--password", "pw-7-secret"] + (["--all"] if case["all"] else ["-C", "111"]) + (["--skipprofile"] if case["skip"] else [])
    env = {"XDG_DATA_HOME": os.path.join(workdir, "xdg", "data"), "XDG_CONFIG_HOME": os.path.join(workdir, "xdg", "config"),
           "XDG_CACHE_HOME": os.path.join(workdir, "xdg", "cache"), "HOME": os.path.join(workdir, "xdg", "home")}
    args = {"env": env, "datadir": os.path.join(workdir, "data"), "server": "myfi", "argv": argv, "userid": "user-7-id", "password": "pw-7-secret",
            "config": {"url": cfg_url, "org": "ORG1", "fid": "FID1", "user": "user-7-id", "bankid": "123456789", "version": "203"},
            "sets": [["bank", svc_url, True], ["prof", url_str((4, 1)), False]],
            "accounts": [["111", "CHECKING", "ACTIVE"], ["222", "SAVINGS", "ACTIVE"], ["333", "CHECKING", "PEND"]]}
    rc, out = H.run_child("cli_child", args, workdir)
    fails = []
    try:
        res = json.loads(out.strip().splitlines()[-1])
    except Exception:
        raise RuntimeError("ofxget front-door child failed (%d): %s" % (rc, out[-1500:]))
    line = "ofxget " + " ".join(a if a != "pw-7-secret" else "<password>" for a in argv)
    if res["error"]:
        fails.append(("cli:command-failed", "`%s` failed: %s" % (line, res["error"]), {}))
    want = cfg_url if case["skip"] else svc_url
    for i, r in enumerate(res["requests"]):
        if r["method"] != "POST":
            fails.append(("request:not-POST", "`%s`: request %d is a %s" % (line, i, r["method"]), {}))
        if r["kind"] == "profile":
            if r["url"] != cfg_url:
                fails.append(("profile-request:not-to-configured-url", "`%s`: profile request %d went to %s, configured %s" % (line, i, r["url"], cfg_url), {}))
            if r["userid"] or r["password"]:
                fails.append(("profile-request:carries-credentials", "`%s`: profile request %d carries the user's id or password" % line, {}))
        elif (r["userid"] or r["password"]) and r["url"] != want:
            fails.append(("credentials:not-to-configured-url-under-skip_profile" if case["skip"] else "credentials:not-to-advertised-url",
                          "`%s`: the %s request (request %d of %s) carrying USERID/USERPASS went to %s; %s %s"
                          % (line, r["kind"], i, [x["kind"] for x in res["requests"]], r["url"],
                             "--skipprofile asks for the configured URL" if case["skip"] else "the institution's profile advertises", want), {}))
    kinds = [r["kind"] for r in res["requests"]]
    last = "stmtend" if case["cmd"] == "stmtend" else "stmt"
    exp = ([] if case["skip"] else ["profile"])
    exp = (exp + ["acctinfo"] if case["all"] else []) + exp + [last]
    if not res["error"] and kinds != exp:
        fails.append(("request:wrong-number-or-order", "`%s` posted %r, expected %r" % (line, kinds, exp), {}))
    return {"cli": {"requests": len(res["requests"])}}, fails


def run_case(case, workdir):
    """run the implementation on one case; returns (observation for the model comparison, property failures)."""
    if case.get("kind") == "cli":
        return run_cli_case(case, workdir)
    if case.get("kind") == "cookies":
        return run_cookie_case(case, workdir)
    L = H.lib()
    for c in case["cfgs"]:
        c["url"] = tuple(c["url"])
    shutil.rmtree(workdir, ignore_errors=True)
    cachedir = H.set_datadir(workdir)
    srv = Server(case["server_seed"], case.get("script"))
    clients = [make_client(L, c) for c in case["cfgs"]]
    twins = [make_client(L, c) for c in case["cfgs"]]
    PH = L.Client.AUTH_PLACEHOLDER
    fails, events = [], []
    cookie_set = [dict() for _ in clients]        # oracle: per client, host -> {name: value} set by responses to THAT client
    sent_to = {}                                  # oracle: (url, cache key) -> profiles that server sent to clients with that key

    def fail(key, what, **extra):
        fails.append((key, what, extra))

    with H.frozen_client_clock():
        for i, o in enumerate(case["ops"]):
            k = o["client"]; cl = clients[k]; cfg = case["cfgs"][k]
            # expected bodies: the same call as a dry run on a twin instance; a dry run must not reach the network or touch the cache
            before = dir_snapshot(workdir)
            with H.FakeNet(lambda rq: H.Resp(transport=False)) as trap:
                try:
                    exp_body = call_op(L, twins[k], o, force_dry=True).read()
                    exp_prof = exp_body if o["kind"] == "profile" else (twins[k].request_profile(dryrun=True).read() if o["mode"] == "normal" else None)
                except Exception as e:
                    exp_body = exp_prof = None
                    fail("dryrun:raises", "dry run of %s raised %r" % (o["kind"], e), op=i)
            if trap.log:
                fail("dryrun:performs-network-request", "dry run of %s posted to %s" % (o["kind"], trap.log[0].url), op=i)
            if dir_snapshot(workdir) != before:
                fail("dryrun:modifies-cache", "dry run of %s changed files under the data directory" % o["kind"], op=i)
            with H.FakeNet(srv.answer) as net:
                first_idx = len(srv.world)
                try:
                    res = call_op(L, cl, o)
                    data = res.read()
                    if o["mode"] == "dry":
                        outcome = ("dry",)
                        if data != exp_body:
                            fail("dryrun:returns-other-than-request", "dry run result differs from the dry run of the twin", op=i)
                    elif o["kind"] == "profile":
                        outcome = ("prof", srv.profiles.get(data, 999999))
                    else:
                        outcome = ("answer", int(data[7:])) if data.startswith(b"ANSWER-") and data[7:].isdigit() else ("answer", 999999)
                except (ValueError, TypeError, SyntaxError) as e:
                    outcome = ("reject", type(e).__name__)
                except Exception as e:
                    outcome = ("crash", type(e).__name__)
            reqs = []
            for j, rq in enumerate(net.log):
                a = srv.world[first_idx + j]
                try:
                    kind, uid, upw, dtp = H.read_request(rq.body)
                except Exception as e:
                    kind, uid, upw, dtp = "other", None, None, None
                    fail("request:body-not-ofx", "posted body does not parse as an OFX request: %r" % e, op=i)
                u = url_of_str(rq.url)
                reqs.append({"url": u, "post": rq.method == "POST", "ctype": 1 if rq.headers.get("content-type") == "application/x-ofx" else 0,
                             "accept": 1 if rq.headers.get("accept") == ACCEPT else 0,
                             "ua": UAS.index(rq.headers.get("user-agent")) if rq.headers.get("user-agent") in UAS else 999,
                             "cookies": [(COOKIE_NAMES.get(n, 999), int(v[1:]) if v[1:].isdigit() else 999999) for n, v in rq.cookies()],
                             "kind": kind, "user": num_of(uid, "user-", "-id", PH), "pass": num_of(upw, "pw-", "-secret", PH), "dtprofup": dtp})
                # ---------------- the property, request by request ----------------
                if rq.method != "POST":
                    fail("request:not-POST", "%s request to %s" % (rq.method, rq.url), op=i)
                if rq.headers.get("content-type") != "application/x-ofx":
                    fail("request:content-type", "Content-Type %r" % rq.headers.get("content-type"), op=i)
                acc = [x.split(";")[0].strip() for x in (rq.headers.get("accept") or "").split(",")]
                if not ({"application/x-ofx", "*/*", "application/*"} & set(acc)):
                    fail("request:accept-does-not-admit-ofx", "Accept %r" % rq.headers.get("accept"), op=i)
                if rq.headers.get("user-agent") != UAS[cfg["ua"]]:
                    fail("request:user-agent", "User-Agent %r, configured %r" % (rq.headers.get("user-agent"), UAS[cfg["ua"]]), op=i)
                creds = (user_str(cfg["user"]) or "\0").encode() in rq.body or pass_str(o["pass"]).encode() in rq.body
                if kind == "profile":
                    if rq.url != url_str(cfg["url"]):
                        fail("profile-request:not-to-configured-url", "profile request went to %s, configured %s" % (rq.url, url_str(cfg["url"])), op=i)
                    if creds or uid != PH or upw != PH:
                        fail("profile-request:carries-credentials", "profile request carries userid %r / password %r" % (uid, upw), op=i)
                    if exp_prof is not None and rq.body != exp_prof:
                        fail("request:body-differs-from-serialized-request", "profile request body differs from the dry run's serialization", op=i)
                else:
                    if exp_body is not None and rq.body != exp_body:
                        fail("request:body-differs-from-serialized-request", "%s request body differs from the dry run's serialization" % o["kind"], op=i)
                    if kind != o["kind"]:
                        fail("request:wrong-kind", "%s call posted a %s request" % (o["kind"], kind), op=i)
                    if o["mode"] == "skip":
                        want = url_str(cfg["url"])
                        if rq.url != want:
                            fail("credentials:not-to-configured-url-under-skip_profile", "went to %s, configured %s" % (rq.url, want), op=i)
                    else:
                        own = sent_to.get((url_str(cfg["url"]), H.model_key(cfg["org"], cfg["fid"])), [])
                        newest = None
                        for p in own:
                            if newest is None or p["date"] >= newest["date"]:
                                newest = p
                        want = None if newest is None else H.service_url([(kk, url_str(uu), c_) for kk, uu, c_ in newest["sets"]])
                        if rq.url != want:
                            foreign = [pp for (uu, kk), ps in sent_to.items() if uu != url_str(cfg["url"]) for pp in ps
                                       if H.service_url([(a_, url_str(b_), c_) for a_, b_, c_ in pp["sets"]]) == rq.url]
                            if foreign and cfg["org"] is None and cfg["fid"] is None:
                                fail(KEY18, "client configured for %s (no ORG/FID) sent userid/password to %s, the URL advertised by the profile of another server "
                                     "(cached under None-None.profrs); its own server advertises %s" % (url_str(cfg["url"]), rq.url, want), op=i)
                            else:
                                fail("credentials:not-to-advertised-url", "credentialed %s request went to %s; the institution's profile advertises %s" % (o["kind"], rq.url, want), op=i)
                # cookies: exactly those set by earlier responses to THIS client from this host (when persisting)
                want_c = sorted(cookie_set[k].get(rq.host, {}).items()) if cfg["persist"] else []
                got_c = rq.cookies()
                for c in got_c:
                    if c not in want_c:
                        others = any(c in d.get(rq.host, {}).items() for kk, d in enumerate(cookie_set) if kk != k)
                        fail("cookie:from-another-client" if others else "cookie:never-set-for-this-client",
                             "request of client %d to %s carries cookie %s=%s that no earlier response to this client set" % (k, rq.host, c[0], c[1]), op=i)
                for c in want_c:
                    if c not in got_c:
                        fail("cookie:not-replayed", "request of client %d to %s lacks cookie %s=%s set earlier for it" % (k, rq.host, c[0], c[1]), op=i)
                if a["transport"]:
                    for n, v in a["cookies"]:
                        cookie_set[k].setdefault(rq.host, {})["sid" if n == 1 else "lb"] = "v%d" % v
                    if a["payload"] == "profile" and a["status"] == 200 and kind == "profile":
                        sent_to.setdefault((rq.url, H.model_key(cfg["org"], cfg["fid"])), []).append(a["profile"])
            # ---------------- the property, call by call ----------------
            n = len(net.log)
            if o["mode"] == "dry" and n:
                fail("dryrun:performs-network-request", "dry run of %s posted %d request(s)" % (o["kind"], n), op=i)
            if o["mode"] != "dry":
                kinds = [r["kind"] for r in reqs]
                ok_shapes = [["profile"]] if o["kind"] == "profile" else ([[o["kind"]]] if o["mode"] == "skip" else [["profile"], ["profile", o["kind"]]])
                if kinds not in ok_shapes:
                    fail("request:wrong-number-or-order", "%s/%s call posted %r" % (o["kind"], o["mode"], kinds), op=i)
            events.append({"requests": reqs, "outcome": outcome})
    jars = []
    for cl in clients:
        jar = []
        for ck in cl.cookiejar:
            h = HOSTS.index(ck.domain) if ck.domain in HOSTS else 999
            jar.append((h, COOKIE_NAMES.get(ck.name, 999), int(ck.value[1:]) if ck.value[1:].isdigit() else 999999))
        jars.append(sorted(jar))
    cache = []
    for name, data in sorted(dir_snapshot(cachedir).items() if os.path.isdir(cachedir) else []):
        k = H.key_of_file(name)
        cache.append(((999, 999) if k is None else k, srv.profiles.get(data, 999999)))
    world = []
    for a in srv.world:
        b = {k: v for k, v in a.items() if k != "profile"}
        if "profile" in a:
            b["profile"] = {k: v for k, v in a["profile"].items() if k != "bytes"}
        world.append(b)
    return {"events": events, "jars": jars, "cache": cache, "world": world}, fails


def run(rep, tier, rng):
    root = H.setup_env("c14")
    try:
        _run(rep, tier, rng)
    finally:
        _cleanup(root)


def _run(rep, tier, rng):
    thorough = tier == "thorough"
    cases = []
    for p in sorted(glob.glob(os.path.join(C.VERIF, "corpus", PROP, "*.json"))):
        cases.append(json.load(open(p))["case"])
    n = 6000 if thorough else 700
    for _ in range(n):
        cases.append(gen_case(rng))
    cases += gen_cookie_cases(rng, 0, everything=True) if thorough else gen_cookie_cases(rng, 60)
    cli = gen_cli_cases(rng)                 # each spawns an interpreter: spread them over the worker chunks
    step = max(1, len(cases) // (len(cli) + 1))
    for i, c in enumerate(cli):
        cases.insert(min(len(cases), (i + 1) * step + i), c)
    items, kept = [], []
    results = H.pmap(run_case, cases, "c14")
    for i, case in enumerate(cases):
        obs, fails = results[i]
        for key, what, extra in fails:
            rep.failures.append(C.Failure(key, what, {"case": case, "at": extra}))
        if "cli" in obs:
            rep.count(json.dumps(case, sort_keys=True), nontrivial=obs["cli"]["requests"] > 0, kind="ofxget-main/%s%s%s" % (case["cmd"], "/all" if case["all"] else "", "/skip" if case["skip"] else ""))
            continue
        if "cookies" in obs:
            rep.count(json.dumps(case, sort_keys=True), nontrivial=obs["cookies"]["kept"] > 0, kind="cookie-policy/%dkept" % min(obs["cookies"]["kept"], 3))
            continue
        items.append(c_case(case, obs)); kept.append((case, obs))
        nreq = sum(len(e["requests"]) for e in obs["events"])
        rep.count(json.dumps(case, sort_keys=True), nontrivial=nreq > 0, kind="%s/%dcl/%dreq" % (case.get("shape", "corpus"), len(case["cfgs"]), min(nreq, 9) // 3 * 3))
        if i in (0, len(cases) // 2, len(cases) - 1):
            rep.sample({"case": case, "implementation": {"events": obs["events"], "jars": obs["jars"], "cache": obs["cache"]}})
    rep.rule = ("corpus first; then random configurations of 1-3 client instances (with/without ORG/FID, same or different URL, persist_cookies on/off, two user agents) "
                "x sequences of 1-8 calls over {profile, statements, accounts, tax} x {dryrun, skip_profile, normal} against a fake institution under urllib's opener that answers "
                "profile requests with a newer / the same / an older profile (advertising the configured URL, another URL, two different URLs, none, or two BANKMSGSETs), "
                "'up to date', an error status, garbage, a transport error or HTTP 500, and sets 0-2 cookies per response. Every request observed is judged against the "
                "property text by an independent oracle; the front door `ofxget stmt|stmtend <server> [--all|-C acct] [--skipprofile]` through ofxget.main() in a fresh interpreter "
                "(user configuration file, fake PROFRS / ACCTINFORS): where did each request carrying USERID/USERPASS go; cookie-policy probes (implementation only: Set-Cookie with Domain= one/two labels above the answering host or "
                "foreign, with/without leading dot, Path= variants, Secure on https/http, Max-Age/Expires, deletion, several per response, a second client) judged by an "
                "RFC 6265 user-agent oracle; the whole trace, the jars and the cache directory are compared with the Gallina model (vm_compute). "
                "non-trivial = at least one request reached the fake server; distinct by (configuration, calls, server seed)")
    bad = C.coq_bad_indices(PROP, "http", ["Model.HttpClient", "Model.HttpClientCases"], "hcase_ok", "hcase", items, shard=250 if thorough else 60)
    for i in bad[:50]:
        rep.disagreements.append({"case": kept[i][0], "implementation": kept[i][1]})


def _cleanup(root):
    shutil.rmtree(root, ignore_errors=True)
    shutil.rmtree(os.path.join(C.BUILD, "scratch", "c14"), ignore_errors=True) if not glob.glob(os.path.join(C.BUILD, "scratch", "c14", "*")) else None


def replay(obj):
    H.setup_env("c14-replay")
    case = obj["replay"]["case"] if "replay" in obj else obj["case"]
    obs, fails = run_case(case, os.path.join(C.BUILD, "scratch", "c14-replay", "d"))
    for key, what, extra in fails:
        print("property fails: [%s] %s (call %s)" % (key, what, extra.get("op")))
    want = obj.get("key")
    bad = [f for f in fails if want is None or f[0] == want]
    if bad:
        print("VIOLATION property=C14 replay=(this file)")
    return 1 if bad else 0
