"""C09 - date-time and time notations (ofxtools/Types.py:488-745, ofxtools/utils.py:53-69).

Correspondence: Model/DateTimeM.v (+ Calendar.v) evaluated by vm_compute on the same cases as DateTime/Time
convert/unconvert; the Coq reference denote_dt/denote_tm is compared with the implementation on the same run.
Property predicate: an independent integer-arithmetic oracle (days-from-civil; never touches `datetime`
arithmetic) decides, for every in-domain case, what the property text demands."""
import re, json, os, glob, datetime
from .. import common as C
from ..translate_datetime import gen_datetime, pattern_state

PROP = "C09"
COQ_EXTRA = ["theories/Model/DateTimeMCases.vo", "theories/Gen/DateTimeGen.vo"]
PARTIAL = [
    "CPython's datetime (C implementation: constructor checks, +/- timedelta, OverflowError outside years 1..9999, glibc strftime) is "
    "represented by the Gallina transcription of its documented arithmetic (Model/Calendar.v) and validated by the correspondence run only",
    "dt_convert_accepts_only_notation / tm_convert_accepts_only_notation are stated for texts whose decimal digits are all ASCII: "
    "the minutes group is \\d\\d, so non-ASCII decimal digits are accepted there (e.g. [5.٣٠]) and can even trigger regex backtracking into the "
    "hours run; the model follows this (correspondence covers it) but the declarative reference does not describe it",
    "utcoffset() is modelled in whole seconds and tzname() as an arbitrary optional text; tzinfo objects whose methods raise or return "
    "sub-second offsets are outside the model; the write theorems carry 1000 <= year (glibc %Y is unpadded)",
]
MANIFEST = {
    "engine": "DateTimeM, Calendar",
    "text": "Theorems about the Gallina transcription of DT_REGEX/TIME_REGEX, parse_gmt_offset/gmt_offset, normalize_to_gmt and format_datetime: "
            "Python's ordinal<->date functions are mutually inverse for every year >= 1 (400-year periodicity + one kernel-evaluated sweep of a "
            "146097-day cycle) and equal the days-from-civil formula; every rendering of every valid field tuple in the five notations with any "
            "whole-minute offset -12:00..+14:00 (signed/unsigned, with/without .MM, any newline-free zone name) converts to the UTC value of the "
            "denoted instant; every accepted text is in the notation and denotes the returned instant (so wrong length, month 13, day 0/32, hour 24, "
            "minute 60 and letters are rejected); the writer's output has the shape [YYYYMMDD]HHMMSS.XXX[+-h[.mm][:name]] and reading it back gives "
            "the original instant to within half a millisecond (after the repair 61f0c78 of -0.MM offsets, no guard); naive values are refused. "
            "The model is tied to Types.py/utils.py by evaluating it with vm_compute on the same ~2.3*10^4 (thorough ~5.4*10^5) texts and values as the implementation; the Coq reference denote_dt/denote_tm is compared with the implementation on the same run.",
    "note": "Trusted: Coq kernel + vm_compute; the hand transcriptions Model/Calendar.v, Model/DateTimeM.v (validated by the correspondence run only); the TZS / "
            "decimal-digit table translator. Print Assumptions: closed under the global context.",
}

NEG_FRACTION_KEY = "parse_gmt_offset:-0.MM-read-as-positive"
NAME_AS_MINUTES_KEY = "tz_name:two-digit-name-read-as-minutes"      # emitted only if listed in known_findings.json (else: separator tolerance, DESIGN.md section 9)
MINUTES_LIKE = re.compile(r"\d\d(:|\Z)")


def minutes_like(name):
    """a zone name the recogniser takes for minutes when it follows whole hours: two decimal digits, then the end or a colon"""
    return name is not None and MINUTES_LIKE.match(name) is not None


def _name_quirk_listed():
    known, _ = C.load_findings(PROP)
    return any(f["key"] == NAME_AS_MINUTES_KEY for f in known)
US_DAY = 86400 * 10 ** 6


def translate():
    return gen_datetime()


# ------------------------------------------------------------------ independent oracle (integer arithmetic only)
def civil_leap(y):
    return (y % 400 == 0) if y % 100 == 0 else (y % 4 == 0)


def civil_dim(y, m):
    if m == 2:
        return 29 if civil_leap(y) else 28
    return 30 + m % 2 if m <= 7 else 31 - m % 2


def civil_ord(y, m, d):
    """days-from-civil; 0001-01-01 -> 1"""
    yy = y - 1 if m <= 2 else y
    era = yy // 400
    yoe = yy - era * 400
    mp = m - 3 if m > 2 else m + 9
    doy = (153 * mp + 2) // 5 + d - 1
    doe = yoe * 365 + yoe // 4 - yoe // 100 + doy
    return era * 146097 + doe - 305


def wall_us(y, mo, d, h, mi, s, us):
    return (civil_ord(y, mo, d) - 1) * US_DAY + ((h * 60 + mi) * 60 + s) * 10 ** 6 + us


def tod_us(h, mi, s, us):
    return ((h * 60 + mi) * 60 + s) * 10 ** 6 + us


WRITTEN = re.compile(r"(?:(\d{4})(\d\d)(\d\d))?(\d\d)(\d\d)(\d\d)\.(\d{3})\[([+-])(\d+)(?:\.(\d\d))?(?::(.*))?\]", re.ASCII | re.DOTALL)


def read_written(text, timeonly):
    """strict reader of the one written form [YYYYMMDD]HHMMSS.XXX[+-h[.mm][:name]] -> (wall us | time-of-day us, offset minutes, name) or None"""
    m = WRITTEN.fullmatch(text)
    if not m or (m.group(1) is None) != timeonly:
        return None
    h, mi, s, ms = (int(m.group(k)) for k in (4, 5, 6, 7))
    mm = int(m.group(10) or 0)
    if h > 23 or mi > 59 or s > 59 or mm > 59:
        return None
    off = (int(m.group(9)) * 60 + mm) * (-1 if m.group(8) == "-" else 1)
    if timeonly:
        w = tod_us(h, mi, s, ms * 1000)
    else:
        y, mo, d = int(m.group(1)), int(m.group(2)), int(m.group(3))
        if not (1 <= mo <= 12 and 1 <= d <= civil_dim(y, mo)):
            return None
        w = wall_us(y, mo, d, h, mi, s, ms * 1000)
    return w, off, m.group(11)


# ------------------------------------------------------------------ implementation wrappers
class _NoName(datetime.tzinfo):
    """fixed offset whose tzname() is None (permitted by the tzinfo protocol)"""
    def __init__(self, secs): self._o = datetime.timedelta(seconds=secs)
    def utcoffset(self, dt): return self._o
    def tzname(self, dt): return None
    def dst(self, dt): return None


class _NaiveTz(datetime.tzinfo):
    """a tzinfo that declines to give an offset: the value is naive by definition"""
    def utcoffset(self, dt): return None
    def tzname(self, dt): return "X"
    def dst(self, dt): return None


class _Pep495(datetime.tzinfo):
    """hand-written date-dependent zone (PEP 495): standard offset `std` minutes, daylight saving `delta` minutes later between the
    second Sunday of March 02:00 (standard wall time) and the first Sunday of November 02:00 (daylight wall time); `fold` selects
    the second reading in the repeated interval.  Pure field arithmetic on the wall-clock reading; never consults local time."""
    def __init__(self, std, delta, name_std, name_dst):
        self._std, self._delta, self._ns, self._nd = std, delta, name_std, name_dst

    @staticmethod
    def _nth_sunday(y, mo, n):
        d = datetime.date(y, mo, 1)
        first = 1 + (6 - d.weekday()) % 7
        return first + 7 * (n - 1)

    def _is_dst(self, dt):
        if dt is None:
            return False
        w = dt.replace(tzinfo=None, fold=0)
        delta = datetime.timedelta(minutes=self._delta)
        start = datetime.datetime(w.year, 3, self._nth_sunday(w.year, 3, 2), 2)
        end = datetime.datetime(w.year, 11, self._nth_sunday(w.year, 11, 1), 2)
        if start + delta <= w < end - delta:
            return True
        if end - delta <= w < end:
            return not dt.fold          # repeated interval: first reading is daylight time
        if start <= w < start + delta:
            return bool(dt.fold)        # gap
        return False

    def utcoffset(self, dt): return datetime.timedelta(minutes=self._std + (self._delta if self._is_dst(dt) else 0))
    def dst(self, dt): return datetime.timedelta(minutes=self._delta if self._is_dst(dt) else 0)
    def tzname(self, dt): return self._nd if self._is_dst(dt) else self._ns


PEP495_ZONES = [[-300, 60, "EST", "EDT"], [-210, 60, "NST", "NDT"], [60, 60, "CET", "CEST"], [630, 30, "LHST", "LHDT"], [-60, 60, "AZOT", "AZOST"], [0, 60, "GMT", "BST"]]
ZONEINFO_ZONES = ["America/New_York", "Europe/Berlin", "America/St_Johns", "Australia/Lord_Howe", "Atlantic/Azores", "Asia/Kolkata"]
_FRONT = {}


def front_door():
    """ofxtools.scripts.ofxget imported with its configuration directories pointed at an empty scratch directory"""
    if "G" not in _FRONT:
        import tempfile, importlib
        d = tempfile.mkdtemp(prefix="ofxv-c09-")
        for k in ("XDG_CONFIG_HOME", "XDG_DATA_HOME", "HOME"):
            os.environ[k] = d
        _FRONT["G"] = importlib.import_module("ofxtools.scripts.ofxget")
    return _FRONT["G"]


def impl_front(text, via, slot="dtstart"):
    """the same text through the command line's date arguments -> ('ok', fields, utc) | ('ok-instant', us) | ('reject'|'crash', class)"""
    import io, contextlib, sys
    G = front_door()
    if via == "convert_datetime":
        args = {"dtstart": None, "dtend": None, "dtasof": None}
        args[slot] = text
        out = _outcome(lambda: G.convert_datetime(args)[slot[2:]])
        if out[0] != "ok":
            return out
        v = out[1]
        if not isinstance(v, datetime.datetime):
            return ("crash", "returned " + type(v).__name__)
        utc = v.utcoffset() == datetime.timedelta(0) if v.tzinfo is not None else False
        return ("ok", [v.year, v.month, v.day, v.hour, v.minute, v.second, v.microsecond], utc)
    # via == "main": ofxget stmt --dryrun prints the request; read <DTSTART> back with the strict reader
    buf, argv = io.StringIO(), sys.argv
    sys.argv = ["ofxget", "stmt", "--dryrun", "--url", "https://ofx.invalid/", "--org", "O", "--fid", "1", "--user", "u", "--bankid", "1",
                "--checking", "123", "--version", "203", "--start=" + text]
    try:
        with contextlib.redirect_stdout(buf), contextlib.redirect_stderr(io.StringIO()):
            out = _outcome(G.main)
    except SystemExit as e:
        out = ("reject", "SystemExit")
    finally:
        sys.argv = argv
    if out[0] != "ok":
        return out
    m = re.search(r"<DTSTART>(.*?)</DTSTART>", buf.getvalue(), re.S)
    rw = read_written(m.group(1), False) if m else None
    if rw is None:
        return ("crash", "no readable <DTSTART> in the request: %r" % (m.group(1) if m else None,))
    return ("ok-instant", rw[0] - rw[1] * 60 * 10 ** 6)


def _outcome(f):
    try:
        return ("ok", f())
    except (ValueError, TypeError) as e:
        return ("reject", type(e).__name__)
    except Exception as e:
        return ("crash", type(e).__name__)


def impl_convert(T, text, timeonly):
    """-> ('ok', [y,mo,d,h,mi,s,us], utc: bool) | ('reject'|'crash', class)"""
    conv = (T.Time() if timeonly else T.DateTime())
    out = _outcome(lambda: conv.convert(text))
    if out[0] != "ok":
        return out
    v = out[1]
    utc = v.utcoffset() == datetime.timedelta(0) if v.tzinfo is not None else False
    if timeonly:
        return ("ok", [0, 0, 0, v.hour, v.minute, v.second, v.microsecond], utc)
    return ("ok", [v.year, v.month, v.day, v.hour, v.minute, v.second, v.microsecond], utc)


def make_tz(c):
    if c.get("tzkind") == "pep495":
        return _Pep495(*c["tzspec"])
    if c.get("tzkind") == "zoneinfo":
        import zoneinfo
        return zoneinfo.ZoneInfo(c["zone"])
    if c["offsec"] is None:
        return _NaiveTz() if c.get("tzkind") == "declines" else None
    if c.get("tzkind") == "noname":
        return _NoName(c["offsec"])
    td = datetime.timedelta(seconds=c["offsec"])
    return datetime.timezone(td, c["name"]) if c.get("tzkind") == "named" else datetime.timezone(td)


def make_value(c):
    y, mo, d, h, mi, s, us = c["fields"]
    tz = make_tz(c)
    if c["t"] == "tm":
        return datetime.time(h, mi, s, us, tzinfo=tz)
    return datetime.datetime(y, mo, d, h, mi, s, us, tzinfo=tz, fold=c.get("fold", 0))


def value_name(v):
    return v.tzname() if v.tzinfo is not None else None


# ------------------------------------------------------------------ evaluation of one case: outcome + property failures
def evaluate(T, c):
    """-> (implementation outcome, [Failure...], coq item or None)"""
    fails = []

    def fail(key, what, **extra):
        r = dict(c); r.update(extra)
        fails.append(C.Failure(key, what, r))
    timeonly = c["t"] == "tm"
    if c["op"] == "conv" and c.get("via"):
        out = impl_front(c["text"], c["via"], c.get("slot", "dtstart"))
        want = c.get("expect")
        door = "ofxget %s(%s)" % (c["via"], c.get("slot", "--start"))
        if isinstance(want, int):
            if out[0] not in ("ok", "ok-instant"):
                fail("frontdoor:%s:valid-text-rejected" % c["via"], "%s refused %r (%s); the notation denotes instant %d us" % (door, c["text"], out[1], want), observed=out)
            else:
                got = out[1] if out[0] == "ok-instant" else wall_us(*out[1])
                if got != want or (out[0] == "ok" and not out[2]):
                    fail("frontdoor:%s:wrong-instant" % c["via"], "%s read %r as %d us; the notation denotes %d us (off by %d s)"
                         % (door, c["text"], got, want, (got - want) // 10 ** 6), observed=out, expected_us=want)
        elif want == "reject" and out[0] in ("ok", "ok-instant"):
            fail("frontdoor:%s:accepts-%s" % (c["via"], c.get("cls", "corrupt")), "%s accepted a text outside the notation (%s): %r -> %r"
                 % (door, c.get("cls"), c["text"], out[1]), observed=out)
        return out, fails, None
    if c["op"] == "conv":
        out = impl_convert(T, c["text"], timeonly)
        exp = "OK (F %s)" % " ".join(str(x) for x in out[1]) if out[0] == "ok" else ("Err Reject" if out[0] == "reject" else "Err Crash")
        item = "%s %s (%s)" % ("CConvTM" if timeonly else "CConvDT", C.ctext(c["text"]), exp)
        want = c.get("expect")           # int: must denote this instant; 'reject': must be rejected; None: no demand
        if isinstance(want, int):
            negfrac = bool(c.get("negfrac"))
            if out[0] != "ok":
                fail("convert:valid-text-rejected", "%s().convert(%r) raised %s; the notation denotes instant %d us" % (c["t"], c["text"], out[1], want), observed=out)
            else:
                got = tod_us(*out[1][3:]) if timeonly else wall_us(*out[1])
                if got != want or not out[2]:
                    key = NEG_FRACTION_KEY if (negfrac and out[2]) else ("convert:wrong-instant" if out[2] else "convert:result-not-utc")
                    fail(key, "%s().convert(%r) -> fields %r (utc=%s) = %d us; the notation denotes %d us (off by %d s)"
                         % (c["t"], c["text"], out[1], out[2], got, want, (got - want) // 10 ** 6), observed=out, expected_us=want)
        elif want == "reject" and out[0] == "ok":
            fail("convert:accepts-%s" % c.get("cls", "corrupt"), "%s().convert(%r) accepted a text outside the notation (%s) -> %r"
                 % (c["t"], c["text"], c.get("cls"), out[1]), observed=out)
        return out, fails, item
    if c["op"] == "convval":
        v = make_value(c)
        conv = (T.Time() if timeonly else T.DateTime())
        out = _outcome(lambda: conv.convert(v))
        ok = out[0] == "ok"
        item = "CConvVal %s %s" % (coq_value(c, value_name(v)), C.cbool(ok))
        if c["offsec"] is None and ok:
            fail("convert:naive-value-accepted", "%s().convert(%r) accepted a naive value" % (c["t"], v))
        if c["offsec"] is not None and not (ok and out[1] is v):
            fail("convert:aware-value-not-returned", "%s().convert(%r) -> %r" % (c["t"], v, out))
        return ("ok" if ok else out[0], None if ok else out[1]), fails, item
    # unconvert
    v = make_value(c)
    conv = (T.Time() if timeonly else T.DateTime())
    out = _outcome(lambda: conv.unconvert(v))
    if out[0] == "ok" and not isinstance(out[1], str):
        out = ("crash", "returned " + type(out[1]).__name__)
    exp = "OK " + C.ctext(out[1]) if out[0] == "ok" else ("Err Reject" if out[0] == "reject" else "Err Crash")
    name = value_name(v)
    item = "%s %s (%s)" % ("CUnTM" if timeonly else "CUnDT", coq_value(c, name), exp)
    if c["offsec"] is None:
        if out[0] == "ok":
            fail("unconvert:naive-value-accepted", "%s().unconvert(%r) wrote %r for a naive value" % (c["t"], v, out[1]))
        return out, fails, item
    if not c.get("domain"):
        return out, fails, item
    # in-domain aware value (year 1900-2200, whole-minute offset -12:00..+14:00, newline-free name)
    if c.get("tzkind") in ("pep495", "zoneinfo") and v.utcoffset() != datetime.timedelta(seconds=c["offsec"]):
        raise RuntimeError("case generator and tzinfo disagree on the offset of %r" % (v,))
    offmin = c["offsec"] // 60
    y, mo, d, h, mi, s, us = c["fields"]
    name_quirk = minutes_like(name) and offmin % 60 == 0
    if name_quirk and not _name_quirk_listed():
        return out, fails, item          # the name would be read as minutes: separator tolerance, outside the domain
    true_wall = tod_us(h, mi, s, us) if timeonly else wall_us(y, mo, d, h, mi, s, us)
    negfrac = -60 < offmin < 0
    if out[0] != "ok":
        fail("unconvert:aware-value-refused", "%s().unconvert(%r) raised %s" % (c["t"], v, out[1]), observed=out)
        return out, fails, item
    rw = read_written(out[1], timeonly)
    if rw is not None and rw[2] != name:
        fail("unconvert:wrong-zone-name", "%s().unconvert(%r) -> %r names the zone %r, the value's tzname() is %r" % (c["t"], v, out[1], rw[2], name), observed=out)
    if rw is None:
        fail("unconvert:shape", "%s().unconvert(%r) -> %r is not %sHHMMSS.XXX[offset%s]" % (c["t"], v, out[1], "" if timeonly else "YYYYMMDD", ":name" if name is not None else ""), observed=out)
        return out, fails, item
    w, woff, _ = rw
    diff = (w - woff * 60 * 10 ** 6) - (true_wall - offmin * 60 * 10 ** 6)
    if timeonly:
        diff = (diff + US_DAY // 2) % US_DAY - US_DAY // 2
    if abs(diff) > 500:
        fail("unconvert:wrong-instant", "%s().unconvert(%r) -> %r denotes an instant %d us away from the value (more than half a millisecond)" % (c["t"], v, out[1], diff), observed=out)
        return out, fails, item
    back = impl_convert(T, out[1], timeonly)
    want = (w - woff * 60 * 10 ** 6) % US_DAY if timeonly else (w - woff * 60 * 10 ** 6)
    if back[0] != "ok":
        fail("roundtrip:own-output-rejected", "%s: wrote %r for %r and then refused to read it (%s)" % (c["t"], out[1], v, back[1]), observed=[out, back])
    else:
        got = tod_us(*back[1][3:]) if timeonly else wall_us(*back[1])
        if got != want or not back[2]:
            fail(NEG_FRACTION_KEY if negfrac else (NAME_AS_MINUTES_KEY if name_quirk else "roundtrip:instant-changed"),
                 "%s: %r is written %r, which reads back as fields %r: %d us from the written instant (original instant must come back to within half a millisecond)"
                 % (c["t"], v, out[1], back[1], got - want), observed=[out, back])
    return out, fails, item


def coq_value(c, name):
    off = c["offsec"]
    f = "(F %s)" % " ".join(str(x) for x in c["fields"])
    o = "None" if off is None else "(Some (%s, %d))" % (C.cbool(off < 0), abs(off))
    return "(V %s %s %s)" % (f, o, C.copt(name, C.ctext))


# ------------------------------------------------------------------ generators
NAMES = [None, "EST", "UTC", "GMT", "X Y", "a]b", "", ":", "Z:Z", "[", "]", "+5", "-0.30", "Europe/Berlin", "日本", "É", "\U0001F552", "x" * 40]


def rnd_name(rng):
    r = rng.random()
    if r < 0.75:
        return rng.choice(NAMES)
    return "".join(rng.choice("ABEST :].[+-0159é٣") for _ in range(rng.randrange(1, 7)))


def rnd_date(rng, lo=1900, hi=2200):
    r = rng.random()
    y = rng.choice([lo, hi, 1999, 2000, 2024, 2100, 2196]) if r < 0.3 else rng.randint(lo, hi)
    mo = rng.choice([1, 2, 3, 12]) if rng.random() < 0.4 else rng.randint(1, 12)
    dim = civil_dim(y, mo)
    d = rng.choice([1, dim, 28 if dim >= 28 else 1]) if rng.random() < 0.5 else rng.randint(1, dim)
    return y, mo, d


def rnd_time(rng):
    h = rng.choice([0, 23, 11, 12]) if rng.random() < 0.5 else rng.randint(0, 23)
    mi = rng.choice([0, 59]) if rng.random() < 0.5 else rng.randint(0, 59)
    s = rng.choice([0, 59]) if rng.random() < 0.5 else rng.randint(0, 59)
    return h, mi, s


def rnd_offmin(rng):
    r = rng.random()
    if r < 0.45:
        return rng.choice([0, -30, 30, -1, 1, -59, 59, -45, -60, 60, -210, 330, 345, -300, -720, 840, -719, 839, 525, -570])
    return rng.randint(-720, 840)


def render_offset(rng, offmin, style=None):
    """one of the textual forms of a whole-minute offset: signed / unsigned, with / without .MM, zero-padded hours"""
    hh, mm = divmod(abs(offmin), 60)
    sign = "-" if offmin < 0 else rng.choice(["+", ""])
    if offmin == 0 and rng.random() < 0.3:
        sign = "-"
    hours = "%02d" % hh if rng.random() < 0.15 else "%d" % hh
    frac = ".%02d" % mm if (mm or rng.random() < 0.2) else ""
    return sign + hours + frac


def valid_conv_case(rng, timeonly):
    y, mo, d = rnd_date(rng)
    h, mi, s = rnd_time(rng)
    ms = rng.choice([0, 999, 1, 500]) if rng.random() < 0.5 else rng.randint(0, 999)
    offmin = rnd_offmin(rng)
    name = rnd_name(rng)
    off = render_offset(rng, offmin)
    br = "[" + off + (":" + name if name is not None else "") + "]"
    date = "%04d%02d%02d" % (y, mo, d)
    tm = "%02d%02d%02d" % (h, mi, s)
    form = rng.randrange(4 if timeonly else 5)
    if not timeonly and form == 4:
        text, h, mi, s, ms, offmin = date, 0, 0, 0, 0, 0
    else:
        text = ("" if timeonly else date) + [tm, tm + ".%03d" % ms, tm + ".%03d" % ms + br, tm + br][form]
        if form == 0 or form == 3: ms = 0
        if form in (0, 1): offmin = 0
    if rng.random() < 0.03:
        text += "\n"           # `$` tolerance: not part of the notation, no demand
        expect = None
    elif form in (2, 3) and "." not in off and minutes_like(name):
        expect = None          # [+5:30]: the name is taken for minutes (separator tolerance), no demand
    elif timeonly:
        expect = (tod_us(h, mi, s, ms * 1000) - offmin * 60 * 10 ** 6) % US_DAY
    else:
        expect = wall_us(y, mo, d, h, mi, s, ms * 1000) - offmin * 60 * 10 ** 6
    c = {"op": "conv", "t": "tm" if timeonly else "dt", "text": text, "expect": expect, "form": form}
    if form in (2, 3) and -60 < offmin < 0:
        c["negfrac"] = True
    return c


def corrupt_cases(rng, base):
    """every listed single-field corruption of a valid text -> cases with expect='reject' (or None where the property makes no demand)"""
    text, timeonly = base["text"], base["t"] == "tm"
    out = []
    k0 = 0 if timeonly else 8
    ndig = k0 + 6 if len(text) > 8 or timeonly else 8

    def put(t, cls, demand=True):
        out.append({"op": "conv", "t": base["t"], "text": t, "expect": "reject" if demand else None, "cls": cls})

    def setf(pos, val):
        return text[:pos] + val + text[pos + 2:]
    if not timeonly:
        put(setf(4, "13"), "month-13"); put(setf(4, "00"), "month-00")
        put(setf(6, "00"), "day-00"); put(setf(6, "32"), "day-32")
    if ndig > 8 or timeonly:
        put(setf(k0, "24"), "hour-24"); put(setf(k0 + 2, "60"), "minute-60")
        put(setf(k0 + 4, "61"), "second-61"); put(setf(k0 + 4, "60"), "second-60", demand=False)
    # letters in digit positions
    digit_pos = list(range(ndig))
    m = re.match(r"\d+(\.\d{3})?", text)
    if m.group(1):
        digit_pos += [ndig + 1, ndig + 2, ndig + 3]
    b = text.find("[")
    if b >= 0:
        mo = re.match(r"[+-]?(\d+)(\.(\d\d))?", text[b + 1:])
        digit_pos += [b + 1 + k for k in range(*mo.span(1))]
        if mo.group(3):
            digit_pos += [b + 1 + k for k in range(*mo.span(3))]
    for p in rng.sample(digit_pos, min(len(digit_pos), 6)):
        put(text[:p] + rng.choice("OlxAZ o") + text[p + 1:], "letter")
    # the same-valued decimal digit of another script in one digit position (not the offset minutes, whose \d\d accepts them today)
    minute_pos = set(b + 1 + k for k in range(*mo.span(3))) if (b >= 0 and mo.group(3)) else set()
    foreign_pos = [q for q in digit_pos if q not in minute_pos]
    for p in rng.sample(foreign_pos, min(len(foreign_pos), 5)):
        put(text[:p] + foreign_digit(text[p], rng.choice(SCRIPT_ZEROS)) + text[p + 1:], "foreign-digit")
    # wrong length: one digit dropped or doubled inside the date/time digits, or the millisecond group
    p = rng.randrange(ndig)
    put(text[:p] + text[p + 1:], "wrong-length"); put(text[:p] + text[p] + text[p:], "wrong-length")
    if m.group(1):
        put(text[:ndig + 3] + text[ndig + 4:], "wrong-length"); put(text[:ndig + 3] + "7" + text[ndig + 3:], "wrong-length")
    if ndig == 14 and not timeonly:
        cut = rng.choice([9, 10, 11, 12, 13])
        put(text[:cut], "wrong-length")
    # bracket damage etc.: correspondence only
    if b >= 0:
        put(text[:-1], "bracket", False); put(text + "]", "bracket", False); put(text[:b] + text[b + 1:], "bracket", False)
        put(text[:b + 1] + "[" + text[b + 1:], "bracket", False); put(text.replace(".", "x"), "separator", False); put(text + "\n", "newline", False)
        put(text[:b + 1] + "-" + text[b + 1:], "bracket", False)
    return out


# zero of: full-width, Arabic-Indic, extended Arabic-Indic, Devanagari, Bengali, Thai, mathematical bold
SCRIPT_ZEROS = [0xFF10, 0x0660, 0x06F0, 0x0966, 0x09E6, 0x0E50, 0x1D7CE]


def foreign_digit(ch, zero):
    return chr(zero + ord(ch) - 48)


def foreign_digit_sweep():
    """every digit position (offset minutes excepted) of fixed valid texts x every script: one ASCII digit replaced by the
    same-valued decimal digit of that script; the text is outside the notation and must be rejected"""
    out = []
    for t, text, skip in (("dt", "20240229235907.120[-11.30:NST]", (23, 24)), ("dt", "19991231", ()), ("dt", "20111117033045[+5]", ()),
                          ("tm", "033045.020[+1]", ()), ("tm", "235959", ()), ("tm", "101112.987[-10.45:X9]", (15, 16))):
        for p, ch in enumerate(text):
            if ch in "0123456789" and p not in skip and not (":" in text and p > text.index(":")):
                for z in SCRIPT_ZEROS:
                    out.append({"op": "conv", "t": t, "text": text[:p] + foreign_digit(ch, z) + text[p + 1:], "expect": "reject", "cls": "foreign-digit"})
    return out


UNI = ["٣", "٠", "１", "१"]


def misc_conv_cases(rng, tzs, thorough):
    """quirk forms: correspondence only (no demand)"""
    out = []
    base = "20200102030405"

    def put(t, timeonly=False):
        out.append({"op": "conv", "t": "tm" if timeonly else "dt", "text": t if not timeonly else t[8:], "expect": None, "cls": "quirk"})
    names = list(tzs) + ["XST", "est", "", "EST ", "UTC"]
    for pre in ["-", "+", "--", "+-", "-+5", "5-", "-5-", "1+1"]:
        for nm in names:
            for mm in ["", ".30", "x15", ":45"]:
                put(base + ".123[" + pre + mm + ":" + nm + "]", rng.random() < 0.2)
        put(base + "[" + pre + "]")
    for h in range(-15, 17):
        for mm in ["", ".00", ".59", ".60", ".99", ":30", "-30", "+15", "x7"]:
            put(base + "[%d%s]" % (h, mm), rng.random() < 0.2)
            put(base + ".999[%+d%s:Q]" % (h, mm))
    for t in ["00010101000000[+0.01]", "00010101000000[-0.01]", "00010101000000", "00010101", "00000101", "99991231235959.999[-0.01]", "99991231235959.999[+0.01]",
              "99991231235959.999", "00010101120000[+12]", "00010101120000[+12.01]", "99991231115959[-12]", "99991231120000[-12]", "20200230", "20210229", "20200229",
              "19000229", "20000229", "21000229", "20200431", "20200102030460", "20200102030460[+1]", "20200102\n", "20200102\n\n", "\n20200102", "20200102030405\n",
              "20200102030405[5]\n", "20200102030405[5:a\nb]", "20200102030405[5:a]\n]", "", "\n", "2020", "2020010", "20200102 ", " 20200102", "20200102T030405",
              "20200102030405.", "20200102030405.[5]", "20200102030405.1234", "20200102030405.12[5]", "20200102030405[]", "20200102030405[:EST]", "20200102030405[.30]",
              "20200102030405[5.3]", "20200102030405[5.300]", "20200102030405[5.30.30]", "20200102030405[5:]", "20200102030405[5.30:]", "20200102030405[5]]",
              "20200102030405[[5]", "20200102030405[5][5]", "20200102030405[5:]]]", "20200102030405[" + "0" * 4300 + "1:EST]", "20200102030405[" + "0" * 4299 + "1:EST]",
              "20200102030405[-" + "0" * 4299 + "1:EST]", "20200102030405[-" + "0" * 4300 + "1]", "20200102030405[١]", "2020010203040٥", "２０２００１０２"]:
        put(t)
    for t in ["030405", "240000", "236000", "235960", "235959.999[-0.01]", "000000[+14.59]", "000000[-12.59]", "000000[+15]", "0304", "0304056", "030405.12", "030405[5", "030405\n"]:
        out.append({"op": "conv", "t": "tm", "text": t, "expect": None, "cls": "quirk"})
    # a non-ASCII decimal digit in each digit position of the date / time / millisecond fields ([0-9] classes: rejected today)
    full = base + ".678[-5.30:EST]"
    for p_ in list(range(14)) + [15, 16, 17, 20, 22, 23]:
        put(full[:p_] + rng.choice(UNI) + full[p_ + 1:], p_ >= 8 and rng.random() < 0.3)
    # non-ASCII decimal digits: the minutes group is \d\d, and the hours run can backtrack into it
    for u1 in UNI:
        for u2 in UNI[:2] + ["3"]:
            for inner in ["5." + u1 + u2, "5-" + u1 + u2, "51" + u1 + u2, "512" + u1, "5+1" + u1, "-0." + u1 + u2, "5" + u1 + u2, u1 + u2, "5." + u1 + u2 + ":EST",
                          "-1" + u1 + ":x", "12" + u1, "+" + u1 + u2, "5-3" + u1 + ":", "5:" + u1 + u2, "-:" + u1 + u2 + ":EST"]:
                put(base + "[" + inner + "]", rng.random() < 0.2)
    return out


def bracket_enum_cases(rng, maxlen, sample):
    """offset-bracket contents over a small alphabet: exhaustive to `maxlen`, plus a sample of longer ones"""
    import itertools
    alpha = "015-+.:xEST]"
    out = []
    for n in range(0, maxlen + 1):
        for tup in itertools.product(alpha, repeat=n):
            out.append("".join(tup))
    for _ in range(sample):
        out.append("".join(rng.choice(alpha) for _ in range(rng.randrange(maxlen + 1, 9))))
    return [{"op": "conv", "t": "tm" if i % 7 == 0 else "dt", "text": ("120000" if i % 7 == 0 else "20200102120000") + (".500" if i % 3 == 0 else "") + "[" + s + "]",
             "expect": None, "cls": "bracket-enum"} for i, s in enumerate(out)]


def unconv_case(rng, timeonly, domain=True):
    if domain:
        y, mo, d = rnd_date(rng)
    else:
        y, mo, d = rnd_date(rng, 1, 9999)
        if rng.random() < 0.2:
            y, mo, d = rng.choice([(9999, 12, 31), (1, 1, 1), (999, 12, 31), (1000, 1, 1), (9999, 12, 30)])
    h, mi, s = rnd_time(rng)
    us = rng.choice([0, 499, 500, 501, 999499, 999500, 999999, 1000, 123456]) if rng.random() < 0.6 else rng.randint(0, 999999)
    if domain:
        offsec = rnd_offmin(rng) * 60
    else:
        offsec = rng.choice([rnd_offmin(rng) * 60, rng.randint(-86399, 86399), rng.choice([-1, 1, -59, 59, -61, -90, 90, -3599, -3601, 86399, -86399, -86340])])
    kind = rng.choice(["named", "named", "unnamed", "noname"])
    name = rnd_name(rng) if kind == "named" else None
    if kind == "named" and name is None:
        kind = "noname"
    if not domain and kind == "named" and rng.random() < 0.05:
        name = rng.choice(["a\nb", "\n", "30", "05:x", "٣٠"])
    return {"op": "unconv", "t": "tm" if timeonly else "dt", "fields": [y, mo, d, h, mi, s, us], "offsec": offsec, "name": name, "tzkind": kind, "domain": domain}


def dst_unconv_cases(rng, n_random):
    """aware datetimes in date-dependent zones (hand-written PEP 495 tzinfo; zoneinfo zones when the system has them) at and around both
    transitions of several years, fold 0 and 1, +-1 ms and inside the half-millisecond before each boundary"""
    zones = [{"tzkind": "pep495", "tzspec": z} for z in PEP495_ZONES]
    try:
        import zoneinfo
        for z in ZONEINFO_ZONES:
            try:
                zoneinfo.ZoneInfo(z); zones.append({"tzkind": "zoneinfo", "zone": z})
            except Exception:
                pass
    except ImportError:
        pass
    out = []

    def put(zone, w, fold):
        c = dict(zone); c.update({"op": "unconv", "t": "dt", "fields": [w.year, w.month, w.day, w.hour, w.minute, w.second, w.microsecond], "fold": fold, "name": None, "domain": True})
        v = make_value(dict(c, offsec=0))
        off = v.utcoffset()
        if off is None or off.microseconds or off.seconds % 60:
            return
        c["offsec"] = off.days * 86400 + off.seconds
        if not (-720 * 60 <= c["offsec"] <= 840 * 60):
            return
        out.append(c)
    us = datetime.timedelta(microseconds=1)
    deltas = [0, 1, 400, 499, 500, 501, 600, 999, 1000, 1001, 60 * 10 ** 6, 1799 * 10 ** 6, 1800 * 10 ** 6, 3599 * 10 ** 6 + 999600, 3600 * 10 ** 6, 3600 * 10 ** 6 + 400]
    for zone in zones:
        for y in (rng.choice([1999, 2007, 2015]), rng.choice([2021, 2024, 2030, 2100])):
            marks = []
            for mo in (3, 10, 11, 4):
                for sunday in (1, 2, 4, 5):
                    dom = _Pep495._nth_sunday(y, mo, sunday)
                    if dom <= 31 - (mo in (4, 11)):
                        marks += [datetime.datetime(y, mo, dom, hh) for hh in (1, 2, 3)]
            for mk in rng.sample(marks, 4) + [datetime.datetime(y, 3, _Pep495._nth_sunday(y, 3, 2), 2), datetime.datetime(y, 11, _Pep495._nth_sunday(y, 11, 1), 2),
                                               datetime.datetime(y, 11, _Pep495._nth_sunday(y, 11, 1), 1), datetime.datetime(y, 3, _Pep495._nth_sunday(y, 3, 2), 3)]:
                for dl in rng.sample(deltas, 3) + [400, 600]:
                    for sign in (1, -1):
                        for fold in (0, 1):
                            put(zone, mk + sign * dl * us, fold)
    for _ in range(n_random):
        zone = rng.choice(zones)
        y, mo, d = rnd_date(rng, 1971, 2200)
        h, mi, s = rnd_time(rng)
        put(zone, datetime.datetime(y, mo, d, h, mi, s, rng.choice([0, 499, 500, 999500, 999999, rng.randrange(10 ** 6)])), rng.randrange(2))
    return out


def front_cases(rng, cases, n_main):
    """the property's date-time text classes again, through the command line's date arguments (ofxget --start/--end/--asof):
    convert_datetime for every valid text and a third of the corruptions, main() --dryrun for a few"""
    pool = [c for c in cases if c["op"] == "conv" and c["t"] == "dt" and not c.get("via") and c.get("expect") is not None and c["text"]]
    out = []
    for c in pool:
        if isinstance(c["expect"], int) or rng.random() < 0.34:
            f = {"op": "conv", "t": "dt", "text": c["text"], "expect": c["expect"], "via": "convert_datetime", "slot": rng.choice(["dtstart", "dtend", "dtasof"])}
            if c.get("cls"): f["cls"] = c["cls"]
            out.append(f)
    brk = [c for c in pool if "[" in c["text"]]
    for c in rng.sample(brk, min(len(brk), n_main)) + rng.sample(pool, min(len(pool), n_main // 2)):
        f = {"op": "conv", "t": "dt", "text": c["text"], "expect": c["expect"], "via": "main"}
        if c.get("cls"): f["cls"] = c["cls"]
        if not c["text"].startswith("-") and "\n" not in c["text"] and "\x00" not in c["text"]:
            out.append(f)
    return out


def naive_cases(rng):
    out = []
    for t in ("dt", "tm"):
        for kind in (None, "declines"):
            for op in ("unconv", "convval"):
                y, mo, d = rnd_date(rng); h, mi, s = rnd_time(rng)
                out.append({"op": op, "t": t, "fields": [y, mo, d, h, mi, s, rng.randrange(10 ** 6)], "offsec": None, "name": None, "tzkind": kind, "domain": True})
        out.append({"op": "convval", "t": t, "fields": [2020, 2, 29, 1, 2, 3, 4], "offsec": -1800, "name": "X", "tzkind": "named", "domain": True})
    return out


def load_corpus():
    out = []
    for p in sorted(glob.glob(os.path.join(C.VERIF, "corpus", PROP, "*.json"))):
        obj = json.load(open(p))
        for c in (obj["cases"] if "cases" in obj else [obj]):
            c = dict(c); c["corpus"] = os.path.basename(p)
            out.append(c)
    return out


# ------------------------------------------------------------------ run
def run(rep, tier, rng):
    import importlib
    import ofxtools.utils as U
    import ofxtools.Types as T
    thorough = tier == "thorough"
    pst = pattern_state()
    deep = thorough or not all(v["unchanged"] for v in pst.values())
    rep.extra["regex_patterns"] = pst
    rep.extra["deep_setting"] = deep
    scale = 15 if thorough else 1
    cases = load_corpus()
    n_corpus = len(cases)
    # structured, mostly valid stream (property domain) and its single-field corruptions
    valid = [valid_conv_case(rng, False) for _ in range(3500 * scale)] + [valid_conv_case(rng, True) for _ in range(1200 * scale)]
    cases += valid
    for b in rng.sample(valid, 420 * scale):
        if b["expect"] is not None:
            cases += corrupt_cases(rng, b)
    cases += misc_conv_cases(rng, list(U.TZS), thorough)
    cases += foreign_digit_sweep()
    cases += bracket_enum_cases(rng, 5 if thorough else 3, 4000 if thorough else (4000 if deep else 600))
    # values: in-domain (1900-2200, whole minutes -12:00..+14:00) and beyond (years 1-9999, any whole-second offset)
    cases += [unconv_case(rng, False, True) for _ in range(3000 * scale)] + [unconv_case(rng, True, True) for _ in range(1000 * scale)]
    cases += [unconv_case(rng, False, False) for _ in range(1200 * scale)] + [unconv_case(rng, True, False) for _ in range(300 * scale)]
    # every offset in (-1h, 0] and a sweep of all 1561 whole-minute offsets once
    for offmin in range(-720, 841):
        c = unconv_case(rng, offmin % 5 == 0, True); c["offsec"] = offmin * 60
        cases.append(c)
    cases += naive_cases(rng)
    cases += dst_unconv_cases(rng, 300 * scale)
    cases += front_cases(rng, cases, 40 * scale)

    items, kept, seen = [], [], set()
    for c in cases:
        k = json.dumps({x: c[x] for x in c if x not in ("corpus",)}, sort_keys=True)
        if k in seen:
            continue
        seen.add(k)
        out, fails, item = evaluate(T, c)
        rep.failures.extend(fails)
        if item is not None:
            items.append(item); kept.append((c, out))
        kind = "%s%s:%s:%s" % (c["op"], "@" + c["via"] if c.get("via") else ("@" + c["tzkind"] if c.get("tzkind") in ("pep495", "zoneinfo") else ""), c["t"],
                               out[0] if c["op"] != "conv" else (out[0] + ("/" + c.get("cls", "valid") if c.get("cls") else "/valid")))
        rep.count(k, nontrivial=(out[0] == "ok"), kind=kind)
    for k in (0, n_corpus, len(kept) // 3, 2 * len(kept) // 3, len(kept) - 1):
        if 0 <= k < len(kept):
            c, out = kept[k]
            rep.sample({"case": {x: c[x] for x in c if x != "corpus"}, "implementation": out})
    rep.rule = ("corpus first; structured stream: calendar instants 1900-2200 (uniform + month/year ends, leap days, 23:59:59.999) x the four date-time / four time "
                "notations + date only x whole-minute offsets -12:00..+14:00 rendered signed/unsigned, with/without .MM, zero-padded or not x arbitrary zone names, each "
                "with the denoted instant computed from the generating fields by days-from-civil arithmetic; every listed single-field corruption of a sample "
                "(month 13/00, day 00/32, hour 24, minute 60, second 61, a letter in each digit position, one ASCII digit replaced by the same-valued decimal digit of another script (7 scripts; every position but the offset minutes), one digit dropped/doubled); aware values at "
                "sub-millisecond resolution incl. rounding edges x all 1561 whole-minute offsets x named/unnamed/name-less tzinfo, written, re-read by a strict "
                "reader and by the library (round trip); aware datetimes in date-dependent zones (hand-written PEP 495 tzinfo and zoneinfo zones) at and around both transitions, fold 0/1, +-1 ms and inside the last half millisecond; naive values both ways; front door: every valid date-time text and a third of the corruptions again through ofxget's convert_datetime (--start/--end/--asof), a few through ofxget main() stmt --dryrun reading <DTSTART> back (not model cases). Beyond the property's domain (correspondence only): years 1-9999, "
                "sub-minute offsets, quirk forms ([-:EST], any separator, trailing newline, non-ASCII decimal digits, int() digit limit), offset-bracket contents "
                "over 0 1 5 - + . : x E S T ] exhaustively to length %d plus %d longer samples. non-trivial = implementation returned a value; distinct by full case"
                % (5 if thorough else 3, 4000 if thorough else (4000 if deep else 600)))
    bad = C.coq_bad_indices(PROP, "dt", ["Base.Digits", "Model.Calendar", "Model.DateTimeM", "Model.DateTimeMCases", "Gen.DateTimeGen"],
                            "dcase_ok nd_zeros tzs", "dcase", items, shard=2000)
    for i in bad[:60]:
        c, out = kept[i]
        rep.disagreements.append({"case": {x: c[x] for x in c if x != "corpus"}, "implementation": out})
    rep.extra["disagreement_indices"] = len(bad)


def replay(obj):
    C.use_repo()
    import ofxtools.Types as T
    c = obj["replay"]
    c = {k: v for k, v in c.items() if k not in ("observed", "expected_us")}
    out, fails, _ = evaluate(T, c)
    print("replay %s -> %r" % (json.dumps(c, ensure_ascii=True), out))
    for f in fails:
        print("  property fails [%s]: %s" % (f.key, f.what))
    if fails:
        print("VIOLATION property=C09 replay=(this file)")
    return 1 if fails else 0
