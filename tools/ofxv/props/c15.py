"""C15 - the cached FI profile is always whole, the newest, and from the right server
(ofxtools/Client.py:472-547 request_profile, config DATADIR, scripts/ofxget.py:_queue_scans)."""
import os, io, re, json, glob, shutil, itertools, threading
from .. import common as C
from .. import client_harness as H
from ..translate_client import gen_client

PROP = "C15"
COQ_EXTRA = ["theories/Model/ProfileCacheCases.vo", "theories/Gen/ClientGen.vo"]
PARTIAL = [
    "POSIX semantics are assumptions of the model, not theorems: rename(2) is atomic, mkstemp never returns a name in use, a file opened for reading keeps its content, "
    "buffered data is lost on a kill and reaches the file at flush/close; the correspondence run checks them against the real file system of this machine only",
    "a crash is the death of the process between two steps (kill); loss of power after rename but before the data reached the disk is outside the model (the repair calls fsync before the rename for that reason)",
    "real threads, the GIL and preemption inside a step are not modelled: the scheduler is an arbitrary interleaving of the atomic steps; the harness drives real threads under an explicit schedule, one step at a time",
    "BufferedWriter's write-through above 8 KiB is not modelled (documents of the harness are ~3 KiB); parse/convert of a cache file is abstracted to a codec with dec (enc p) = Some p (hypothesis of every theorem)",
    "cache_not_shared_across_servers is proved under the explicit hypothesis that clients sharing (org, fid) share the URL; without it the statement is refuted (cache_shared_across_servers_refuted; finding 18)",
]
MANIFEST = {
    "engine": "ProfileCache",
    "text": "Theorems about the Gallina transcription of request_profile split into the steps the operating system sees (exists, open+read, network, mkstemp, write, flush, fsync, "
            "close, replace), for ANY number of concurrent calls, ANY interleaving, a kill between any two steps and an adversarial server, by invariant + induction over unbounded "
            "event sequences: the cache file is always absent or exactly one complete profile a server sent (cache_always_whole), a later request against a well-behaved server "
            "succeeds from every reachable state (later_request_never_poisoned), sequential histories return the newest profile sent, ask with the date held, leave the cache "
            "untouched on failure and never decrease its date (sequential_history), and a client only ever reads profiles its own server sent, given that clients sharing "
            "(org, fid) share the URL (cache_not_shared_across_servers). The old in-place protocol is refuted on the same model (cache_whole_refuted). The model is tied to "
            "Client.py by replaying the real call's logged file-system steps (every crash point, all interleavings of two writers' write steps, all server-behaviour sequences "
            "up to length 3-4) through it and comparing step names, cache content after every step, results and dates asked.",
    "note": "Partial: POSIX file semantics (atomic rename, unique temporary names, kill loses buffers), real threads and power-loss durability are assumptions of the model covered by "
            "the correspondence run (differential testing) only. Finding 17 (cache written in place) is repaired by fixes/C15-1; the model is of the REPAIRED protocol. Finding 18 "
            "(cache key ignores the URL) is recorded: theorem stated with the hypothesis, refutation lemma proved.",
}
KEY18 = "cache-shared-across-servers:clients with org=None, fid=None and different url"
KEYTEXT = "cache-shared-across-servers:different (org, fid) rendering to the same '<org>-<fid>' text"
STEPS = {"exists": "SExists", "openread": "SOpenRead", "net": "SNet", "mkstemp": "SMkstemp", "write": "SWrite", "flush": "SFlush", "fsync": "SFsync",
         "close": "SClose", "replace": "SReplace", "opentrunc": "SOpenTrunc", "kill": "SNone", "spawn": "SNone"}
URLS = ["https://fi0.example/ofx", "https://fi1.example/ofx"]
SVC = "https://svc.example/bank/%s"


def translate():
    H.setup_env("c15")
    return gen_client()


# ------------------------------------------------------------------ cases
def cfg_key(c):
    """cache key of a configuration [url, org index, fid index]: the file it renders to (what the model's key_of stands for)."""
    return H.model_key(c[1], c[2])


def cache_name(c):
    return H.cache_file(c[1], c[2])


class Gen:
    """builds cases; keeps the profile table of the case (id -> date, length rank)."""
    def __init__(self, rng, kind):
        self.rng, self.kind = rng, kind
        self.profiles = {}
        self.phases = []
        self.maxdate = {}        # url -> newest date sent
        self.last = {}           # url -> id of the last profile sent

    def new_profile(self, date, rank=None):
        pid = len(self.profiles) + 1
        self.profiles[str(pid)] = {"date": date, "len": self.rng.randrange(4) if rank is None else rank}
        return pid

    def behaviour(self, word, cfg, rank=None):
        u = cfg[0]
        if word == "newer":
            d = self.maxdate.get(u, 9) + 1
            pid = self.new_profile(d, rank)
        elif word == "same":
            if u in self.last:
                return ["profile", self.last[u]]
            pid = self.new_profile(self.maxdate.get(u, 10), rank)
        elif word == "older":
            pid = self.new_profile(self.maxdate.get(u, 10) - 1, rank)
        else:
            return {"uptodate": ["uptodate"], "errstatus": ["errstatus"], "garbage": ["garbage", self.rng.randrange(len(H.GARBAGE))], "transport": ["transport"]}[word]
        self.maxdate[u] = max(self.maxdate.get(u, 0), self.profiles[str(pid)]["date"])
        self.last[u] = pid
        return ["profile", pid]

    def call(self, cfg, word, kill_at=None, new_client=None, must=None, rank=None, via="profile"):
        """via: "profile" = request_profile() itself; "stmt" = the front door request_statements(), which fetches the profile through
        _get_service_urls() and then posts the statement to the URL that profile advertises."""
        return {"cfg": list(cfg), "b": self.behaviour(word, cfg, rank), "word": word, "kill_at": kill_at,
                "new_client": self.rng.random() < 0.5 if new_client is None else new_client, "must": must, "via": via}

    def seq(self, *calls):
        for c in calls:
            self.phases.append({"calls": [c], "schedule": None})

    def case(self, **extra):
        d = {"kind": self.kind, "profiles": self.profiles, "phases": self.phases}
        d.update(extra)
        return d


WORDS = ["newer", "same", "older", "uptodate", "errstatus", "garbage", "transport"]
CFG0 = (0, 1, 1)


def gen_sequences(rng, maxlen_all, n_sampled, sampled_len, frontdoor_len=2):
    out = []
    via = lambda: "stmt" if rng.random() < 0.35 else "profile"
    for n in range(1, maxlen_all + 1):
        for ws in itertools.product(WORDS, repeat=n):
            g = Gen(rng, "seq")
            g.seq(*[g.call(CFG0, w, via=via()) for w in ws])
            out.append(g.case(words=list(ws)))
    for _ in range(n_sampled):
        ws = [rng.choice(WORDS) for _ in range(rng.choice(sampled_len))]
        g = Gen(rng, "seq")
        g.seq(*[g.call(CFG0, w, via=via()) for w in ws])
        out.append(g.case(words=ws))
    # every call through the front door request_statements(): a newer profile first, then every behaviour sequence
    for n in range(1, frontdoor_len + 1):
        for ws in itertools.product(WORDS, repeat=n):
            g = Gen(rng, "seq-frontdoor")
            g.seq(*[g.call(CFG0, w, via="stmt") for w in ("newer", "newer") + ws])
            out.append(g.case(words=["newer", "newer"] + list(ws)))
    return out


def gen_crashes(rng):
    """a kill before every step (0..10) of a call that is about to accept a newer profile, from an empty and from a filled cache,
    followed by requests against a well-behaved server, which must succeed."""
    out = []
    for filled in (False, True):
        for word in ("newer", "same", "uptodate"):
            if word != "newer" and not filled:
                continue
            for k in range(0, 11):
                g = Gen(rng, "crash")
                if filled:
                    g.seq(g.call(CFG0, "newer", rank=2))
                g.seq(g.call(CFG0, word, kill_at=k, rank=rng.choice([0, 3])))
                g.seq(g.call(CFG0, "newer", must="after-crash"), g.call(CFG0, "uptodate", must="after-crash"))
                out.append(g.case(kill_at=k, filled=filled))
    return out


def gen_deaths(rng, kmax=18):
    """REAL process death (a subprocess that os._exit()s, so no exception handler, context manager or atexit hook runs and no buffer
    is flushed) right after the k-th file primitive that returns once the server's answer is in - whatever primitives the
    implementation uses - from an EMPTY cache directory and from a filled one; then a new client in a new process reads the cache."""
    out = []
    for filled in (False, True):
        for k in range(kmax):
            out.append({"kind": "process-death", "filled": filled, "k": k, "cfg": list(CFG0),
                        "profiles": {"1": {"date": 10, "len": 3}, "2": {"date": 11, "len": 0}, "3": {"date": 12, "len": 1}}})
    return out


def merges(a, b):
    """all interleavings of a copies of 0 and b copies of 1."""
    if a == 0:
        yield [1] * b
    elif b == 0:
        yield [0] * a
    else:
        for m in merges(a - 1, b):
            yield [0] + m
        for m in merges(a, b - 1):
            yield [1] + m


def gen_races(rng, scenarios, wsteps, full=False, sample=None):
    """two concurrent calls of one client (as _queue_scans runs them), both answered with a different newer profile of
    different length; all interleavings of their write steps after both have read the cache and got their answer
    (full=True: of ALL their steps)."""
    out = []
    for filled, first_longer in scenarios:
        pre = 3 if filled else 2                   # exists (+ open/read) + network
        scheds = list(merges(pre + wsteps, pre + wsteps)) if full else [[0] * pre + [1] * pre + m for m in merges(wsteps, wsteps)]
        if sample is not None and len(scheds) > sample:
            scheds = rng.sample(scheds, sample)
        for sch in scheds:
            g = Gen(rng, "race")
            if filled:
                g.seq(g.call(CFG0, "newer", rank=1))
            a = g.call(CFG0, "newer", new_client=False, rank=3 if first_longer else 0)
            b = g.call(CFG0, "newer", new_client=False, rank=0 if first_longer else 3)
            g.phases.append({"calls": [a, b], "schedule": sch})
            g.seq(g.call(CFG0, "uptodate", must="after-race"), g.call(CFG0, "newer", must="after-race"))
            out.append(g.case(filled=filled, first_longer=first_longer))
    return out


def gen_servers(rng, n):
    """pairs of clients with equal or different ORG/FID/URL."""
    out = []
    pairs = [("shared-none", (0, None, None), (1, None, None)),      # finding 18's input class
             ("same-fi", (0, 1, 1), (0, 1, 1)),
             ("other-fi-same-url", (0, 1, 1), (0, 2, 2)),
             ("other-fi-other-url", (0, 1, 1), (1, 2, 2)),
             ("none-same-url", (0, None, None), (0, None, None)),
             # identities as request_profile's path construction really meets them (H.ORGS / H.FIDS)
             ("dotted-org-other-fid", (0, 3, 3), (1, 3, 4)),          # fi.cfg: [ms] msdw.com/1235, [msbank] msdw.com/14137
             ("dashed-org-other-fid", (0, 4, 8), (1, 4, 5)),          # HFS-Cavion with two FIDs
             ("odd-characters", (0, 6, 6), (1, 8, 7)),                # BB&T/BB&T, 'T. Rowe Price'/SWBTX
             ("dots-and-unicode", (0, 9, 11), (1, 13, 11)),           # non-ASCII ORG, leading dot, FID 12.50
             ("dotted-org-dotted-fid", (0, 7, 11), (1, 7, 8)),        # tiaa-cref.org/12.50 vs tiaa-cref.org/0417
             ("same-text-other-pair", (0, 11, 9), (1, 12, 10))]       # ('a-b','c') and ('a','b-c') both render 'a-b-c.profrs'
    for _ in range(2 * n):
        # random pairs sharing the ORG, the FID, or nothing
        o1, f1 = rng.randrange(1, len(H.ORGS)), rng.randrange(1, len(H.FIDS))
        how = rng.choice(["org", "org", "fid", "none"])
        o2 = o1 if how == "org" else rng.randrange(1, len(H.ORGS))
        f2 = f1 if how == "fid" else rng.randrange(1, len(H.FIDS))
        if (o1, f1) != (o2, f2) and H.cache_file(o1, f1) != H.cache_file(o2, f2):
            pairs.append(("random-share-" + how, (0, o1, f1), (1, o2, f2)))
    for name, a, b in pairs:
        g = Gen(rng, "servers-" + name)
        g.seq(g.call(a, "newer"), g.call(b, "uptodate"), g.call(b, "newer"), g.call(a, "uptodate"))
        out.append(g.case())
        for _ in range(2 if name.startswith("random-") else n):
            g = Gen(rng, "servers-" + name)
            g.seq(*[g.call(rng.choice([a, b]), rng.choice(["newer", "newer", "same", "older", "uptodate", "uptodate", "errstatus", "transport"])) for _ in range(rng.choice([2, 3, 4, 5]))])
            out.append(g.case())
    return out


# ------------------------------------------------------------------ running one case on the implementation
def build_profiles(case):
    """real documents of the case's profiles; the length is a function of the length RANK alone (the date's zone text has 8 or 11
    characters and appears twice: compensated by the padding), so that in-place overwrites splice at the model's offsets."""
    table = {}
    mk = lambda n, tag, pad: H.make_profile(n, [("bank", SVC % tag, False)], tag=tag, pad=pad)      # each profile advertises its own service URL
    base = len(mk(0, "000", 0))
    for pid, p in case["profiles"].items():
        want = base + 6 + 7 * p["len"]
        b = mk(p["date"], "%03d" % int(pid), 6 + 7 * p["len"])
        b = mk(p["date"], "%03d" % int(pid), 6 + 7 * p["len"] - (len(b) - want))
        assert len(b) == want, (len(b), want)
        table[int(pid)] = b
    return table


def alpha(content, table, case):
    """real file content -> the model's tokens (enc_c): a content is a chain of segments of known documents whose boundaries
    are document lengths (that is all in-place writes at offset 0 can produce); anything else -> [999999]."""
    if content is None:
        return None
    if content == b"":
        return []
    mlen = {pid: 3 + case["profiles"][str(pid)]["len"] + 1 for pid in table}      # model length of enc_c: 3 header tokens + p_len
    bounds = {0: 0}
    for pid, b in table.items():
        bounds[len(b)] = mlen[pid]
    toks, pos = [], 0
    while pos < len(content):
        best = None
        for pid, b in table.items():
            n = 0
            m = min(len(b), len(content))
            while pos + n < m and content[pos + n] == b[pos + n]:
                n += 1
            end = pos + n
            # the segment must end at a boundary (a document length); cut it back to the last boundary it reaches
            ends = [e for e in bounds if pos < e <= end and (e == len(b) or e < len(b))]
            if ends and (best is None or max(ends) > best[2]):
                best = (pid, pos, max(ends))
        if best is None or pos not in bounds:
            return [999999]
        pid, s, e = best
        toks += enc_c(pid, case)[bounds[s]:bounds[e]]
        pos = e
    return toks


def enc_c(pid, case):
    p = case["profiles"][str(pid)]
    n = p["len"] + 1
    return [pid, p["date"], n] + [pid] * n


def classify(exc):
    if isinstance(exc, (ValueError, TypeError, SyntaxError)):
        return "reject"
    return "crash"


def run_death_case(case, workdir):
    """process-death exploration: no model observation (the model's kill is compared in the 'crash' cases); the property is judged:
    after the death the cache file is absent, the whole old or the whole new profile - never a torn one - and a later request
    by a new client against a well-behaved server succeeds."""
    L = H.lib()
    shutil.rmtree(workdir, ignore_errors=True)
    cachedir = H.set_datadir(workdir)
    table = build_profiles(case)
    cfg = case["cfg"]; name = cache_name(cfg); url = URLS[cfg[0]]
    fails = []
    new_client = lambda: L.OFXClient(url, org=H.org_str(cfg[1]), fid=H.fid_str(cfg[2]))
    if case["filled"]:
        with H.FakeNet(lambda rq: H.Resp(body=table[1])):
            new_client().request_profile()
    path = os.path.join(cachedir, name)
    before = open(path, "rb").read() if os.path.exists(path) else None
    body_file = os.path.join(workdir, "answer.bin")
    with open(body_file, "wb") as f:
        f.write(table[2])
    env = {k: os.environ[k] for k in ("XDG_DATA_HOME", "XDG_CONFIG_HOME", "XDG_CACHE_HOME", "HOME")}
    # the system temp directory on ANOTHER file system than the cache directory (a cross-device move copies over the live file);
    # where the machine has no second writable file system, cross-directory renames fail with EXDEV in the child instead
    xdev = H.other_device_dir(cachedir if os.path.isdir(cachedir) else workdir, "c15d")
    try:
        rc, out = H.run_death_child({"env": env, "datadir": workdir, "body_file": body_file, "url": url, "cfg": cfg, "k": case["k"],
                                     "tmpdir": xdev, "fake_exdev": xdev is None}, workdir)
    finally:
        if xdev: shutil.rmtree(xdev, ignore_errors=True)
    if rc not in (0, 77):
        raise RuntimeError("process-death child failed (%d): %s" % (rc, out[-1500:]))
    after = open(path, "rb").read() if os.path.exists(path) else None
    died = rc == 77
    where = out.strip().splitlines()[-1] if out.strip() else ""
    ok_contents = [None, table[2]] + ([before] if before is not None else [])
    if after not in ok_contents:
        fails.append(("cache-not-whole:crash-leaves-truncated-file",
                      "the process died (%s) while request_profile stored the first answer%s: %s now holds %d bytes - neither the old profile, nor the new one (%d bytes), nor absent"
                      % (where, " over a cached profile" if case["filled"] else " in an EMPTY cache directory", name, len(after), len(table[2])), {"k": case["k"]}))
    if not died and after != table[2]:
        fails.append(("cache-not-updated", "request_profile returned normally but %s does not hold the profile just accepted" % name, {"k": case["k"]}))
    # a new client (fresh object; the cache is all that survives the process) asks again; the server behaves
    for word, body in (("uptodate", H.make_status_only(1)) if after is not None else ("newer", table[3]), ("newer", table[3])):
        try:
            with H.FakeNet(lambda rq: H.Resp(body=body)):
                data = new_client().request_profile().read()
            if data not in table.values():
                fails.append(("returns-mixed-content", "after the death (%s) a later request returned %d bytes that are no complete profile" % (where, len(data)), {"k": case["k"]}))
        except Exception as e:
            fails.append(("cache-poisoned:later-request-fails-after-crash",
                          "after the process died (%s) a later request by a new client against a well-behaved server (%s) failed with %s: %s holds %s"
                          % (where, word, type(e).__name__, name, "nothing" if after is None else "%d bytes" % len(after)), {"k": case["k"]}))
            break
    return {"death": {"died": died, "where": where, "after": None if after is None else ("new" if after == table[2] else ("old" if after == before else "torn"))}}, fails


def run_case(case, workdir):
    """-> (observation for the model, failures of the property on the implementation)."""
    if case.get("kind") == "process-death":
        return run_death_case(case, workdir)
    L = H.lib()
    shutil.rmtree(workdir, ignore_errors=True)
    cachedir = H.set_datadir(workdir)
    os.makedirs(cachedir, exist_ok=True)
    table = build_profiles(case)
    ids = {b: pid for pid, b in table.items()}
    world = H.FsWorld(cachedir)
    calls = []                       # flattened, call number = index
    for ph in case["phases"]:
        for c in ph["calls"]:
            c["_n"] = len(calls)
            calls.append(c)
    clients = {}
    results = {}                     # call -> ("ok", bytes) | ("reject"/"crash", name) | None (killed)
    asked = []                       # (call, n or None) in order
    asked_text = {}                  # call -> the DTPROFUP text it sent
    stmt_url = {}                    # front-door call -> where its statement request went
    sent = {}                        # url -> [pid] delivered with status 0, in order
    sent_key = {}                    # (url, cache key) -> [pid]: what that server sent to clients of that institution (baseline reset after a crash / a race)
    fails = []

    def fail(key, what, **extra):
        fails.append((key, what, extra))

    def client_for(c):
        k = tuple(c["cfg"])
        if c["new_client"] or k not in clients:
            clients[k] = L.OFXClient(URLS[k[0]], org=H.org_str(k[1]), fid=H.fid_str(k[2]))
        return clients[k]

    def responder(rq):
        n = world.tid_of[threading.get_ident()]
        if b"<PROFRQ>" not in (rq.body or b""):      # the statement request of a front-door call: no step of the cache protocol
            stmt_url[n] = rq.url
            return H.Resp(body=b"STATEMENT")
        world.step("net")
        c = calls[n]
        try:
            dtp = H.read_request(rq.body)[3]
        except Exception:
            dtp = -1
        asked.append((n, dtp))
        m_ = re.search(rb"<DTPROFUP>([^<\r\n]*)", rq.body or b"")
        asked_text[n] = m_.group(1).decode("ascii", "replace") if m_ else None
        b = c["b"]
        world.snap()
        if b[0] == "transport":
            return H.Resp(transport=False)
        if b[0] == "profile":
            sent.setdefault(rq.url, []).append(b[1])
            sent_key.setdefault((rq.url, cfg_key(c["cfg"])), []).append(b[1])
            return H.Resp(body=table[b[1]])
        if b[0] == "uptodate":
            return H.Resp(body=H.make_status_only(1))
        if b[0] == "errstatus":
            return H.Resp(body=H.make_status_only(2000))
        return H.Resp(body=H.GARBAGE[b[1]])

    def do_call(c, sched=None):
        n = c["_n"]
        world.register(n)
        try:
            cl = client_for(c)
            if c.get("via") == "stmt":
                cl.bankid = "123456789"
                cl.request_statements("pw-1-secret", L.Client.StmtRq(acctid="1", accttype="CHECKING")).read()
                by_url = {SVC % ("%03d" % pid): data for pid, data in table.items()}
                # the profile the call worked with = the one whose service URL the statement went to
                results[n] = ("ok", by_url.get(stmt_url.get(n), b"statement sent to %s" % str(stmt_url.get(n)).encode()))
            else:
                r = cl.request_profile()
                results[n] = ("ok", r.read())
        except H.HarnessKill:
            results[n] = None
        except Exception as e:
            results[n] = (classify(e), type(e).__name__)
        finally:
            if sched is not None:
                sched.finish(n)

    events = []                      # model events, aligned with world.log afterwards
    whole = lambda data: data is None or data in ids
    import tempfile
    saved_tmp = (tempfile.tempdir, os.environ.get("TMPDIR"))
    xdev = H.other_device_dir(cachedir, "c15")        # the system temp directory on another file system than the cache, if this machine has one
    if xdev:
        tempfile.tempdir = xdev; os.environ["TMPDIR"] = xdev
    try:
        return _run_case_body(case, world, responder, do_call, calls, results, asked, asked_text, sent, sent_key, ids, table, fails, fail, whole, cachedir)
    finally:
        tempfile.tempdir = saved_tmp[0]
        if saved_tmp[1] is None: os.environ.pop("TMPDIR", None)
        else: os.environ["TMPDIR"] = saved_tmp[1]
        if xdev: shutil.rmtree(xdev, ignore_errors=True)


def _run_case_body(case, world, responder, do_call, calls, results, asked, asked_text, sent, sent_key, ids, table, fails, fail, whole, cachedir):
    with H.FakeNet(responder) as net, world:
        for ph in case["phases"]:
            log0 = len(world.log)
            before = world.snapshot()
            for c in ph["calls"]:
                if c["kill_at"] is not None:
                    world.kill_at[c["_n"]] = c["kill_at"]
            if ph["schedule"] is None:
                world.sched = None
                do_call(ph["calls"][0])
            else:
                tids = [c["_n"] for c in ph["calls"]]
                world.sched = sched = H.Sched(tids)
                ths = [threading.Thread(target=do_call, args=(c, sched), daemon=True) for c in ph["calls"]]
                for t in ths:
                    t.start()
                for k in ph["schedule"]:
                    sched.grant(tids[k])
                for t_ in tids:
                    while sched.grant(t_):
                        pass
                for t in ths:
                    t.join(60)
                world.sched = None
            # ---------------- the property on this phase ----------------
            after = world.snapshot()
            for c in ph["calls"]:
                n = c["_n"]; name = cache_name(c["cfg"]); url = URLS[c["cfg"][0]]; res = results.get(n)
                b0, a0 = before.get(name), after.get(name)
                steps = [e for e in world.log[log0:] if e[0] == n]
                concurrent = ph["schedule"] is not None
                # wholeness: at the end of the phase, and after every step of it (a kill or a concurrent call can observe any of them)
                bad = None
                if not whole(b0):
                    pass                         # damaged before this phase began: reported when it happened
                elif not whole(a0):
                    bad = ("the phase", a0)
                else:
                    for e in world.log[log0:]:
                        d = e[2].get(name) if e[2] is not None else None
                        if not whole(d) and (concurrent or c["kill_at"] is not None):
                            bad = ("step %s of call %d" % (e[1], e[0]), d)
                            break
                if bad is not None:
                    how = ("concurrent-writers-interleave" if concurrent else
                           ("crash-leaves-truncated-file" if c["kill_at"] is not None else "holds-something-that-is-not-a-profile-sent"))
                    fail("cache-not-whole:" + how, "after %s the cache file %s holds %d bytes that are not one complete profile the server sent (%s)"
                         % (bad[0], name, len(bad[1]), "empty" if bad[1] == b"" else "mixed, truncated or not a profile"), call=n)
                if c["must"] and (res is None or res[0] != "ok"):
                    fail("cache-poisoned:later-request-fails-" + c["must"], "a request against a well-behaved server (%s) failed with %s: the cache file holds %s"
                         % (c["word"], res and res[1], "nothing" if b0 is None else ("0 bytes" if b0 == b"" else "%d bytes, %s" % (len(b0), "a whole profile" if whole(b0) else "not a whole profile"))), call=n)
                if not whole(b0):
                    continue                     # already reported when it happened
                held = ids.get(b0)
                mine = [a for a in asked if a[0] == n]
                if mine and not concurrent:
                    want = None if held is None else case["profiles"][str(held)]["date"]
                    if mine[0][1] != want:
                        fail("asked-with-wrong-date", "call %d sent <DTPROFUP>%s while the profile it holds is dated %s: not the same instant (the date sent must be exactly the date held)"
                             % (n, asked_text.get(n), "nothing (expected the 1990 placeholder)" if want is None else H.date_of(want).isoformat(timespec="milliseconds")), call=n)
                if res is not None and res[0] == "ok":
                    pid = ids.get(res[1])
                    if pid is None:
                        fail("returns-mixed-content", "call %d returned %d bytes that are not one complete profile" % (n, len(res[1])), call=n)
                    else:
                        own = sent.get(url, [])
                        if pid not in own:
                            twins = [cc for cc in calls if cache_name(cc["cfg"]) == name and tuple(cc["cfg"][1:]) != tuple(c["cfg"][1:])]
                            key = (KEY18 if (c["cfg"][1] is None and c["cfg"][2] is None) else
                                   (KEYTEXT if twins else "cache-shared-across-servers:other"))
                            fail(key, "call %d of the client for %s returned profile %d, which that server never sent (it was cached from another server; this client's own cache file is %s)"
                                 % (n, url, pid, name), call=n)
                        elif not concurrent:
                            newest = None
                            for q in sent_key.get((url, cfg_key(c["cfg"])), []):
                                if newest is None or case["profiles"][str(q)]["date"] >= case["profiles"][str(newest)]["date"]:
                                    newest = q
                            if newest is not None and pid != newest:
                                fail("returns-not-newest", "call %d returned profile %d but the newest the server has sent is %d" % (n, pid, newest), call=n)
                elif res is not None and not concurrent:
                    if a0 != b0:
                        fail("failed-call-changed-cache", "call %d failed (%s) and the cache file changed" % (n, res[1]), call=n)
                if whole(a0) and a0 is not None and b0 is not None and not concurrent:
                    if case["profiles"][str(ids[a0])]["date"] < case["profiles"][str(ids[b0])]["date"]:
                        fail("cache-date-decreased", "call %d replaced a profile dated %d by one dated %d" % (n, case["profiles"][str(ids[b0])]["date"], case["profiles"][str(ids[a0])]["date"]), call=n)
            # the crash / concurrency clause demands wholeness and liveness, not an order between racing or dying writers
            # (DESIGN.md section 9): what the cache holds after such a phase is the baseline of the sequential clause from here on
            if ph["schedule"] is not None or any(c["kill_at"] is not None for c in ph["calls"]):
                for c in ph["calls"]:
                    a0 = after.get(cache_name(c["cfg"]))
                    sent_key[(URLS[c["cfg"][0]], cfg_key(c["cfg"]))] = [ids[a0]] if a0 in ids else []
        final = world.snapshot()
    # ---------------- observation for the model ----------------
    obs, evs, spawned = [], [], 0
    name_key = {cache_name(c["cfg"]): cfg_key(c["cfg"]) for c in calls}
    by_phase_start = {}
    for ph in case["phases"]:
        by_phase_start[ph["calls"][0]["_n"]] = [c["_n"] for c in ph["calls"]]

    def caches(snapshot):
        out = []
        for nm, data in sorted(snapshot.items()):
            if nm in name_key:
                out.append((name_key[nm], alpha(data, table, case)))
        return out
    first_seen = set()
    last_snap = {}
    for tid, nm, snapshot in world.log:
        # spawn the calls of a phase when its first step shows up (spawning touches no file)
        for start, group in by_phase_start.items():
            if tid in group and start not in first_seen:
                first_seen.add(start)
                for n in group:
                    evs.append(("spawn", n)); obs.append(("spawn", caches(last_snap)))
        snapshot = snapshot if snapshot is not None else last_snap
        last_snap = snapshot
        evs.append(("kill", tid) if nm == "kill" else ("step", tid))
        obs.append((nm, caches(snapshot)))
    # calls that never performed a step (cannot happen: exists() is always reached) are spawned at the end
    for c in calls:
        if not any(e[1] == c["_n"] for e in evs if e[0] == "spawn"):
            evs.append(("spawn", c["_n"])); obs.append(("spawn", caches(last_snap)))
    tmps = []
    for nm, data in sorted(final.items()):
        if nm not in name_key:
            tmps.append((world.tmp_owner.get(nm, 999), alpha(data, table, case)))
    out_results = []
    for c in calls:
        r = results.get(c["_n"])
        out_results.append(None if r is None else (("ok", ids.get(r[1], 999999)) if r[0] == "ok" else (r[0], r[1])))
    spawn_order = [e[1] for e in evs if e[0] == "spawn"]
    return {"events": evs, "obs": obs, "results": out_results, "asked": asked, "tmps": tmps, "spawn_order": spawn_order,
            "steps": [[t, n] for t, n, _ in world.log]}, fails


# ------------------------------------------------------------------ Coq encoding
def c_optn(x): return "None" if x is None else "(Some %d)" % (x if x >= 0 else 999999)
def c_key(k): return "(%s,%s)" % (c_optn(k[0]), c_optn(k[1]))
def c_bytes(t): return C.clist("%d" % x for x in t)


def c_behaviour(case, b):
    if b[0] == "profile":
        p = case["profiles"][str(b[1])]
        return "(BProfile (Profile %d %d %d%%nat))" % (b[1], p["date"], p["len"] + 1)
    return {"uptodate": "BUpToDate", "errstatus": "BErrorStatus", "garbage": "BGarbage", "transport": "BTransport"}[b[0]]


def c_case(case, obs):
    calls = [c for ph in case["phases"] for c in ph["calls"]]
    # model call numbers are positions in spawn order
    pos = {n: i for i, n in enumerate(obs["spawn_order"])}
    evs = []
    for kind, n in obs["events"]:
        c = calls[n]
        if kind == "spawn":
            k = cfg_key(c["cfg"])
            evs.append("(ESpawn (Cfg %d %s %s))" % (c["cfg"][0], c_optn(k[0]), c_optn(k[1])))
        elif kind == "kill":
            evs.append("(EKill %d%%nat)" % pos[n])
        else:
            evs.append("(EStep %d%%nat %s)" % (pos[n], c_behaviour(case, c["b"])))
    ob = C.clist("(%s, %s)" % (STEPS.get(nm, "SNone") if nm in STEPS else "SNone", C.clist("(%s, %s)" % (c_key(k), c_bytes(t)) for k, t in cs if t is not None))
                 for nm, cs in obs["obs"])
    res = []
    for n in obs["spawn_order"]:
        r = obs["results"][n]
        res.append("None" if r is None else ("(Some (OK %d))" % r[1] if r[0] == "ok" else "(Some (Err %s))" % ("Reject" if r[0] == "reject" else "Crash")))
    asked = C.clist("(%d%%nat, %s)" % (pos[n], c_optn(d)) for n, d in obs["asked"])
    tmps = C.clist("(%d%%nat, %s)" % (pos.get(n, 999), c_bytes(t)) for n, t in obs["tmps"])
    return "CCase %s %s %s %s %s" % (C.clist(evs), ob, C.clist(res), asked, tmps)


# ------------------------------------------------------------------ the run
def run(rep, tier, rng):
    root = H.setup_env("c15")
    try:
        _run(rep, tier, rng)
    finally:
        _cleanup(root)


def _run(rep, tier, rng):
    thorough = tier == "thorough"
    cases = []
    for p in sorted(glob.glob(os.path.join(C.VERIF, "corpus", PROP, "*.json"))):
        cases.append(json.load(open(p))["case"])
    if thorough:
        cases += gen_sequences(rng, 4, 2500, [5, 6])
        cases += gen_crashes(rng)
        cases += gen_deaths(rng, 30)
        cases += gen_races(rng, [(False, True), (False, False), (True, True), (True, False)], 6)
        cases += gen_races(rng, [(False, True)], 6, full=True, sample=3500)
        cases += gen_servers(rng, 60)
    else:
        cases += gen_sequences(rng, 3, 150, [4])
        cases += gen_crashes(rng)
        cases += gen_deaths(rng)
        cases += gen_races(rng, [(False, True), (True, False)], 6, sample=160)
        cases += gen_servers(rng, 8)
    results = H.pmap(run_case, cases, "c15", chunk=6)
    items, kept, deaths = [], [], []
    for i, case in enumerate(cases):
        obs, fails = results[i]
        for key, what, extra in fails:
            rep.failures.append(C.Failure(key, what, {"case": case, "at": extra}))
        if "death" in obs:
            rep.count(json.dumps(case, sort_keys=True), nontrivial=obs["death"]["died"], kind="process-death:" + ("died-" + str(obs["death"]["after"]) if obs["death"]["died"] else "completed"))
            deaths.append(obs["death"])
            continue
        items.append(c_case(case, obs)); kept.append((case, obs))
        rep.count(json.dumps(case, sort_keys=True), nontrivial=any(r is not None and r[0] == "ok" for r in obs["results"]), kind=case["kind"])
        if i in (0, len(cases) // 2, len(cases) - 1) and "steps" in obs:
            rep.sample({"case": {k: v for k, v in case.items() if k != "profiles"}, "implementation": {"steps": obs["steps"][:40], "results": obs["results"], "asked": obs["asked"]}})
    rep.rule = ("corpus first; (a) every sequence of server behaviours {newer, same, older, up-to-date, error status, garbage, transport error} up to length 3 (thorough: 4) "
                "plus sampled longer ones, each call on a fresh or the same client object; (b) a kill before every file-system/network step of a call that is about to rewrite the "
                "cache (empty and filled cache), followed by requests against a well-behaved server; (c) two concurrent calls of one client answered with profiles of different "
                "length, stepped in real threads under every interleaving of their write steps (thorough: four length/cache scenarios, plus sampled interleavings of ALL their steps); (d) pairs of clients with "
                "equal/different ORG/FID/URL. Each run is judged by an independent oracle for the property (whole, newest, date asked, untouched on failure, never poisoned, right "
                "server) and its logged steps are replayed through the Gallina model (vm_compute) comparing step names, cache content after every step, results, dates asked and "
                "leftover temporary files. non-trivial = some call returned a profile; distinct by the whole case")
    rep.extra["process_death"] = {"runs": len(deaths), "died": sum(1 for d in deaths if d["died"]),
                                  "points": sorted({d["where"].split(":")[-1] for d in deaths if d["died"]}),
                                  "cache_after_death": {k: sum(1 for d in deaths if d["died"] and d["after"] == k) for k in (None, "old", "new", "torn")}}
    if deaths and not any(d["died"] for d in deaths):
        rep.broken.append("process-death exploration: no file primitive was seen after the server's answer (the harness no longer observes how the cache is written)")
    bad = C.coq_bad_indices(PROP, "cache", ["Model.ProfileCache", "Model.ProfileCacheCases"], "ccase_ok", "ccase", items, shard=120 if thorough else 60)
    for i in bad[:50]:
        rep.disagreements.append({"case": kept[i][0], "implementation": {k: v for k, v in kept[i][1].items() if k in ("steps", "results", "asked", "tmps")}})


def _cleanup(root):
    shutil.rmtree(root, ignore_errors=True)
    shutil.rmtree(os.path.join(C.BUILD, "scratch", "c15"), ignore_errors=True) if not glob.glob(os.path.join(C.BUILD, "scratch", "c15", "*")) else None


def replay(obj):
    H.setup_env("c15-replay")
    case = obj["replay"]["case"] if "replay" in obj else obj["case"]
    obs, fails = run_case(case, os.path.join(C.BUILD, "scratch", "c15-replay", "d"))
    print("steps performed:", " ".join("%d:%s" % (t, n) for t, n in obs["steps"]) if "steps" in obs else obs)
    for key, what, extra in fails:
        print("property fails: [%s] %s" % (key, what))
    want = obj.get("key")
    bad = [f for f in fails if want is None or f[0] == want]
    if bad:
        print("VIOLATION property=C15 replay=(this file)")
    return 1 if bad else 0
