"""C17 - parsing, converting and writing are pure, repeatable and safe to run in threads.

Engine `Dispatch` (coq/theories/Model/Dispatch.v): the functools.singledispatch machinery behind
DateTime.unconvert - the one piece of shared state the library mutates at run time
(ofxtools/Types.py:613-616, normalize_to_gmt re-registers a bound handler on every string conversion).

The run has two parts, both executed in FRESH subprocesses (`python -m ofxv.props.c17 <mode>`, PYTHONPATH=<repo>)
so that every observation starts from the import-time state of the library:

 (a) dispatch correspondence: random workloads (string conversions, unconversions, Time operations by up to 6
     DateTime instances, sequential or under an explicit schedule of atomic steps) executed on the real classes;
     registry and dispatch cache are read by introspection after every event and compared with the Gallina model
     evaluated by vm_compute.  Uninterrupted operations go through the real API; the atomic steps of an interleaved
     thread are a HARNESS RE-ENACTMENT (the three statements of functools.dispatch / the two of register, performed
     on the real registry dict, the real WeakKeyDictionary and the real handler objects).

 (b) the property predicate on the implementation (differential testing, no model involved): every call
     (parse, convert, from_etree, groom, ungroom, to_etree, tostring, tostring_unclosed_elements, client serialize) on a
     pool of documents, element trees and model instances is (i) bracketed by deep snapshots of its input,
     (ii) compared with the answer obtained first in a clean process, after adversarial histories, under rotation of
     the order and under repetition, (iii) repeated in 1,2,4,8,16 real threads (barrier, switch interval 1e-6) while
     other threads hammer DateTime string conversions.
"""
import os, sys, json, subprocess, hashlib, glob, re
from concurrent.futures import ThreadPoolExecutor
from .. import common as C

PROP = "C17"
COQ_EXTRA = ["theories/Model/DispatchCases.vo", "theories/Gen/DispatchGen.vo"]
PARTIAL = [
    "mutation of CPython objects (source bytes, element trees, model instances), state in other module globals and behaviour under real "
    "threads / the GIL cannot be exhibited by any Gallina model: covered by the purity run only (snapshots before/after every call, clean-process "
    "baselines, adversarial histories, 1..16 threads) - differential testing, not proof",
    "the theorems are about the singledispatch registry/cache of DateTime.unconvert, transcribed by hand from CPython 3.12 functools.py; what "
    "_unconvert_datetime computes is a parameter fmt; explicit hypothesis: the interpreter rebinds a registered bound method to the calling instance "
    "(true on CPython 3.11+, measured on every run) or fmt ignores self (measured: table over 6 instances x 11 values)",
    "the atomic steps are the dictionary reads/writes of functools.dispatch/register (GIL granularity); interleavings inside a single dict operation "
    "or in free-threaded builds are not modelled; the interleaved part of the correspondence is a harness re-enactment on the real objects",
    "the convert dispatcher (never registered on after import) and Time's own dispatchers are not modelled; a source tie fails closed if any other "
    "run-time register() call appears in ofxtools/Types.py",
]
MANIFEST = {
    "engine": "Dispatch",
    "text": "Theorems (Coq, unbounded histories / thread counts / schedules / instances, closed under the global context): the run-time "
            "re-registration performed by DateTime.normalize_to_gmt never adds or removes a registry key; after any history, and at any point of "
            "any interleaving of the atomic steps of register and dispatch by any number of threads, every handler that dispatch returns - stale "
            "cache entries included - answers every (caller, value) like the import-time handler, and every completed unconvert equals a stateless "
            "function of its own arguments (hypothesis, explicit and measured on every run: the interpreter rebinds a registered bound method to "
            "the calling instance, as CPython 3.11+ does, or _unconvert_datetime ignores self). The model is tied to ofxtools/Types.py by a "
            "fail-closed source check and by evaluating it (vm_compute) against registry/cache introspection of the real classes after every "
            "event of ~2*10^3 (thorough 3*10^4) random workloads. Purity of parse/convert/serialize on CPython objects is established by "
            "differential testing only (see level_note).",
    "note": "Proved: registry_keys_constant, dispatch_history_independent, dispatch_interleaving_independent, model_functions_total_on_inputs "
            "(the stateful dispatch machine refines a stateless specification). NOT provable in any Gallina model and covered by the correspondence / "
            "purity run only (differential testing): that the implementation leaves its inputs unmodified (snapshots around ~2*10^4 calls, thorough 10^5), "
            "keeps no other hidden state (clean-process baselines vs rotated orders, random histories, inputs held across other work, repetition) and is "
            "unaffected by real threads (1..16 threads + re-registering hammer threads). Trusted: Coq kernel + vm_compute; the hand transcription "
            "Model/Dispatch.v of functools.singledispatch; the harness (introspection of closure cells; interleaved steps are re-enacted on the real "
            "objects). Print Assumptions: closed under the global context.",
}

TOOLS = os.path.join(C.VERIF, "tools")
GEN = os.path.join(C.THEORIES, "Gen", "DispatchGen.v")
REG_LINE = "self.unconvert.register(datetime.datetime, self._unconvert_datetime)"

# ------------------------------------------------------------------ shared vocabulary (main process and workers)
REQ = [False, True, False, True, False, False]          # `required` of the 6 DateTime instances of a dispatch case
# (string, does the conversion get as far as normalize_to_gmt)
STRS = [("20240229123456.789[-5:EST]", True), ("20051029", True), ("garbage", False), ("20241301", False),
        ("00010101000000[+5]", True),          # registers, then OverflowError in the subtraction
        ("20240229123456.789[-:XXX]", False),  # ValueError in parse_gmt_offset
        ("20240229123456.789[-:EST]", True), ("", False)]
# value pool: index -> class code (ty_code of Model/Dispatch.v); objects built by mk_vals() in the worker
VTY = [4, 0, 1, 2, 2, 2, 3, 3, 5, 6, 2]
NTIMEOPS = 4


def mk_vals():
    import datetime

    class DS(datetime.datetime):
        pass
    tz = datetime.timezone(datetime.timedelta(hours=5, minutes=30), "IST")
    utc = datetime.timezone.utc
    vals = [None, object(), datetime.date(2020, 1, 2), datetime.datetime(2024, 2, 29, 12, 34, 56, 789000, tzinfo=utc),
            datetime.datetime(1999, 12, 31, 23, 59, 59, tzinfo=tz), datetime.datetime(2020, 1, 1),
            DS(2021, 6, 7, 8, 9, 10, tzinfo=utc), DS(2021, 6, 7), "x", 3,
            datetime.datetime(2024, 12, 31, 23, 59, 59, 999999, tzinfo=utc)]
    codes = {object: 0, datetime.date: 1, datetime.datetime: 2, DS: 3, type(None): 4, str: 5, int: 6}
    assert [codes[type(v)] for v in vals] == VTY
    return vals, codes


V1H = ("OFXHEADER:100\r\nDATA:OFXSGML\r\nVERSION:102\r\nSECURITY:NONE\r\nENCODING:USASCII\r\nCHARSET:1252\r\n"
       "COMPRESSION:NONE\r\nOLDFILEUID:NONE\r\nNEWFILEUID:NONE\r\n\r\n")
V2H = ('<?xml version="1.0" encoding="UTF-8" standalone="no"?>\n'
       '<?OFX OFXHEADER="200" VERSION="203" SECURITY="NONE" OLDFILEUID="NONE" NEWFILEUID="NONE"?>\n')
SONRS1 = ("<SIGNONMSGSRSV1><SONRS><STATUS><CODE>0<SEVERITY>INFO</STATUS><DTSERVER>20051029101003.123[-5:EST]<LANGUAGE>ENG"
          "<FI><ORG>NCH<FID>1001</FI>%s</SONRS></SIGNONMSGSRSV1>")
SONRS2 = ("<SIGNONMSGSRSV1><SONRS><STATUS><CODE>0</CODE><SEVERITY>INFO</SEVERITY></STATUS><DTSERVER>20051029101003</DTSERVER>"
          "<LANGUAGE>ENG</LANGUAGE><FI><ORG>NCH</ORG><FID>1001</FID></FI>%s</SONRS></SIGNONMSGSRSV1>")
STMT1 = ("<BANKMSGSRSV1><STMTTRNRS><TRNUID>1001<STATUS><CODE>0<SEVERITY>INFO</STATUS><STMTRS><CURDEF>USD"
         "<BANKACCTFROM><BANKID>121099999<ACCTID>999988<ACCTTYPE>CHECKING</BANKACCTFROM>"
         "<BANKTRANLIST><DTSTART>20051001<DTEND>20051028"
         "<STMTTRN><TRNTYPE>CHECK<DTPOSTED>20051004<TRNAMT>-200.00<FITID>00002<CHECKNUM>1000%s</STMTTRN>"
         "<STMTTRN><TRNTYPE>ATM<DTPOSTED>20051020<DTUSER>20051020<TRNAMT>-300.00<FITID>00003<NAME>Café &amp; Co</STMTTRN>"
         "</BANKTRANLIST><LEDGERBAL><BALAMT>200.29<DTASOF>20051029112000</LEDGERBAL>"
         "<AVAILBAL><BALAMT>200.29<DTASOF>20051029112000.000[-5:EST]</AVAILBAL></STMTRS></STMTTRNRS></BANKMSGSRSV1>")
SECLIST = ("<SECLISTMSGSRSV1><SECLIST>"
           "<MFINFO><SECINFO><SECID><UNIQUEID>744316100</UNIQUEID><UNIQUEIDTYPE>CUSIP</UNIQUEIDTYPE></SECID><SECNAME>Fund</SECNAME>"
           "<TICKER>FND</TICKER></SECINFO><MFTYPE>OPENEND</MFTYPE><YIELD>5.0</YIELD><DTYIELDASOF>20030501</DTYIELDASOF>"
           "<MFASSETCLASS><PORTION><ASSETCLASS>DOMESTICBOND</ASSETCLASS><PERCENT>15</PERCENT></PORTION><PORTION>"
           "<ASSETCLASS>INTLBOND</ASSETCLASS><PERCENT>85</PERCENT></PORTION></MFASSETCLASS></MFINFO>"
           "<STOCKINFO><SECINFO><SECID><UNIQUEID>123456789</UNIQUEID><UNIQUEIDTYPE>CUSIP</UNIQUEIDTYPE></SECID><SECNAME>Acme</SECNAME>"
           "<TICKER>ACME</TICKER><INTU.SECX>9</INTU.SECX></SECINFO><STOCKTYPE>COMMON</STOCKTYPE><YIELD>10</YIELD>"
           "<DTYIELDASOF>20030501120000.000[-5:EST]</DTYIELDASOF><ASSETCLASS>SMALLSTOCK</ASSETCLASS></STOCKINFO>"
           "<OPTINFO><SECINFO><SECID><UNIQUEID>000342222</UNIQUEID><UNIQUEIDTYPE>CUSIP</UNIQUEIDTYPE></SECID><SECNAME>Opt</SECNAME>"
           "</SECINFO><OPTTYPE>CALL</OPTTYPE><STRIKEPRICE>35.00</STRIKEPRICE><DTEXPIRE>20050121</DTEXPIRE><SHPERCTRCT>100</SHPERCTRCT>"
           "</OPTINFO></SECLIST></SECLISTMSGSRSV1>")
MAILD = ("<EMAILMSGSRSV1><MAILTRNRS><TRNUID>77</TRNUID><STATUS><CODE>0</CODE><SEVERITY>INFO</SEVERITY></STATUS><MAILRS>"
         "<MAIL><USERID>jdoe</USERID><DTCREATED>19990909110000</DTCREATED><FROM>jdoe</FROM><TO>bank</TO><SUBJECT>Hi</SUBJECT>"
         "<MSGBODY><![CDATA[<b>hello</b> & goodbye]]></MSGBODY><INCIMAGES>N</INCIMAGES><USEHTML>Y</USEHTML></MAIL></MAILRS>"
         "</MAILTRNRS></EMAILMSGSRSV1>")
XMLS = {   # element trees built with ET.fromstring (not by the library's parser)
    "mfinfo": "<MFINFO><SECINFO><SECID><UNIQUEID>744316100</UNIQUEID><UNIQUEIDTYPE>CUSIP</UNIQUEIDTYPE></SECID><SECNAME>F</SECNAME></SECINFO>"
              "<YIELD>5.0</YIELD><DTYIELDASOF>20030501</DTYIELDASOF></MFINFO>",
    "stockinfo": "<STOCKINFO><SECINFO><SECID><UNIQUEID>123456789</UNIQUEID><UNIQUEIDTYPE>CUSIP</UNIQUEIDTYPE></SECID><SECNAME>A</SECNAME></SECINFO>"
                 "<YIELD>10</YIELD><INTU.Z>1</INTU.Z></STOCKINFO>",
    "mail": "<MAIL><USERID>jdoe</USERID><DTCREATED>19990909110000</DTCREATED><FROM>jdoe</FROM><TO>bank</TO><SUBJECT>Hi</SUBJECT>"
            "<MSGBODY>text</MSGBODY><INCIMAGES>N</INCIMAGES><USEHTML>N</USEHTML></MAIL>",
    "mail_grooomed": "<MAIL><USERID>jdoe</USERID><DTCREATED>19990909110000</DTCREATED><FRM>jdoe</FRM><TO>bank</TO><SUBJECT>Hi</SUBJECT>"
                     "<MSGBODY>text</MSGBODY><INCIMAGES>N</INCIMAGES><USEHTML>N</USEHTML></MAIL>",
    "mfinfo_ungroomed": "<MFINFO><SECINFO><SECID><UNIQUEID>744316100</UNIQUEID><UNIQUEIDTYPE>CUSIP</UNIQUEIDTYPE></SECID><SECNAME>F</SECNAME></SECINFO>"
                        "<YLD>5.0</YLD></MFINFO>",
    "stmttrn_intu": "<STMTTRN><TRNTYPE>CHECK</TRNTYPE><DTPOSTED>20051004</DTPOSTED><TRNAMT>-200.00</TRNAMT><FITID>00002</FITID>"
                    "<INTU.A>1</INTU.A><INTU.B><X>2</X></INTU.B></STMTTRN>",
    "status_attr": '<STATUS a="1" b="2"><CODE>0</CODE><SEVERITY>INFO</SEVERITY><MESSAGE>m</MESSAGE></STATUS>',
    "ledgerbal_tail": "<LEDGERBAL><BALAMT>1.5</BALAMT>\n  <DTASOF>20051029112000</DTASOF>\n</LEDGERBAL>",
    "bal_bad": "<LEDGERBAL><BALAMT>abc</BALAMT><DTASOF>20051029</DTASOF></LEDGERBAL>",
    "unknown_cls": "<NOSUCH><A>1</A></NOSUCH>",
    "leaf": "<CODE>0</CODE>",
    # trees as OTHER parsers / callers hand them over: white space between tags as text and tail, padded values, grafted tails
    "stmttrn_indented": "<STMTTRN>\n  <TRNTYPE>CHECK</TRNTYPE>\n  <DTPOSTED>20051004</DTPOSTED>\n  <TRNAMT>-200.00</TRNAMT>\n  <FITID>00002</FITID>\n"
                        "  <NAME>  ACME Corp \u3000</NAME>\n</STMTTRN>",
    "stmtrs_indented": "<STMTRS>\n <CURDEF>USD</CURDEF>\n <BANKACCTFROM>\n  <BANKID>1</BANKID>\n  <ACCTID>2</ACCTID>\n  <ACCTTYPE>CHECKING</ACCTTYPE>\n </BANKACCTFROM>\n"
                       " <LEDGERBAL>\n  <BALAMT>1.5</BALAMT>\n  <DTASOF>20051029112000</DTASOF>\n </LEDGERBAL>\n</STMTRS>",
    "status_padded": "<STATUS><CODE> 0 </CODE><SEVERITY>INFO</SEVERITY><MESSAGE>\t two  words \n</MESSAGE></STATUS>",
}
XML_TAILS = {"status_padded": " grafted tail ", "leaf": "\n"}      # tail put on the root after parsing (ET.fromstring cannot carry one)


def mk_docs(repo):
    d = {}
    d["v1_stmt"] = (V1H + "<OFX>" + SONRS1 % "" + STMT1 % "" + "</OFX>").encode("cp1252")
    d["v1_stmt_intu"] = (V1H + "<OFX>" + SONRS1 % "<INTU.BID>00017<INTU.USERID>jdoe" + STMT1 % "<INTU.X>1" + "</OFX>").encode("cp1252")
    d["v1_stmt_unknown"] = (V1H + "<OFX>" + SONRS1 % "" + STMT1 % "<FOOBAR>1<MEMO>x" + "</OFX>").encode("cp1252")
    d["v2_seclist"] = (V2H + "<OFX>" + SONRS2 % "" + SECLIST + "</OFX>").encode("utf-8")
    d["v2_mail"] = (V2H + "<OFX>" + SONRS2 % "" + MAILD + "</OFX>").encode("utf-8")
    d["v2_all"] = (V2H + "<OFX>" + SONRS2 % "<INTU.BID>1</INTU.BID>" + MAILD + SECLIST + "</OFX>").encode("utf-8")
    pad = "<MSGBODY><![CDATA[\u3000 <b>ACME</b> & Co  ]]></MSGBODY>"
    d["v2_mail_cdata_padded"] = (V2H + "<OFX>" + SONRS2 % "" + MAILD.replace("<MSGBODY><![CDATA[<b>hello</b> & goodbye]]></MSGBODY>", pad) + "</OFX>").encode("utf-8")
    d["v1_stmt_cdata_padded"] = (V1H + "<OFX>" + SONRS1 % "" + STMT1 % "<NAME><![CDATA[  ACME <Corp>  ]]>" + "</OFX>").encode("cp1252")
    d["bad_header"] = b"this is not OFX at all"
    d["bad_date"] = d["v1_stmt"].replace(b"<DTPOSTED>20051004", b"<DTPOSTED>20051304")
    d["bad_close"] = d["v2_mail"].replace(b"</MAILRS>", b"</MAILRQ>")
    d["bad_order"] = (V1H + "<OFX>" + STMT1 % "" + SONRS1 % "" + "</OFX>").encode("cp1252")
    d["bad_class"] = (V2H + "<OFX>" + SONRS2 % "" + "<NOSUCHMSGSV1><X><Y>1</Y></X></NOSUCHMSGSV1></OFX>").encode("utf-8")
    d["bad_tail"] = (V2H + "<OFX>" + SONRS2 % "" + "</OFX>").replace("</FI>", "</FI>junk").encode("utf-8")
    d["bad_unclosed"] = (V2H + "<OFX>" + SONRS2 % "").encode("utf-8")
    d["empty_body"] = V1H.encode()
    for p in sorted(glob.glob(os.path.join(repo, "tests", "data", "*.ofx"))):
        with open(p, "rb") as f:
            d["file_" + os.path.basename(p)[:-4]] = f.read()
    return d


# ================================================================== translate: fail-closed source tie
def translate():
    import ast, inspect, functools, datetime
    C.use_repo()
    import ofxtools.Types as T
    if not os.path.realpath(T.__file__).startswith(os.path.realpath(C.REPO) + os.sep):
        raise RuntimeError("ofxtools.Types imported from %s, not from %s" % (T.__file__, C.REPO))
    with open(T.__file__, encoding="utf-8") as f:
        src = f.read()
    tree = ast.parse(src)

    class V(ast.NodeVisitor):
        """collect every `<x>.register(...)` call that executes at RUN time (inside a function body);
        decorators and class bodies execute at import time and are not run-time registrations"""
        def __init__(self):
            self.cls, self.fn, self.found, self.tops = None, None, [], set()

        def visit_ClassDef(self, node):
            old = self.cls
            if self.fn is None: self.cls = node.name
            self.generic_visit(node)
            self.cls = old

        def visit_FunctionDef(self, node):
            for d in node.decorator_list: self.visit(d)
            old = self.fn
            if old is None:
                self.fn = node.name
                self.tops |= {id(b.value) for b in node.body if isinstance(b, ast.Expr) and isinstance(b.value, ast.Call)}
            for b in node.body: self.visit(b)
            self.fn = old
        visit_AsyncFunctionDef = visit_FunctionDef

        def visit_Call(self, node):
            if self.fn is not None and isinstance(node.func, ast.Attribute) and node.func.attr == "register":
                self.found.append((self.cls, self.fn, ast.unparse(node), id(node) in self.tops))
            self.generic_visit(node)
    v = V(); v.visit(tree)
    found = v.found
    for word in ("_clear_cache", "dispatch_cache", ".dispatcher", "__closure__"):
        if word in src:
            raise RuntimeError("ofxtools/Types.py mentions %r: the dispatch state is manipulated in a way the model does not describe" % word)
    if found not in ([], [("DateTime", "normalize_to_gmt", REG_LINE, True)]):
        raise RuntimeError("run-time register() calls in ofxtools/Types.py are not the modelled one (an unconditional statement of "
                           "DateTime.normalize_to_gmt: %s): %r" % (REG_LINE, found))
    tops = found
    rereg = bool(tops)
    # import-time shape of the classes
    DT, TM = T.DateTime, T.Time
    sdm, sdc = DT.__dict__.get("unconvert"), DT.__dict__.get("convert")
    if not isinstance(sdm, functools.singledispatchmethod) or not isinstance(sdc, functools.singledispatchmethod):
        raise RuntimeError("DateTime.convert/unconvert are not singledispatchmethod objects")
    keys = set(sdm.dispatcher.registry.keys())
    if keys != {object, datetime.datetime, type(None)}:
        raise RuntimeError("registry keys of DateTime.unconvert are %r, modelled: object, datetime.datetime, NoneType" % (keys,))
    if set(sdc.dispatcher.registry.keys()) != {object, datetime.datetime, str, type(None)}:
        raise RuntimeError("registry keys of DateTime.convert changed: %r" % (set(sdc.dispatcher.registry.keys()),))
    for name in ("_unconvert_datetime", "_unconvert_none"):
        if not inspect.isfunction(DT.__dict__.get(name)):
            raise RuntimeError("DateTime.%s is not a plain function" % name)
    if sdm.dispatcher.registry[object] is not sdm.func or sdm.dispatcher.registry[type(None)] is not DT.__dict__["_unconvert_none"]:
        raise RuntimeError("handlers registered for object / NoneType on DateTime.unconvert are not the modelled functions")
    h = sdm.dispatcher.registry[datetime.datetime]
    if getattr(h, "__func__", h) is not DT.__dict__["_unconvert_datetime"]:
        raise RuntimeError("handler registered for datetime.datetime is not _unconvert_datetime")
    for name in ("convert", "unconvert"):
        if not isinstance(TM.__dict__.get(name), functools.singledispatchmethod) or TM.__dict__[name].dispatcher is DT.__dict__[name].dispatcher:
            raise RuntimeError("Time does not define its own %s dispatcher" % name)
    if "normalize_to_gmt" not in TM.__dict__:
        raise RuntimeError("Time no longer overrides normalize_to_gmt (it would register on Time.unconvert)")
    if DT.__subclasses__() != [TM]:
        raise RuntimeError("DateTime has subclasses other than Time: %r" % (DT.__subclasses__(),))
    # interpreter behaviour the semantics depends on: does <bound method>.__get__(other, cls) bind `other`?
    class _P:
        def f(self): return self
    a, b = _P(), _P()
    rebinds = a.f.__get__(b, _P)() is b
    content = ("(* GENERATED by tools/ofxv/props/c17.py translate() - do not edit.\n"
               "   reregisters: DateTime.normalize_to_gmt (ofxtools/Types.py) contains the statement\n     %s\n"
               "   method_get_rebinds: on this interpreter (%s) <bound method>.__get__(obj, cls) is bound to obj *)\n"
               "Definition reregisters : bool := %s.\nDefinition method_get_rebinds : bool := %s.\n"
               % (REG_LINE, sys.version.split()[0], C.cbool(rereg), C.cbool(rebinds)))
    C.write_if_changed(GEN, content)
    return rereg


def current_rereg():
    try:
        with open(GEN) as f:
            return "reregisters : bool := true" in f.read()
    except OSError:
        return True


# ================================================================== workers (fresh subprocesses)
def inv_path():
    return os.path.join(C.BUILD, "c17", "inventory-%s.json" % hashlib.sha1(os.path.realpath(C.REPO).encode()).hexdigest()[:10])


def spawn(mode, job, timeout=900):
    env = dict(os.environ)
    env.update({"PYTHONPATH": C.REPO, "PYTHONHASHSEED": "0", "PYTHONDONTWRITEBYTECODE": "1", "OFXV_C17_INV": inv_path(),
                "XDG_DATA_HOME": os.path.join(C.BUILD, "c17", "xdg"), "XDG_CONFIG_HOME": os.path.join(C.BUILD, "c17", "xdg")})
    p = subprocess.run(["timeout", str(timeout), C.PY, "-m", "ofxv.props.c17", mode], input=json.dumps(job), cwd=TOOLS, env=env,
                       stdout=subprocess.PIPE, stderr=subprocess.PIPE, text=True)
    if p.returncode != 0:
        raise RuntimeError("worker %s failed (rc %d): %s" % (mode, p.returncode, p.stderr[-2000:]))
    return json.loads(p.stdout)


def diffp(a, b):
    i = next((i for i, (x, y) in enumerate(zip(a, b)) if x != y), min(len(a), len(b)))
    return "...%s  ==>  ...%s" % (a[max(0, i - 100):i + 120], b[max(0, i - 100):i + 120])


class Unenc(Exception):
    pass


def classify(fn, *a):
    """-> ('ok', value) | ('rj',) | ('cr', name): Reject = ValueError/TypeError family, Crash = anything else"""
    try:
        return ("ok", fn(*a))
    except (ValueError, TypeError):
        return ("rj",)
    except Exception as e:      # noqa
        return ("cr", type(e).__name__)


def w_dispatch(job):
    """execute dispatch cases on the real classes; observe registry and cache by introspection"""
    import datetime, functools, types
    import ofxtools.Types as T
    rereg = job["rereg"]
    DT = T.DateTime
    sdm = DT.__dict__["unconvert"]
    d = sdm.dispatcher
    cells = {}
    for name, cell in zip(d.dispatch.__code__.co_freevars, d.dispatch.__closure__):
        try:
            cells[name] = cell.cell_contents
        except ValueError:
            cells[name] = None
    registry, cache = cells["registry"], cells["dispatch_cache"]
    assert isinstance(registry, dict) and type(cache).__name__ == "WeakKeyDictionary" and cells.get("cache_token") is None
    assert dict(d.registry) == registry
    f_default, f_dt, f_none = sdm.func, DT.__dict__["_unconvert_datetime"], DT.__dict__["_unconvert_none"]
    vals, codes = mk_vals()
    pool = []

    def hcode(h):
        if h is f_default: return 0
        if h is f_dt: return 1
        if h is f_none: return 2
        if h is None: return 3
        if isinstance(h, types.MethodType) and h.__func__ is f_dt:
            for k, inst in enumerate(pool):
                if h.__self__ is inst:
                    return 10 + k
        raise Unenc("handler outside the model's vocabulary: %r" % (h,))

    def enc(dct):
        out = []
        for k, v in list(dct.items()):
            if k not in codes:
                raise Unenc("class outside the model's vocabulary used as a key: %r" % (k,))
            out.append([codes[k], hcode(v)])
        return out

    def snap():
        return [enc(registry), enc(cache)]

    def outcome(r, j):
        if r[0] == "ok":
            if isinstance(r[1], str): return ["t", r[1]]
            if r[1] is vals[j]: return ["v", j]
            raise Unenc("unconvert returned %r" % (r[1],))
        return [r[0]]

    res = {"import_snap": None, "cases": [], "tbl": []}
    try:
        res["import_snap"] = snap()
    except Unenc as e:
        res["import_snap"] = {"unenc": str(e)}
    pool.extend(DT(required=r) for r in REQ)
    tpool = [T.Time(), T.Time(required=True)]
    tval = datetime.time(12, 34, 56, tzinfo=datetime.timezone.utc)
    for k in range(len(pool)):
        for j in range(len(vals)):
            r = classify(f_dt, pool[k], vals[j])
            res["tbl"].append([k, j, ["t", r[1]] if r[0] == "ok" and isinstance(r[1], str) else [r[0] if r[0] != "ok" else "cr"]])

    def time_op(n):
        if n == 0: classify(tpool[0].convert, "123456.789[-5:EST]")
        elif n == 1: classify(tpool[1].unconvert, tval)
        elif n == 2: classify(tpool[1].unconvert, None)
        else: classify(tpool[0].convert, "garbage")

    def seq(o):
        if o[0] == "cv":
            classify(pool[o[1]].convert, STRS[o[2]][0]); return None
        if o[0] == "uc":
            return outcome(classify(pool[o[1]].unconvert, vals[o[2]]), o[2])
        time_op(o[1]); return None

    def step(th):
        """HARNESS RE-ENACTMENT of one atomic step of functools' register / dispatch / singledispatchmethod call
        on the real registry, cache and handler objects"""
        pc = th["pc"]
        if pc[0] == "idle":
            if not th["todo"]: return
            o = th["todo"].pop(0)
            if o[0] == "cv":
                if rereg and STRS[o[2]][1]:
                    registry[datetime.datetime] = pool[o[1]]._unconvert_datetime      # registry[cls] = func
                    th["pc"] = ("regclear",)
            elif o[0] == "uc":
                cls = vals[o[2]].__class__
                try:
                    th["pc"] = ("have", o[1], o[2], cache[cls])                          # impl = dispatch_cache[cls]
                except KeyError:
                    th["pc"] = ("miss", o[1], o[2])
            else:
                time_op(o[1])
        elif pc[0] == "regclear":
            cache.clear(); th["pc"] = ("idle",)                                         # dispatch_cache.clear()
        elif pc[0] == "miss":
            cls = vals[pc[2]].__class__
            try:
                impl = registry[cls]                                                    # impl = registry[cls]
            except KeyError:
                impl = functools._find_impl(cls, registry)                              # impl = _find_impl(cls, registry)
            th["pc"] = ("found", pc[1], pc[2], impl)
        elif pc[0] == "found":
            cache[vals[pc[2]].__class__] = pc[3]; th["pc"] = ("have",) + pc[1:]          # dispatch_cache[cls] = impl
        elif pc[0] == "have":
            obj, v, impl = pool[pc[1]], vals[pc[2]], pc[3]
            th["outs"].append(outcome(classify(lambda: impl.__get__(obj, type(obj))(v)), pc[2]))   # method.__get__(obj, cls)(value)
            th["pc"] = ("idle",)

    first = True
    for case in job["cases"]:
        if not first:     # restore the import-time state (harness): drop foreign keys, re-register the original function, clear the cache
            for k in list(registry):
                if k not in (object, datetime.datetime, type(None)):
                    del registry[k]
            registry[object], registry[type(None)] = f_default, f_none
            d.register(datetime.datetime, f_dt)
        first = False
        try:
            threads = [{"pc": ("idle",), "todo": [list(o) for o in prog], "outs": []} for prog in case["progs"]]
            snaps, seqo = [snap()], []
            for e in case["events"]:
                if e[0] == "es":
                    if e[1] < len(threads): step(threads[e[1]])
                else:
                    o = seq(e)
                    if o is not None: seqo.append(o)
                snaps.append(snap())
            res["cases"].append({"snaps": snaps, "seq": seqo, "thr": [t["outs"] for t in threads]})
        except Unenc as e:
            res["cases"].append({"unenc": str(e)})
    return res


# ------------------------------------------------------------------ purity worker
class StrSub(str):
    """a str subclass: equal to, and hashing like, the plain string"""


def mk_eq():
    """families of arguments that are EQUAL (== and same hash, so any cache keyed on the value cannot tell them apart) but not
    identical, and whose written TEXT differs or must not: the same instant in different zones, the same offset under different zone
    names, equal Decimals of different exponent, 1 / True, a str subclass.  One group per member (`eq:<family>.<member>`), so that the
    clean-process reference of a member is that call ALONE in a fresh interpreter."""
    import datetime as dt, decimal
    tz = lambda h, n=None: dt.timezone(dt.timedelta(hours=h), n) if n else dt.timezone(dt.timedelta(hours=h))
    return {
        "dt.ny": dt.datetime(2023, 1, 5, 23, 30, tzinfo=tz(-5, "EST")),
        "dt.london": dt.datetime(2023, 1, 6, 4, 30, tzinfo=dt.timezone.utc),
        "dt.paris": dt.datetime(2023, 1, 6, 5, 30, tzinfo=tz(1, "CET")),
        "dt.chicago_dst": dt.datetime(2023, 1, 5, 23, 30, tzinfo=tz(-5, "CDT")),
        "dt.unnamed": dt.datetime(2023, 1, 5, 23, 30, tzinfo=tz(-5)),
        "dt.kolkata": dt.datetime(2023, 1, 6, 10, 0, tzinfo=dt.timezone(dt.timedelta(hours=5, minutes=30), "IST")),
        "tm.est": dt.time(12, 0, 0, tzinfo=tz(-5, "EST")),
        "tm.xyz": dt.time(12, 0, 0, tzinfo=tz(-5, "XYZ")),
        "tm.utc": dt.time(17, 0, 0, tzinfo=dt.timezone.utc),
        "dec.1_50": decimal.Decimal("1.50"),
        "dec.1_5": decimal.Decimal("1.5"),
        "dec.15e_1": decimal.Decimal("15E-1"),
        "dec.1_500": decimal.Decimal("1.500"),
        "int.one": 1,
        "int.true": True,
        "str.plain": "a",
        "str.sub": StrSub("a"),
    }


TREE_CALLS = ["from_etree", "groom", "ungroom", "tostring", "tostring_unclosed"]
INST_CALLS = ["to_etree", "serialize_xml", "serialize_sgml"]


class Lib:
    """the library entry points and the deep dumps; built inside a worker"""
    def __init__(self, repo):
        import io, gc, warnings, datetime, decimal, inspect, random, threading
        import xml.etree.ElementTree as ET
        import ofxtools.Types as T
        import ofxtools.models as M
        import ofxtools.utils as U
        from ofxtools.models.base import Aggregate
        from ofxtools.Parser import OFXTree
        from ofxtools.Client import OFXClient
        warnings.simplefilter("ignore")
        self.__dict__.update(locals())
        self.docs = mk_docs(repo)
        self.vals, _ = mk_vals()
        self.keep = []
        self.held = {}
        self.classes = sorted(n for n, c in vars(M).items() if inspect.isclass(c) and issubclass(c, Aggregate))
        self.eq = mk_eq()
        self._mx = None

    def mx_info(self):
        """mutex groups / hooks per class, read in ANOTHER process (reading a class table that is an iterator would consume it here)"""
        if self._mx is None:
            path = os.environ.get("OFXV_C17_INV")
            if path and os.path.exists(path):
                with open(path) as f:
                    self._mx = json.load(f)["mx"]
            else:
                self._mx = spawn("inventory", {"repo": C.REPO})["mx"]
        return self._mx

    def inventory_mx(self):
        out = {}
        for n in self.classes:
            cls = getattr(self.M, n)
            def groups(attr):
                try:
                    return [list(g) for g in (getattr(cls, attr, None) or [])]
                except Exception:      # noqa
                    return []
            opt, req = groups("optionalMutexes"), groups("requiredMutexes")
            hook = any("validate_args" in vars(k) for k in cls.__mro__ if k is not self.Aggregate and k is not object)
            if opt or req or hook:
                out[n] = {"opt": opt, "req": req, "hook": hook}
        return out

    def snapshot_tables(self, cls):
        """class-level tables WITHOUT consuming them: type and content of a list/tuple, the state of a generator, the position of an iterator"""
        import operator
        out = []
        for attr in ("optionalMutexes", "requiredMutexes"):
            v = getattr(cls, attr, None)
            if v is None or isinstance(v, (list, tuple)):
                out.append((attr, type(v).__name__, repr(v)))
            elif self.inspect.isgenerator(v):
                out.append((attr, "generator", self.inspect.getgeneratorstate(v)))
            else:
                try: hint = operator.length_hint(v)
                except Exception: hint = None      # noqa
                out.append((attr, type(v).__name__, hint))
        out.append(("spec", "keys", repr(list(cls.spec))))
        return out

    # ---- deep structural dumps (no addresses, no floats)
    def dump_tree(self, e):
        if e is None: return None
        return (e.tag, e.text, e.tail, sorted(e.attrib.items()), [self.dump_tree(c) for c in e])

    def dump_val(self, v):
        dt = self.datetime
        if isinstance(v, self.Aggregate): return self.dump_inst(v)
        if isinstance(v, dt.datetime): return ("dt", type(v).__name__, v.isoformat(), str(v.utcoffset()), v.tzname())
        if isinstance(v, dt.time): return ("tm", v.isoformat(), str(v.utcoffset()))
        if isinstance(v, self.decimal.Decimal): return ("dec", str(v.as_tuple()))
        if v is None or isinstance(v, (str, bool, int)): return (type(v).__name__, v)
        if isinstance(v, (list, tuple)): return ("seq", [self.dump_val(x) for x in v])
        return ("other", type(v).__name__, repr(v))

    def dump_inst(self, a):
        return ("agg", type(a).__name__, sorted(((k, self.dump_val(v)) for k, v in vars(a).items()), key=lambda kv: kv[0]),
                [self.dump_val(m) for m in a])

    def dump_any(self, x):
        ET = self.ET
        if isinstance(x, self.Aggregate): return self.dump_inst(x)
        if isinstance(x, ET.Element): return self.dump_tree(x)
        if isinstance(x, self.io.BytesIO): return ("bytesio", x.getvalue())
        if isinstance(x, tuple) and len(x) == 2 and isinstance(x[1], self.Aggregate):      # (client, request): both are the caller's
            return ("client+request", sorted((k, repr(v)) for k, v in vars(x[0]).items() if k != "cookiejar"), self.dump_inst(x[1]))
        if isinstance(x, (bytes, str)) or x is None: return x
        if hasattr(x, "__dict__"): return (type(x).__name__, sorted(((k, self.dump_val(v)) for k, v in vars(x).items()), key=lambda kv: kv[0]))
        return repr(x)

    # ---- the calls
    def call(self, name, x):
        ET, U = self.ET, self.U
        if name == "parse":
            t = self.OFXTree(); root = t.parse(x)
            return (self.dump_any(t.header), self.dump_tree(root))
        if name == "convert":
            t = self.OFXTree(); t._root = x
            return self.dump_inst(t.convert())
        if name == "from_etree":
            return self.dump_inst(self.Aggregate.from_etree(x))
        if name in ("groom", "ungroom"):
            cls = getattr(self.M, x.tag, self.Aggregate)
            if not (self.inspect.isclass(cls) and issubclass(cls, self.Aggregate)): cls = self.Aggregate
            return self.dump_tree(getattr(cls, name)(x))
        if name == "tostring": return ET.tostring(x)
        if name == "tostring_unclosed": return U.tostring_unclosed_elements(x)
        if name == "to_etree": return self.dump_tree(x.to_etree())
        if name == "serialize_xml": return ET.tostring(x.to_etree())
        if name == "serialize_sgml": return U.tostring_unclosed_elements(x.to_etree())
        if name.startswith("cser:"):
            # OFXClient.serialize(ofx, version=<per-call override>) on a request the CALLER built and keeps; x = (client, ofx)
            _, ver, closed = name.split(":")
            return x[0].serialize(x[1], version=int(ver), oldfileuid="NONE", newfileuid="N1", close_elements=(closed == "c"), prettyprint=False)
        if name == "client_serialize":
            c = self.OFXClient("https://ofx.example.invalid/", userid="u", org="O", fid="1", version=203, prettyprint=True)
            c1 = self.OFXClient("https://ofx.example.invalid/", version=102, prettyprint=False, close_elements=False)
            return (c.serialize(x, oldfileuid="NONE", newfileuid="N1"), c1.serialize(x, oldfileuid="NONE", newfileuid="N1"))
        raise KeyError(name)

    def checked(self, name, x, reps, out, key):
        """run call `name` on input x `reps` times between two snapshots of x; append the record"""
        before = self.dump_any(x)
        digs, first = [], None
        for _ in range(reps):
            if isinstance(x, self.io.BytesIO): x.seek(0)
            try:
                o = ("ok", self.call(name, x))
            except Exception as e:      # noqa
                o = ("err", type(e).__name__)
            dg = hashlib.sha1(repr(o).encode("utf-8", "backslashreplace")).hexdigest()[:16]
            if dg not in digs: digs.append(dg)
            if first is None: first = o
        after = self.dump_any(x)
        out.append({"k": key, "c": name, "d": digs, "mut": before != after, "ok": first[0] == "ok", "n": reps,
                    "p": repr(first)[:160], "mutp": "" if before == after else diffp(repr(before), repr(after))})

    # ---- inputs
    def subelems(self, root):
        return [e for e in root.iter() if len(e)]

    def subinsts(self, a):
        out = []

        def walk(x):
            out.append(x)
            for k in sorted(vars(x)):
                if isinstance(vars(x)[k], self.Aggregate): walk(vars(x)[k])
            for m in x:
                if isinstance(m, self.Aggregate): walk(m)
        walk(a)
        return out

    def gen_value(self, conv, full, depth):
        T = self.T
        if isinstance(conv, T.SubAggregate): return self.gen_inst(conv.__type__, full and depth < 1, depth + 1)
        if isinstance(conv, T.OneOf): return conv.valid[0]
        if isinstance(conv, T.Bool): return "Y"
        if isinstance(conv, T.Time): return "123456.789[-5:EST]"
        if isinstance(conv, T.DateTime): return "20240229123456.789[-5:EST]"
        if isinstance(conv, T.Decimal): return "1.50"
        if isinstance(conv, T.Integer): return "7"
        if isinstance(conv, T.String): return "A"
        raise KeyError("no generic value")

    def gen_kwargs(self, cls, full, depth=0, only=None):
        T = self.T
        if depth > 5: raise RecursionError("depth")
        kw = {}
        for name, conv in cls.spec.items():
            if isinstance(conv, (T.ListAggregate, T.ListElement, T.Unsupported)): continue
            if only is not None:
                if name not in only: continue
            elif not (full or getattr(conv, "required", False)): continue
            try: kw[name] = self.gen_value(conv, full, depth)
            except KeyError: continue
        return kw

    def gen_inst(self, cls, full, depth=0):
        return cls(**self.gen_kwargs(cls, full, depth))

    def mx_variants(self, cls, info, breaking_only=False):
        """keyword sets for one class: valid ones, and ones that break each exclusivity group (both members of an optional group; none /
        two members of a required group), each to be constructed and converted REPEATEDLY and after one another"""
        base = self.gen_kwargs(cls, False)
        members = {m for g in info["opt"] + info["req"] for m in g}
        ok = dict(base)
        for g in info["req"]:
            if not any(m in ok for m in g):
                ok.update(self.gen_kwargs(cls, False, only=g[:1]))
        for g in info["opt"]:                                  # a valid instance keeps at most one member of each optional group
            present = [m for m in g if m in ok]
            for m in present[1:]: ok.pop(m, None)
        vs = []
        for i, g in enumerate(info["opt"]):
            kw = dict(ok); kw.update(self.gen_kwargs(cls, False, only=g))
            vs.append(("opt%d_all_of_%s" % (i, "+".join(g)), kw))
        for i, g in enumerate(info["req"]):
            kw = {k: v for k, v in ok.items() if k not in g}
            vs.append(("req%d_none_of_%s" % (i, "+".join(g)), kw))
            kw2 = dict(kw); kw2.update(self.gen_kwargs(cls, False, only=g[:2]))
            vs.append(("req%d_two_of_%s" % (i, "+".join(g)), kw2))
        if breaking_only:
            return vs[::-1]
        # the sets that should be REFUSED come first: the first thing this process ever asks of the class is then a refusal
        return vs + [("valid", ok), ("required_only", base), ("everything", self.gen_kwargs(cls, True)), ("nothing", {})]

    def tree_of(self, cls, kw):
        ET = self.ET
        root = ET.Element(cls.__name__)
        for name in cls.spec:
            if name in kw:
                v = kw[name]
                if isinstance(v, self.Aggregate): root.append(v.to_etree())
                else: ET.SubElement(root, name.upper()).text = v
        return root

    def rec(self, out, key, call, fn, reps):
        """record of `reps` evaluations of fn(): distinct digests in order of appearance"""
        digs, first = [], None
        for _ in range(reps):
            try: o = ("ok", fn())
            except Exception as e: o = ("err", type(e).__name__)      # noqa
            dg = hashlib.sha1(repr(o).encode("utf-8", "backslashreplace")).hexdigest()[:16]
            if dg not in digs: digs.append(dg)
            if first is None: first = o
        out.append({"k": key, "c": call, "d": digs, "mut": False, "ok": first[0] == "ok", "n": reps, "p": repr(first)[:160], "mutp": ""})

    def run_mx(self, group, out):
        kind, name = group.split(":", 1)
        cls = getattr(self.M, name)
        t0 = self.snapshot_tables(cls)
        try:
            variants = self.mx_variants(cls, self.mx_info().get(name, {"opt": [], "req": [], "hook": True}), breaking_only=(kind == "mxr"))
        except Exception as e:      # noqa
            variants = [("nothing", {})]
        seen = {}
        for rnd in range(3):                                   # A B C ... A B C ... A B C: every set again after all the others
            for vname, kw in variants:
                try: o1 = ("ok", self.dump_inst(cls(**kw)))
                except Exception as e: o1 = ("err", type(e).__name__)      # noqa
                try: o2 = ("ok", self.dump_inst(self.Aggregate.from_etree(self.tree_of(cls, kw))))
                except Exception as e: o2 = ("err", type(e).__name__)      # noqa
                for call, o in (("construct", o1), ("from_etree", o2)):
                    dg = hashlib.sha1(repr(o).encode("utf-8", "backslashreplace")).hexdigest()[:16]
                    r = seen.setdefault((call, vname), {"k": "%s|%s~%s" % (call, group, vname), "c": call, "d": [], "mut": False, "ok": o[0] == "ok",
                                                         "n": 0, "p": repr(o)[:160], "mutp": ""})
                    r["n"] += 1
                    if dg not in r["d"]:
                        r["d"].append(dg)
                        if len(r["d"]) == 2: r["p"] = "round 1: %s; round %d: %s" % (r["p"][:70], rnd + 1, repr(o)[:70])
        out.extend(seen.values())
        t1 = self.snapshot_tables(cls)
        out.append({"k": "class_tables|%s" % group, "c": "class_tables", "d": [hashlib.sha1(repr(t0).encode()).hexdigest()[:16]], "mut": t0 != t1, "ok": True, "n": 1,
                    "p": repr(t0)[:160], "mutp": "" if t0 == t1 else "class-level table of %s changed while instances were built: %s"
                    % (name, "; ".join("%s: %r -> %r" % (a[0], a[1:], b[1:]) for a, b in zip(t0, t1) if a != b)[:300])})

    def run_eq(self, group, reps, out):
        T, M = self.T, self.M
        name = group.split(":", 1)[1]
        v = self.eq[name]
        fam = name.split(".")[0]
        stmt = lambda **kw: self.ET.tostring(M.STMTTRN(**dict(dict(trntype="DEBIT", dtposted=self.eq["dt.london"], trnamt="2.00", fitid="1"), **kw)).to_etree())
        calls = {"dt": [("unconvert", lambda: T.DateTime().unconvert(v)), ("unconvert_required", lambda: T.DateTime(required=True).unconvert(v)),
                        ("serialize_xml", lambda: stmt(dtposted=v)),
                        ("serialize_sgml", lambda: self.U.tostring_unclosed_elements(M.STMTTRN(trntype="DEBIT", dtposted=v, trnamt="2.00", fitid="1").to_etree()))],
                 "tm": [("unconvert", lambda: T.Time().unconvert(v)), ("unconvert_required", lambda: T.Time(required=True).unconvert(v))],
                 "dec": [("unconvert", lambda: T.Decimal().unconvert(v)), ("unconvert_scaled", lambda: T.Decimal(2).unconvert(v)), ("serialize_xml", lambda: stmt(trnamt=v))],
                 "int": [("unconvert", lambda: T.Integer().unconvert(v)), ("unconvert_bool", lambda: T.Bool().unconvert(v)), ("convert_int", lambda: repr(T.Integer().convert(v)))],
                 "str": [("unconvert", lambda: T.String(10).unconvert(v)), ("serialize_xml", lambda: stmt(fitid=v))]}[fam]
        for cname, fn in calls:
            self.rec(out, "%s|%s" % (cname, group), cname, fn, max(1, min(reps, 3)))

    def pick(self, n, sel):
        """indices 0..n-1 kept by a selection [seed, fraction] (None = all); index 0 always kept"""
        if sel is None: return list(range(n))
        r = self.random.Random(sel[0])
        return [i for i in range(n) if i == 0 or r.random() < sel[1]]

    def build(self, group):
        """construct the inputs of a group (fresh objects).  The instance is converted from a SECOND parse so that the
        tree handed to the tree calls has never been seen by the library's converter."""
        kind, name = group.split(":", 1)
        b = {}
        if kind == "doc":
            b["bytes"] = self.docs[name]
            try:
                root = self.OFXTree().parse(self.io.BytesIO(b["bytes"]))
            except Exception:     # noqa
                root = None
            if root is not None:
                b["root"], b["subs"] = root, self.subelems(root)
                try:
                    inst = self.Aggregate.from_etree(self.OFXTree().parse(self.io.BytesIO(b["bytes"])))
                    b["inst"], b["insts"] = inst, self.subinsts(inst)
                except Exception:     # noqa
                    pass
        elif kind == "xml":
            b["x"] = self.ET.fromstring(XMLS[name])
            if name in XML_TAILS:
                b["x"].tail = XML_TAILS[name]
                for e in b["x"]: e.tail = (e.tail or "") + " "
        elif kind in ("mx", "mxr", "eq"):
            pass
        elif kind == "rq":
            # a request as a caller builds it: signon carrying CLIENTUID (client configured for 2.0.3), plus a profile / statement request
            try:
                M = self.M
                fixed = self.datetime.datetime(2024, 2, 29, 12, 0, 0, tzinfo=self.datetime.timezone.utc)
                cl = self.OFXClient("https://ofx.example.invalid/", userid="jdoe", clientuid="CLIENTUID-0001-ABCD", org="ORG", fid="77", version=203, bankid="1")
                cl.dtclient = lambda: fixed
                son = cl.signon("t0ps3kr1t")
                if name == "profile":
                    body = dict(profmsgsrqv1=M.PROFMSGSRQV1(M.PROFTRNRQ(trnuid="T1", profrq=M.PROFRQ(clientrouting="NONE", dtprofup=fixed))))
                else:
                    stmtrq = M.STMTRQ(bankacctfrom=M.BANKACCTFROM(bankid="1", acctid="2", accttype="CHECKING"), inctran=M.INCTRAN(dtstart=fixed, include=True))
                    body = dict(bankmsgsrqv1=M.BANKMSGSRQV1(M.STMTTRNRQ(trnuid="T1", stmtrq=stmtrq)))
                b["rq"] = (cl, M.OFX(signonmsgsrqv1=son, **body))
                b["rq_o"] = ("ok", self.dump_inst(b["rq"][1]))
            except Exception as e:      # noqa  (a construction that fails here - it never does in a clean process - is an outcome, not a harness error)
                b["rq_o"] = ("err", type(e).__name__)
        elif kind == "gen":
            b["gen"] = []
            for full in (False, True):
                try:
                    a = self.gen_inst(getattr(self.M, name), full)
                    o = ("ok", self.dump_inst(a))
                except Exception as e:      # noqa
                    a, o = None, ("err", type(e).__name__)
                b["gen"].append((full, a, o))
        else:
            raise KeyError(group)
        return b

    def run_checks(self, group, b, sel, reps, out):
        kind = group.split(":", 1)[0]
        if kind == "doc":
            self.checked("parse", self.io.BytesIO(b["bytes"]), reps, out, "parse|%s" % group)
            if "root" not in b: return
            for i in self.pick(len(b["subs"]), sel):
                for c in TREE_CALLS:
                    self.checked(c, b["subs"][i], reps, out, "%s|%s#%d" % (c, group, i))
            self.checked("convert", b["root"], reps, out, "convert|%s" % group)
            if "inst" not in b: return
            for i in self.pick(len(b["insts"]), sel):
                for c in INST_CALLS:
                    self.checked(c, b["insts"][i], reps, out, "%s|%s@%d" % (c, group, i))
            if type(b["inst"]).__name__ == "OFX":
                self.checked("client_serialize", b["inst"], reps, out, "client_serialize|%s" % group)
        elif kind == "xml":
            for c in TREE_CALLS + ["convert"]:          # OFXTree.convert() on a tree the caller built and still holds
                self.checked(c, b["x"], reps, out, "%s|%s" % (c, group))
        elif kind in ("mx", "mxr"):
            self.run_mx(group, out)
        elif kind == "rq":
            # every supported version as a PER-CALL override, below and above 1.0.3 (where CLIENTUID appeared), the client's own version
            # before, between and after; the caller's instance is snapshotted around every call, and the three serializations with the
            # client's own version must be the same bytes
            o = b["rq_o"]
            out.append({"k": "construct|%s" % group, "c": "construct", "d": [hashlib.sha1(repr(o).encode()).hexdigest()[:16]], "mut": False,
                        "ok": o[0] == "ok", "n": 1, "p": repr(o)[:160], "mutp": ""})
            if "rq" not in b: return
            same = []
            for i, (ver, closed) in enumerate([(203, "c"), (102, "c"), (203, "c"), (102, "u"), (103, "c"), (151, "u"), (160, "c"), (200, "c"), (201, "c"), (202, "c"),
                                               (210, "c"), (211, "c"), (220, "c"), (203, "c")]):
                k0 = len(out)
                self.checked("cser:%d:%s" % (ver, closed), b["rq"], reps, out, "cser:%d:%s|%s#%d" % (ver, closed, group, i))
                if ver == 203: same.append(out[k0]["d"][0])
            out.append({"k": "cser_own_version_again|%s" % group, "c": "client_serialize_again", "d": list(dict.fromkeys(same)), "mut": False, "ok": True, "n": len(same),
                        "p": "serialize(ofx) with the client's own version, before / between / after calls with version overrides: %d distinct result(s)" % len(set(same)), "mutp": ""})
        elif kind == "eq":
            self.run_eq(group, reps, out)
        else:
            for full, a, o in b["gen"]:
                key = "%s|%s:%d" % ("%s", group, full)
                out.append({"k": key % "construct", "c": "construct", "d": [hashlib.sha1(repr(o).encode()).hexdigest()[:16]], "mut": False,
                            "ok": a is not None, "n": 1, "p": repr(o)[:160], "mutp": ""})
                if a is not None:
                    for c in INST_CALLS:
                        self.checked(c, a, reps, out, key % c)

    def chk(self, group, sel, reps, out):
        self.run_checks(group, self.build(group), sel, reps, out)

    def hold(self, group):
        self.held[group] = self.build(group)

    def chkheld(self, group, sel, reps, out):
        """the calls on inputs that were constructed earlier and have been lying around while other work went on"""
        if group not in self.held: self.hold(group)
        self.run_checks(group, self.held[group], sel, reps, out)

    def do_step(self, st, out):
        if st[0] == "chk": self.chk(st[1], st[2], st[3], out)
        elif st[0] == "chkheld": self.chkheld(st[1], st[2], st[3], out)
        elif st[0] == "hold": self.hold(st[1])
        elif st[0] == "threads": self.threads(st, out)
        else: self.act(st[1:])

    # ---- adversarial history actions (results ignored)
    def act(self, a):
        T = self.T
        k = a[0]
        try:
            if k == "dtconv":
                d = T.DateTime(required=a[1]);
                if a[3]: self.keep.append(d)
                d.convert(a[2])
            elif k == "dtunconv":
                T.DateTime(required=a[1]).unconvert(self.vals[a[2]])
            elif k == "timeconv":
                T.Time(required=a[1]).convert(a[2])
            elif k == "timeunconv":
                T.Time().unconvert(self.datetime.time(1, 2, 3, tzinfo=self.datetime.timezone.utc))
            elif k == "gc":
                del self.keep[:]; self.gc.collect()
            elif k == "proc":
                t = self.OFXTree(); t.parse(self.io.BytesIO(self.docs[a[1]])); i = t.convert(); e = i.to_etree()
                self.ET.tostring(e); self.U.tostring_unclosed_elements(e)
            elif k == "procxml":
                i = self.Aggregate.from_etree(self.ET.fromstring(XMLS[a[1]])); i.to_etree()
            elif k == "warn":
                with self.warnings.catch_warnings(record=True):
                    self.warnings.simplefilter(a[1])
                    t = self.OFXTree(); t.parse(self.io.BytesIO(self.docs["v1_stmt_unknown"])); t.convert()
            elif k == "gen":
                self.gen_inst(getattr(self.M, a[1]), a[2]).to_etree()
        except Exception:     # noqa
            pass

    def threads(self, st, out):
        """["threads", [[chk-step...] per worker thread], n_hammers]: real threads, barrier start, switch interval 1e-6"""
        import threading, time
        T = self.T
        jobs, nham = st[1], st[2]
        outs = [[] for _ in jobs]
        errs = []
        barrier = threading.Barrier(len(jobs) + nham)
        stop = threading.Event()

        def worker(i):
            try:
                barrier.wait(60)
                for s in jobs[i]:
                    self.do_step(s, outs[i])
            except Exception as e:     # noqa
                errs.append("worker %d: %r" % (i, e))

        def hammer(i):
            try:
                barrier.wait(60)
                n = 0
                while not stop.is_set():
                    d = T.DateTime(required=bool((n + i) % 2))
                    try: d.convert(STRS[n % len(STRS)][0])
                    except Exception: pass     # noqa
                    try: d.unconvert(self.vals[3 + n % 5])
                    except Exception: pass     # noqa
                    n += 1
            except Exception as e:     # noqa
                errs.append("hammer %d: %r" % (i, e))
        old = sys.getswitchinterval()
        sys.setswitchinterval(1e-6)
        try:
            ws = [threading.Thread(target=worker, args=(i,)) for i in range(len(jobs))]
            hs = [threading.Thread(target=hammer, args=(i,)) for i in range(nham)]
            for t in ws + hs: t.start()
            for t in ws: t.join()
            stop.set()
            for t in hs: t.join()
        finally:
            sys.setswitchinterval(old)
        if errs:
            raise RuntimeError("thread harness error: %s" % errs[:3])
        for i, o in enumerate(outs):
            for r in o:
                r["thr"] = i
                out.append(r)


def w_script(job):
    L = Lib(job["repo"])
    out = []
    for n, st in enumerate(job["script"]):
        k0 = len(out)
        L.do_step(st, out)
        for r in out[k0:]:
            r["step"] = n
    return {"records": out}


def w_inventory(job):
    L = Lib(job["repo"])
    return {"docs": sorted(L.docs), "xml": sorted(XMLS), "classes": L.classes, "mx": L.inventory_mx(), "eq": list(L.eq), "rq": ["profile", "stmt"]}


# ================================================================== main-process side
def coq_op(o, thread_prog):
    if o[0] == "cv":
        return "%s %d %s %s" % ("pcv" if thread_prog else "cv", o[1], C.cbool(REQ[o[1]]), C.cbool(STRS[o[2]][1]))
    if o[0] == "uc":
        return "%s %d %s %d %d" % ("puc" if thread_prog else "uc", o[1], C.cbool(REQ[o[1]]), VTY[o[2]], o[2])
    if o[0] == "tm":
        return "TimeOp" if thread_prog else "tm"
    return "es %d" % o[1]


def coq_out(o):
    if o[0] == "t": return "ot " + C.ctext(o[1])
    if o[0] == "v": return "ov %d %d" % (VTY[o[1]], o[1])
    return "rj" if o[0] == "rj" else "cr"


def coq_dict(d):
    return C.clist("(%d,%d)" % (a, b) for a, b in d)


def coq_dcase(case, obs):
    return "DCase %s %s %s %s %s" % (
        C.clist(C.clist(coq_op(o, True) for o in p) for p in case["progs"]),
        C.clist(coq_op(e, False) for e in case["events"]),
        C.clist("(%s,%s)" % (coq_dict(s[0]), coq_dict(s[1])) for s in obs["snaps"]),
        C.clist(coq_out(o) for o in obs["seq"]),
        C.clist(C.clist(coq_out(o) for o in t) for t in obs["thr"]))


def coq_tbl(tbl):
    def r(o): return "OK " + C.ctext(o[1]) if o[0] == "t" else ("Err Reject" if o[0] == "rj" else "Err Crash")
    return "Definition tbl : fmt_tbl :=\n [" + "\n ;".join("(%d,%d,%s)" % (k, j, r(o)) for k, j, o in tbl) + "].\n"


def gen_dcase(rng):
    ninst = rng.randint(1, 6)
    nthr = rng.choice([0, 0, 1, 2, 2, 3, 4])

    def rop():
        x = rng.random()
        if x < 0.35: return ["cv", rng.randrange(ninst), rng.randrange(len(STRS))]
        if x < 0.92: return ["uc", rng.randrange(ninst), rng.choice([0, 1, 2, 3, 3, 4, 5, 6, 6, 7, 8, 9, 10])]
        return ["tm", rng.randrange(NTIMEOPS)]
    progs = [[rop() for _ in range(rng.randint(0, 5))] for _ in range(nthr)]
    events = []
    for _ in range(rng.randint(0, 30)):
        if nthr and rng.random() < 0.65:
            events.append(["es", rng.randrange(nthr + (1 if rng.random() < 0.05 else 0))])
        else:
            events.append(rop())
    if nthr and rng.random() < 0.5:      # let every thread finish (an operation takes at most 4 atomic steps), in a random order
        tail = [["es", t] for t, p in enumerate(progs) for _ in range(4 * len(p))]
        rng.shuffle(tail)
        events += tail
    return {"progs": progs, "events": events}


def load_corpus():
    out = []
    for p in sorted(glob.glob(os.path.join(C.VERIF, "corpus", PROP, "*.json"))):
        with open(p) as f:
            o = json.load(f)
        o["_file"] = os.path.basename(p)
        out.append(o)
    return out


def run_dispatch(rep, cases, rereg, fails, tag):
    """part (a): implementation observed in fresh subprocesses, model evaluated in coqc"""
    nproc = max(1, min(C.NCPU, len(cases) // 400))
    chunks = [cases[i::nproc] for i in range(nproc)]
    with ThreadPoolExecutor(nproc) as ex:
        results = list(ex.map(lambda ch: spawn("dispatch", {"rereg": rereg, "cases": ch}), chunks))
    items, kept = ["DTbl"], [None]
    tbl = results[0]["tbl"]
    import_state = [[[0, 0], [2, 1], [4, 2]], []]
    byinput = {}
    for ch, res in zip(chunks, results):
        if res["tbl"] != tbl:
            rep.disagreements.append({"what": "fmt table differs between worker processes"})
        if res["import_snap"] != import_state:
            rep.disagreements.append({"what": "import-time registry/cache of DateTime.unconvert is not the modelled init_state", "implementation": res["import_snap"]})
        for case, obs in zip(ch, res["cases"]):
            inter = any(e[0] == "es" for e in case["events"])
            if "unenc" in obs:
                if len(rep.disagreements) < 50:
                    rep.disagreements.append({"case": case, "implementation": obs["unenc"]})
                rep.count(("dispatch", case), nontrivial=False, kind="dispatch:unencodable")
                continue
            items.append(coq_dcase(case, obs)); kept.append((case, obs))
            changed = any(s[0] != import_state[0] for s in obs["snaps"])
            rep.count(("dispatch", case), nontrivial=changed or bool(obs["seq"]) or any(obs["thr"]),
                      kind="dispatch:%s:%s" % ("interleaved" if inter else "sequential", "registry-rebound" if changed else "registry-unchanged"))
            # property predicate at the converter level: the same (required flag of the caller, value) gives the same outcome in every history
            k = 0
            for e in case["events"]:
                if e[0] == "uc":
                    byinput.setdefault((REQ[e[1]], e[2]), {}).setdefault(json.dumps(obs["seq"][k]), (case, e)); k += 1
            for prog, outs in zip(case["progs"], obs["thr"]):
                ucs = [o for o in prog if o[0] == "uc"]
                for o, r in zip(ucs, outs):
                    byinput.setdefault((REQ[o[1]], o[2]), {}).setdefault(json.dumps(r), (case, o))
    for (req, j), outs in sorted(byinput.items()):
        if len(outs) > 1:
            (o1, (c1, _)), (o2, (c2, e2)) = list(outs.items())[:2]
            fails.append(C.Failure("history-dependent:DateTime.unconvert",
                                   "DateTime(required=%s).unconvert(value #%d) answered %s in one history and %s in another" % (req, j, o1, o2),
                                   {"mode": "dispatch", "case": c2, "other_case": c1, "required": req, "value": j, "outcomes": [o1, o2]}))
    if kept[1:]:
        rep.sample({"dispatch_case": kept[1][0], "implementation": {"registry_and_cache_after_each_event": kept[1][1]["snaps"][-1], "outcomes": kept[1][1]["seq"]}})
    bad = C.coq_bad_indices(PROP, "dispatch" + tag, ["Model.Dispatch", "Model.DispatchCases", "Gen.DispatchGen"],
                            "dcase_ok reregisters method_get_rebinds tbl", "dcase", items, shard=400, prelude=coq_tbl(tbl))
    for i in bad[:50]:
        if i == 0:
            rep.disagreements.append({"what": "hypothesis of the theorems is false: this interpreter does not rebind registered bound methods and _unconvert_datetime called directly gives results that depend on the instance",
                                      "table": [t for t in tbl if t[1] in (3, 4, 6, 10)]})
        else:
            rep.disagreements.append({"case": kept[i][0], "implementation": kept[i][1]})
    return len(items)


def hist_script(rng, groups, gens, nsteps, heavy):
    docs = [g for g in groups if g.startswith("doc:")]
    held = rng.sample(groups, 5) + rng.sample(gens, 5)
    s = [["hold", g] for g in held]
    for _ in range(nsteps):
        x = rng.random()
        if x < 0.12:
            s.append(["chkheld", rng.choice(held), [rng.randrange(10 ** 6), 0.3], rng.choice([1, 1, 2])])
        elif x < 0.22:
            s.append(["act", "dtconv", rng.random() < 0.5, rng.choice(STRS)[0], rng.random() < 0.5])
        elif x < 0.30:
            s.append(["act", "dtunconv", rng.random() < 0.5, rng.randrange(len(VTY))])
        elif x < 0.36:
            s.append(["act", rng.choice(["timeconv"]), rng.random() < 0.5, rng.choice(["123456.789[-5:EST]", "garbage", "235960"])])
        elif x < 0.39:
            s.append(["act", "timeunconv"])
        elif x < 0.44:
            s.append(["act", "gc"])
        elif x < 0.54:
            s.append(["act", "proc", rng.choice(docs)[4:]])
        elif x < 0.58:
            s.append(["act", "procxml", rng.choice(sorted(XMLS))])
        elif x < 0.62:
            s.append(["act", "warn", rng.choice(["always", "ignore", "default", "once"])])
        elif x < 0.68:
            s.append(["act", "gen", rng.choice(gens)[4:], rng.random() < 0.5])
        else:
            g = rng.choice(groups if rng.random() < 0.7 else gens)
            reps = rng.choice([1, 1, 1, 2, 3, 5, 50 if heavy else 10])
            frac = 1.0 if reps == 1 and rng.random() < 0.3 else (0.08 if reps > 5 else 0.25)
            s.append(["chk", g, [rng.randrange(10 ** 6), frac], reps])
    return s


def thread_script(rng, groups, gens, n, per):
    pre = [["act", "dtconv", True, STRS[0][0], True]] if rng.random() < 0.5 else []
    held = rng.sample(groups, min(n, len(groups) // 2)) + rng.sample(gens, n - min(n, len(groups) // 2))     # one held input group per thread
    rng.shuffle(held)
    pre += [["hold", g] for g in held]
    jobs = []
    for i in range(n):
        j = [["chk", rng.choice(groups if rng.random() < 0.75 else gens), [rng.randrange(10 ** 6), 0.12], 1] for _ in range(per)]
        j.insert(rng.randrange(len(j) + 1), ["chkheld", held[i], [rng.randrange(10 ** 6), 0.3], 1])
        j.append(["chkheld", held[i], [rng.randrange(10 ** 6), 0.3], 1])
        jobs.append(j)
    return pre + [["threads", jobs, max(1, min(4, n // 2))]]


def run(rep, tier, rng):
    thorough = tier == "thorough"
    fails = rep.failures
    rereg = current_rereg()
    os.makedirs(os.path.join(C.BUILD, "c17", "xdg"), exist_ok=True)
    corpus = load_corpus()

    # ---------------- (a) dispatch correspondence ----------------
    dcases = [c for c in corpus if c.get("kind") == "dispatch"]
    dcases = [{"progs": c["progs"], "events": c["events"]} for c in dcases]
    dcases.append({"progs": [], "events": []})
    dcases += [gen_dcase(rng) for _ in range(30000 if thorough else 2000)]

    # ---------------- (b) purity / repeatability / threads on the implementation ----------------
    if os.path.exists(inv_path()):
        os.remove(inv_path())
    inv = spawn("inventory", {"repo": C.REPO})
    with open(inv_path(), "w") as f:
        json.dump(inv, f)
    # eq: equal-but-not-identical arguments, one group per member; mx: accepted and REJECTED constructions / conversions of every class
    # with exclusivity groups or a validate_args hook, repeated, with the class-level tables snapshotted around them
    groups = (["doc:" + d for d in inv["docs"]] + ["xml:" + x for x in inv["xml"]] + ["rq:" + n for n in inv["rq"]] + ["eq:" + n for n in inv["eq"]]
              + ["mx:" + c for c in sorted(inv["mx"])]
              # mxr: only the sets that break a group, last group first (another refusal is the first thing asked of the class)
              + ["mxr:" + c for c in sorted(inv["mx"]) if inv["mx"][c]["opt"] or inv["mx"][c]["req"]])
    gens = ["gen:" + c for c in inv["classes"]]
    base = [["chk", g, None, 1] for g in groups + gens]
    scripts = [("baseline", base)]
    for c in corpus:
        if c.get("kind") == "script":
            scripts.append(("corpus:" + c["_file"], c["script"]))
    nrot = 8 if thorough else 3
    for r in range(1, nrot + 1):      # every group early in some clean process, and in reverse
        k = (len(base) * r) // (nrot + 1)
        rot = base[k:] + base[:k]
        scripts.append(("rotation%d" % r, rot[::-1] if r % 2 else rot))
    for h in range(24 if thorough else 4):
        scripts.append(("history%d" % h, hist_script(rng, groups, gens, 160 if thorough else 70, thorough)))
    for n in (1, 2, 4, 8, 16):
        for r in range(6 if thorough else 1):
            scripts.append(("threads%d.%d" % (n, r), thread_script(rng, groups, gens, n, 6 if thorough else 3)))

    with ThreadPoolExecutor(C.NCPU) as ex:
        fut_d = ex.submit(run_dispatch, rep, dcases, rereg, fails, "")
        futs = [(name, sc, ex.submit(spawn, "script", {"repo": C.REPO, "script": sc})) for name, sc in scripts]
        results = [(name, sc, f.result()["records"]) for name, sc, f in futs]
        fut_d.result()

    ref, ref_step = {}, {}
    for r in results[0][2]:
        ref[r["k"]] = r; ref_step[r["k"]] = r["step"]
    per_key = {}

    def fail(key, what, replay):
        per_key[key] = per_key.get(key, 0) + 1
        if per_key[key] <= 2:
            fails.append(C.Failure(key, what, replay))

    clean_cache = {}

    def clean(k):
        """the answer for record key k in a fresh process that does nothing but the check of k's group"""
        g = group_of_key(k)
        if g not in clean_cache:
            try:
                clean_cache[g] = {r["k"]: r for r in spawn("script", {"repo": C.REPO, "script": [["chk", g, None, 1]]})["records"]}
            except Exception:     # noqa
                clean_cache[g] = {}
        return clean_cache[g].get(k)

    n_thr = 0
    for name, sc, recs in results:
        kind = "threads" if name.startswith("threads") else ("baseline" if name == "baseline" else "history")
        tainted = set()     # (group, thread): the construction of the group's inputs already differed in this run - derived differences are consequences
        for r in recs:
            call, k = r["c"], r["k"]
            rep.count((name, k, r["step"], r.get("thr")), nontrivial=r["ok"], kind="purity:%s:%s:%s" % (kind, call, "ok" if r["ok"] else "error"))
            n_thr += kind == "threads"
            g, where = group_of_key(k), (group_of_key(k), r["step"], r.get("thr"))
            if where in tainted and call not in ("parse",):
                continue
            if r["mut"]:
                fail("impure:input-mutated:%s" % call, "%s modified its input (%s): %s" % (call, k, r["mutp"]),
                     {"mode": "script", "script": [["chk", g, None, 1]], "key": k, "expect": "unmutated"})
            if len(r["d"]) > 1:
                fail("repeat-dependent:%s" % call, "%s on the same input object (%s) gave %d different results in %d repetitions: %s"
                     % (call, k, len(r["d"]), r["n"], r["p"]),
                     {"mode": "script", "script": [sc[r["step"]]], "key": k, "expect": "single"})
                if call in ("parse", "convert"): tainted.add(where)
            b = ref.get(k)
            if b is None or r["d"][0] == b["d"][0]:
                continue
            if call in ("parse", "convert"): tainted.add(where)
            which = "thread-dependent" if kind == "threads" else "history-dependent"
            fkey = "%s:%s" % (which, call)
            if per_key.get(fkey, 0) >= 2:
                per_key[fkey] += 1
                continue
            c = clean(k)      # which of the two runs departs from the clean-process answer?
            cd = c["d"][0] if c else b["d"][0]
            if r["d"][0] != cd:
                fail(fkey, "%s on %s gave %s in a clean process and %s in run %r (step %d)" % (call, k, (c or b)["p"], r["p"], name, r["step"]),
                     {"mode": "script", "script": sc[:r["step"] + 1], "key": k, "expect": cd, "times": 5 if kind == "threads" else 1, "run": name})
            else:
                fail("history-dependent:%s" % call, "%s on %s gave %s in a clean process and %s in run 'baseline' (step %d)"
                     % (call, k, c["p"], b["p"], ref_step[k]),
                     {"mode": "script", "script": results[0][1][:ref_step[k] + 1], "key": k, "expect": cd, "times": 1, "run": "baseline"})
    # shrink the history of the first history-dependent failure of each key (delta debugging, small budget)
    done = set()
    for f in list(fails):
        if f.key.startswith("history-dependent:") and f.replay.get("mode") == "script" and f.replay.get("times") == 1 and f.key not in done and len(done) < 3:
            done.add(f.key)
            f.replay["script"] = shrink(f.replay["script"], f.replay["key"], f.replay["expect"])
    rep.extra["failure_counts"] = per_key
    for name, sc, recs in results:
        if name.startswith("history") and recs:
            rep.sample({"run": name, "steps": len(sc), "first_steps": sc[:4], "records": len(recs), "example": {k: recs[0][k] for k in ("k", "d", "mut", "p")}})
            break
    rep.extra["purity_runs"] = {name: len(recs) for name, sc, recs in results}
    rep.extra["purity_distinct_inputs"] = len(ref)
    rep.extra["thread_evaluations"] = n_thr
    rep.rule = ("(a) dispatch correspondence: random workloads of 0..30 events over 1..6 DateTime instances (required flags mixed), strings that reach / "
                "do not reach normalize_to_gmt, 11 values of 7 classes, Time operations as distractors, 0..4 threads stepped atomically under a random "
                "schedule (harness re-enactment on the real registry/cache); registry and cache observed after every event. non-trivial = registry "
                "rebound or an unconvert completed. (b) purity: every call on every document / subtree / nested instance / generically constructed "
                "instance of every exported Aggregate class, in a clean process (baseline), in rotated and reversed orders, after random histories "
                "(date-time conversions by kept and collected instances, failing documents, unknown tags, warning filters, Time operations, datetime "
                "subclasses), plus eq groups (equal-but-not-identical arguments: one instant in several zones, one offset under several zone names, equal Decimals of "
                "different exponent, 1/True, a str subclass - each member's written TEXT against that call alone in a clean process) and mx groups (valid and "
                "REJECTED keyword sets / element trees of every class with exclusivity groups or a validate_args hook, three rounds each after all the others, class-level "
                "tables snapshotted without consuming them), repeated up to 50 times, and in 1..16 threads with hammer threads re-registering; non-trivial = the call returned a value; "
                "distinct by (run, call, input)")


def group_of_key(k):
    g = k.split("|", 1)[1].split("#")[0].split("@")[0].split("~")[0]
    return g[:-2] if g.startswith("gen:") else g


def shrink(script, key, expect, budget=14):
    """ddmin over the steps before the final one: keep the failure `digest of key != expect`"""
    head, last = script[:-1], script[-1]

    def bad(h):
        try:
            recs = spawn("script", {"repo": C.REPO, "script": h + [last]})["records"]
        except Exception:     # noqa
            return False
        return any(r["k"] == key and r["step"] == len(h) and r["d"][0] != expect for r in recs)
    n = 2
    while len(head) >= 1 and budget > 0:
        size = max(1, len(head) // n)
        chunks = [head[i:i + size] for i in range(0, len(head), size)]
        for i in range(len(chunks)):
            if budget <= 0: break
            cand = [x for j, c in enumerate(chunks) if j != i for x in c]
            budget -= 1
            if bad(cand):
                head, n = cand, max(n - 1, 2)
                break
        else:
            if size == 1: break
            n = min(len(head), n * 2)
    return head + [last]


def replay(obj):
    C.use_repo()
    os.makedirs(os.path.join(C.BUILD, "c17", "xdg"), exist_ok=True)
    if os.path.exists(inv_path()):
        os.remove(inv_path())
    with open(inv_path(), "w") as f:
        json.dump(spawn("inventory", {"repo": C.REPO}), f)
    r = obj["replay"]
    if r["mode"] == "dispatch":
        rereg = current_rereg()
        res = spawn("dispatch", {"rereg": rereg, "cases": [r["other_case"], r["case"]]})
        print("replay: outcomes of DateTime(required=%s).unconvert(value #%d) in two histories" % (r["required"], r["value"]))
        outs = set()
        for case, obs in zip([r["other_case"], r["case"]], res["cases"]):
            if "unenc" in obs:
                print("  implementation state outside the model:", obs["unenc"]); outs.add(obs["unenc"]); continue
            k = 0
            for e in case["events"]:
                if e[0] == "uc":
                    if REQ[e[1]] == r["required"] and e[2] == r["value"]: outs.add(json.dumps(obs["seq"][k]))
                    k += 1
            for prog, o in zip(case["progs"], obs["thr"]):
                for op, x in zip([q for q in prog if q[0] == "uc"], o):
                    if REQ[op[1]] == r["required"] and op[2] == r["value"]: outs.add(json.dumps(x))
        print("  distinct outcomes:", sorted(outs))
        bad = len(outs) > 1
    else:
        bad = False
        want = None
        if r["expect"] not in ("unmutated", "single"):
            base = spawn("script", {"repo": C.REPO, "script": [["chk", group_of_key(r["key"]), None, 1]]})["records"]
            b = [y for y in base if y["k"] == r["key"]]
            want = b[0]["d"][0] if b else r["expect"]
            print("replay: %s in a clean process: %s" % (r["key"], b[0]["p"][:100] if b else "(recorded digest %s)" % want))
        for t in range(r.get("times", 1)):
            recs = spawn("script", {"repo": C.REPO, "script": r["script"]})["records"]
            for x in [x for x in recs if x["k"] == r["key"] and x["step"] == len(r["script"]) - 1]:
                if r["expect"] == "unmutated":
                    print("replay %s: input %s" % (x["k"], "MODIFIED: " + x["mutp"] if x["mut"] else "unchanged")); bad |= x["mut"]
                elif r["expect"] == "single":
                    print("replay %s: %d distinct result(s) in %d repetitions" % (x["k"], len(x["d"]), x["n"])); bad |= len(x["d"]) > 1
                elif x["d"][0] != want:
                    print("replay: %s after the recorded history of %d step(s) (attempt %d): %s" % (x["k"], len(r["script"]) - 1, t + 1, x["p"][:100])); bad = True
            if bad: break
        if not bad:
            print("replay: no difference observed")
    if bad:
        print("VIOLATION property=C17 replay=(this file)")
    return 1 if bad else 0


if __name__ == "__main__":
    mode = sys.argv[1]
    job = json.loads(sys.stdin.read())
    sys.stdout.write(json.dumps({"dispatch": w_dispatch, "script": w_script, "inventory": w_inventory}[mode](job)))
