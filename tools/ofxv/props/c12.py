"""C12 - headers round-trip for every supported version; invalid headers are refused with the header error
(ofxtools/header.py: OFXHeaderV1/V2 validators, __init__, __str__, regexes, OFXHeaderBase.parse, make_header;
Types.py: OneOf, Integer, String).  Also holds the harness pieces shared with C05 (same engine `Header`)."""
import io, os, json, glob, string, itertools
from .. import common as C
from ..translate_header import gen_header

PROP = "C12"
# ofxtools.config resolves (and creates) its user directories when `ofxtools` is first imported: keep them inside build/ (set before any import of
# ofxtools, i.e. at import of this module; the front-door streams below go through ofxtools.Client and ofxtools.scripts.ofxget)
import atexit, shutil
_SCRATCH = os.path.join(C.BUILD, "scratch", "header-%d" % os.getpid())
os.makedirs(_SCRATCH, exist_ok=True)
for _k in ("HOME", "XDG_CONFIG_HOME", "XDG_DATA_HOME", "XDG_CACHE_HOME"):
    os.environ[_k] = _SCRATCH
atexit.register(shutil.rmtree, _SCRATCH, ignore_errors=True)
COQ_EXTRA = ["theories/Model/HeaderCases.vo", "theories/Gen/HeaderGen.vo"]
PARTIAL = [
    "int(str) is modelled for texts of at most 4300 digits (CPython's int-string limit raises ValueError beyond; same outcome: refused)",
    "constructor / make_header arguments are modelled as int-or-str (version, ofxheader) and optional str (the rest); other Python types (None version, floats, bytes) are outside the model",
    "the text-level refusal theorems (missing_or_transposed_field_rejected, v*_field_domain) quantify over header texts whose values and separators contain no ':'",
]
MANIFEST = {
    "engine": "Header",
    "text": "Theorems about an executable Gallina transcription of header.py (constructors with the class-level OneOf/Integer/String validators regenerated "
            "from the live module, __str__, hand recognisers of the three regexes with re's search/backtracking semantics, OFXHeaderBase.parse, make_header): "
            "make_header yields the flat-text kind exactly for 1xx and the XML kind exactly for the seven supported 2xx versions and refuses everything else; "
            "str-then-parse returns the same fields for every version 100-199 / supported 2xx, both security levels and all UIDs over [A-Za-z0-9_-]{1,36}; every "
            "header text the regex accepts whose field is outside its domain is refused with OFXHeaderError; texts with a mandatory field missing or two fields "
            "transposed do not match. The model is tied to header.py by evaluating it (vm_compute inside coqc) on the same ~10^4 cases as the implementation, "
            "exception class compared.",
    "note": "Trusted: Coq kernel + vm_compute; the hand transcription Model/Header.v (validated by the correspondence run only); the translator of the validator "
            "tables and of the Unicode classes of the running Python. Print Assumptions: closed under the global context.",
}
IMPORTS = ["Base.Digits", "Gen.HeaderGen", "Model.Header", "Model.HeaderCases"]

# ---- what the OFX specification (and the property text) call valid: the oracle's own tables, not the library's ----
SPEC_V1_VERSIONS = [102, 103, 151, 160]
SPEC_V2_VERSIONS = [200, 201, 202, 203, 210, 211, 220]
SPEC_SECURITY = ["NONE", "TYPE1"]
SPEC = {"DATA": ["OFXSGML"], "SECURITY": SPEC_SECURITY, "ENCODING": ["USASCII", "UNICODE", "UTF-8"],
        "CHARSET": ["ISO-8859-1", "1252", "NONE"], "COMPRESSION": ["NONE"]}
SPEC_CODEC = {"ISO-8859-1": "latin_1", "1252": "cp1252", "NONE": "utf_8"}
V1_FIELDS = ["OFXHEADER", "DATA", "VERSION", "SECURITY", "ENCODING", "CHARSET", "COMPRESSION", "OLDFILEUID", "NEWFILEUID"]
V2_FIELDS = ["OFXHEADER", "VERSION", "SECURITY", "OLDFILEUID", "NEWFILEUID"]
UID_ALPHA = string.ascii_letters + string.digits + "_-"
XML_DECL = '<?xml version="1.0" encoding="UTF-8" standalone="no"?>'


def translate():
    return gen_header()


def hmod():
    C.use_repo()
    import ofxtools.header as H
    return H


# ------------------------------------------------------------------ running the implementation
def call(H, fn, *args, **kw):
    """('ok', value) | ('reject', class) for OFXHeaderError | ('crash', class) for anything else."""
    try:
        return ("ok", fn(*args, **kw))
    except H.OFXHeaderError as e:
        return ("reject", type(e).__name__)
    except Exception as e:
        return ("crash", type(e).__name__)


def fields_of(H, h):
    try:
        if isinstance(h, H.OFXHeaderV1):
            return ("v1", h.ofxheader, h.data, h.version, h.security, h.encoding, h.charset, h.compression, h.oldfileuid, h.newfileuid)
        if isinstance(h, H.OFXHeaderV2):
            return ("v2", h.ofxheader, h.version, h.security, h.oldfileuid, h.newfileuid)
    except Exception as e:           # a header object without (all of) its fields
        return ("broken", type(h).__name__, type(e).__name__)
    return ("not-a-header", type(h).__name__)


def canon(H, out, shape):
    """make the outcome JSON-able / comparable: shape in 'hdr+str', 'hdr+end', 'hdr+body', 'bool', 'text'."""
    if out[0] != "ok":
        return out
    v = out[1]
    try:
        if shape == "hdr+str":
            f, t = fields_of(H, v), str(v)
        elif shape in ("hdr+end", "hdr+body"):
            f, t = fields_of(H, v[0]), v[1]
        else:
            return ("ok", v)
    except Exception as e:          # str() of a header object without its fields (a constructor that swallowed an error)
        return ("crash", "broken-header-object:" + type(e).__name__)
    if f[0] not in ("v1", "v2"):
        return ("crash", "broken-header-object")
    return ("ok", f, t)


# ------------------------------------------------------------------ Coq terms
def cz(n):
    return "(%d)%%Z" % n


def cpyv(v):
    return "(VInt %s)" % cz(v) if isinstance(v, int) else "(VStr %s)" % C.ctext(v)


def cot(x):
    return C.copt(x, C.ctext)


def chdr(f, wrap):
    if f[0] == "v1":
        t = "(Hdr1 %s %s %s %s %s %s %s %s %s)" % (cz(f[1]), C.ctext(f[2]), cz(f[3]), C.ctext(f[4]), C.ctext(f[5]), C.ctext(f[6]), C.ctext(f[7]), C.ctext(f[8]), C.ctext(f[9]))
        return "(H1 %s)" % t if wrap else t
    t = "(Hdr2 %s %s %s %s %s)" % (cz(f[1]), cz(f[2]), C.ctext(f[3]), C.ctext(f[4]), C.ctext(f[5]))
    return "(H2 %s)" % t if wrap else t


def cres(out, okterm):
    if out[0] == "ok":
        return "(OK %s)" % okterm(out)
    return "(Err Reject)" if out[0] == "reject" else "(Err Crash)"


def coq_case(case, out):
    k = case[0]
    if k == "ctor1":
        _, v, oh, da, se, en, ch, co, ol, ne = case
        return "CCtor1 %s %s %s %s %s %s %s %s %s %s" % (cpyv(v), C.copt(oh, cpyv), cot(da), cot(se), cot(en), cot(ch), cot(co), cot(ol), cot(ne),
                                                         cres(out, lambda o: "(%s,%s)" % (chdr(o[1], False), C.ctext(o[2]))))
    if k == "ctor2":
        _, v, oh, se, ol, ne = case
        return "CCtor2 %s %s %s %s %s %s" % (cpyv(v), C.copt(oh, cpyv), cot(se), cot(ol), cot(ne), cres(out, lambda o: "(%s,%s)" % (chdr(o[1], False), C.ctext(o[2]))))
    if k in ("parse1", "parse2"):
        return "%s %s %s" % ("CParse1" if k == "parse1" else "CParse2", C.ctext(case[1]), cres(out, lambda o: "(%s,%s)" % (chdr(o[1], False), C.cN(o[2]))))
    if k == "make":
        _, v, se, ol, ne = case
        return "CMake %s %s %s %s %s" % (cpyv(v), cot(se), cot(ol), cot(ne), cres(out, lambda o: "(%s,%s)" % (chdr(o[1], True), C.ctext(o[2]))))
    if k == "xml":
        return "CXml %s %s" % (C.ctext(case[1]), C.cbool(out[1]))
    if k == "ph":
        return "CPH %s %s" % (C.ctext(case[1]), cres(out, lambda o: "(%s,%s)" % (chdr(o[1], True), C.ctext(o[2]))))
    if k == "decode":
        return "CDecode %d %s %s" % (case[1], C.ctext(case[2]), cres(out, lambda o: C.ctext(o[1])))
    if k == "int":
        return "CInt %s %s" % (C.ctext(case[1]), "None" if out[0] != "ok" else "(Some %s)" % cz(out[1]))
    raise ValueError(k)


CODEC_NAMES = {0: "latin_1", 1: "cp1252", 2: "utf_8"}


def run_impl(H, case):
    k = case[0]
    if k == "ctor1":
        _, v, oh, da, se, en, ch, co, ol, ne = case
        return canon(H, call(H, H.OFXHeaderV1, v, ofxheader=oh, data=da, security=se, encoding=en, charset=ch, compression=co, oldfileuid=ol, newfileuid=ne), "hdr+str")
    if k == "ctor2":
        _, v, oh, se, ol, ne = case
        return canon(H, call(H, H.OFXHeaderV2, v, ofxheader=oh, security=se, oldfileuid=ol, newfileuid=ne), "hdr+str")
    if k == "parse1":
        return canon(H, call(H, H.OFXHeaderV1.parse, case[1]), "hdr+end")
    if k == "parse2":
        return canon(H, call(H, H.OFXHeaderV2.parse, case[1]), "hdr+end")
    if k == "make":
        _, v, se, ol, ne = case
        return canon(H, call(H, H.make_header, v, security=se, oldfileuid=ol, newfileuid=ne), "hdr+str")
    if k == "xml":
        return ("ok", bool(H.XML_REGEX.match(case[1])))
    if k == "ph":
        return canon(H, call(H, lambda b: H.parse_header(io.BytesIO(b)), case[1]), "hdr+body")
    if k == "decode":
        try:
            return ("ok", case[2].decode(CODEC_NAMES[case[1]]))
        except UnicodeDecodeError as e:
            return ("crash", type(e).__name__)
    if k == "int":
        try:
            return ("ok", int(case[1]))
        except ValueError as e:
            return ("reject", "ValueError")
    raise ValueError(k)


def correspond(rep, H, cases, name, prop, kindf=None):
    """run every distinct case on the implementation and on the model; -> list of (case, implementation outcome)."""
    seen, items, kept = set(), [], []
    for case in cases:
        key = repr(case)
        if key in seen:
            continue
        seen.add(key)
        out = run_impl(H, case)
        items.append(coq_case(case, out))
        kept.append((case, out))
        rep.count(case, nontrivial=(out[0] == "ok" and out[1] is not False), kind="%s:%s" % (case[0], out[0] if case[0] != "xml" else out[1]))
    for k in (0, len(kept) // 3, 2 * len(kept) // 3, len(kept) - 1):
        if kept:
            rep.sample({"case": jsonable(kept[k][0]), "implementation": jsonable(kept[k][1])})
    bad = C.coq_bad_indices(prop, name, IMPORTS, "hcase_ok", "hcase", items, shard=max(150, min(600, len(items) // 15 + 1)))
    for i in bad[:50]:
        rep.disagreements.append({"case": jsonable(kept[i][0]), "implementation": jsonable(kept[i][1])})
    return kept, bad


def jsonable(x):
    if isinstance(x, (bytes, bytearray)):
        return {"bytes_hex": bytes(x).hex()}
    if isinstance(x, (list, tuple)):
        return [jsonable(y) for y in x]
    return x


def unjson(x):
    if isinstance(x, dict) and "bytes_hex" in x:
        return bytes.fromhex(x["bytes_hex"])
    if isinstance(x, list):
        return tuple(unjson(y) for y in x)
    return x


# ------------------------------------------------------------------ header texts
def render_v1(fields, sep="\r\n", blank="", tail="\r\n\r\n", lead=""):
    return lead + sep.join("%s:%s%s" % (n, blank, v) for n, v in fields) + tail


def render_v2(fields, xml=XML_DECL, a="\r\n", b="\r\n", attr_sep=" "):
    return xml + a + "<?OFX " + attr_sep.join('%s="%s"' % (n, v) for n, v in fields) + "?>" + b


def valid_v1_fields(version, security, old, new, encoding="USASCII", charset="NONE"):
    return [("OFXHEADER", "100"), ("DATA", "OFXSGML"), ("VERSION", str(version)), ("SECURITY", security), ("ENCODING", encoding),
            ("CHARSET", charset), ("COMPRESSION", "NONE"), ("OLDFILEUID", old), ("NEWFILEUID", new)]


def valid_v2_fields(version, security, old, new):
    return [("OFXHEADER", "200"), ("VERSION", str(version)), ("SECURITY", security), ("OLDFILEUID", old), ("NEWFILEUID", new)]


def corruptions(kind, fields, rng):
    """every single-field corruption, omission and transposition of a valid field list:
    -> list of (label, corrupted field list); each result is an INVALID header by construction."""
    names = [n for n, _ in fields]
    out = []

    def setv(name, v):
        return [(n, v if n == name else x) for n, x in fields]
    bad_tokens = {"DATA": ["OFXXML", "SGML", "OFXSGMLX"], "SECURITY": ["TYPE2", "NONE1", "none", "X"], "ENCODING": ["LATIN1", "USASCII8", "UTF-16"],
                  "CHARSET": ["UTF-8", "1251", "ISO-8859-15", "none"], "COMPRESSION": ["GZIP", "NONEX", "N"]}
    for name, toks in bad_tokens.items():
        if name in names:
            for t in toks:
                out.append(("domain:%s" % name, setv(name, t)))
    other = "200" if kind == "v1" else "100"
    for t in (other, "1", "1000", "0", "00", "000", "0100" if kind == "v1" else "0200"):
        if t in ("0100", "0200"):
            continue                      # int("0100") == 100: numerically the right kind, not a corruption
        out.append(("domain:OFXHEADER", setv("OFXHEADER", t)))
    for t in ("abc", "1O2", "v102", "10.2", "-102", "1 02", "x", "1_0_2", "+102", "0x66"):
        out.append(("version:non-numeric", setv("VERSION", t)))
    for t in ("1000", "1020", "10200", "99999999"):
        out.append(("version:over-long", setv("VERSION", t)))
    if kind == "v2":
        for t in ("204", "209", "212", "221", "299", "102", "2", "0", "00", "000"):
            out.append(("version:unsupported", setv("VERSION", t)))
    long_uid = "".join(rng.choice(UID_ALPHA) for _ in range(rng.choice([37, 38, 64])))
    out.append(("uid:over-long", setv("OLDFILEUID", long_uid)))
    out.append(("uid:over-long", setv("NEWFILEUID", long_uid)))
    for i, n in enumerate(names):
        if kind == "v1" and n == "COMPRESSION":
            continue                      # the library (and the wild) allow its omission: not a corruption
        out.append(("missing:%s" % n, fields[:i] + fields[i + 1:]))
    for i, j in itertools.combinations(range(len(fields)), 2):
        f = list(fields)
        f[i], f[j] = f[j], f[i]
        out.append(("transposed:%s/%s" % (names[i], names[j]), f))
    return out


def rand_uid(rng, n=None):
    n = n or rng.choice([1, 2, 4, 8, 16, 32, 35, 36])
    return "".join(rng.choice(UID_ALPHA) for _ in range(n))


BODY = "<OFX><SIGNONMSGSRSV1></SIGNONMSGSRSV1></OFX>"


# ------------------------------------------------------------------ the check
def load_corpus(prop):
    out = []
    for p in sorted(glob.glob(os.path.join(C.VERIF, "corpus", prop, "*.json"))):
        obj = json.load(open(p))
        for c in obj.get("cases", [obj.get("replay", {}).get("case")] if obj.get("replay") else []):
            if c:
                out.append(unjson(c))
    return out


def run(rep, tier, rng):
    H = hmod()
    thorough = tier == "thorough"
    fails = rep.failures
    cases = list(load_corpus(PROP))

    def fail(key, what, case, expect="reject"):
        fails.append(C.Failure(key, what, {"case": jsonable(case), "expect": jsonable(expect)}))

    # ---------- A. generation and round trip, every supported version and every three-digit v1 version ----------
    versions1 = sorted(set(SPEC_V1_VERSIONS) | set(range(100, 200)))
    n_uid = 6 if thorough else 1
    for v in versions1 + SPEC_V2_VERSIONS:
        # quick tier: every version, all security levels for the versions of the specification, one (random) level for the other 1xx numbers
        for sec in (SPEC_SECURITY + [None] if (thorough or v in SPEC_V1_VERSIONS or v in SPEC_V2_VERSIONS) else [rng.choice(SPEC_SECURITY + [None])]):
            for k_uid in range(n_uid + 1):
                old, new = rng.choice([None, "NONE", rand_uid(rng)]), rng.choice([None, rand_uid(rng), rand_uid(rng, 36)])
                if k_uid == n_uid:          # every character class of the UID alphabet, always
                    old, new = rng.choice(["a_b", "_", "A-b_9", "-_-"]), rng.choice(["Z_9-x", "_" * 36, "0-9_a-Z"])
                vv = rng.choice([v, str(v)])
                case = ("make", vv, sec, old, new)
                cases.append(case)
                out = call(H, H.make_header, vv, security=sec, oldfileuid=old, newfileuid=new)
                if out[0] != "ok":
                    fail("make_header:valid-arguments-refused", "make_header(%r, %r, %r, %r) -> %r" % (vv, sec, old, new, out), case, "ok")
                    continue
                h = out[1]
                st = call(H, str, h)
                if st[0] != "ok":
                    fail("make_header:str-raises", "str(make_header(%r, %r, %r, %r)) raised %s" % (vv, sec, old, new, st[1]), case, "ok")
                    continue
                text = st[1]
                want_kind = "v1" if v < 200 else "v2"
                flat = text.startswith("OFXHEADER:100\r\nDATA:OFXSGML\r\nVERSION:%d\r\n" % v) and "<?" not in text
                xmlk = text.startswith("<?xml ") and ("<?OFX OFXHEADER=\"200\" VERSION=\"%d\"" % v) in text
                cls_ok = isinstance(h, H.OFXHeaderV1 if v < 200 else H.OFXHeaderV2)
                if not cls_ok or not (flat if v < 200 else xmlk):
                    fail("make_header:wrong-kind", "make_header(%r) gave %s: %r" % (vv, type(h).__name__, text[:60]), case, ["kind", "v1" if v < 200 else "v2"])
                    continue
                want = ((want_kind, 100, "OFXSGML", v, sec or "NONE", "USASCII", "NONE", "NONE", old or "NONE", new or "NONE") if v < 200
                        else (want_kind, 200, v, sec or "NONE", old or "NONE", new or "NONE"))
                if fields_of(H, h) != want:
                    fail("make_header:fields-differ", "make_header(%r, %r, %r, %r) has fields %r" % (vv, sec, old, new, fields_of(H, h)), case, ["fields", want])
                pk = "parse1" if v < 200 else "parse2"
                cases.append((pk, text))
                back = call(H, type(h).parse, text)
                if back[0] != "ok" or fields_of(H, back[1][0]) != want:
                    fail("roundtrip:%s:parse(str(h))-differs" % want_kind, "%s.parse(str(make_header(%r,%r,%r,%r))) -> %r" % (type(h).__name__, vv, sec, old, new, back[:1] + ((fields_of(H, back[1][0]),) if back[0] == "ok" else back[1:])), (pk, text), ["fields", want])
                data = text.encode("ascii") + BODY.encode("ascii")
                cases.append(("ph", data))
                back = call(H, lambda b: H.parse_header(io.BytesIO(b)), data)
                if back[0] != "ok" or fields_of(H, back[1][0]) != want:
                    fail("roundtrip:%s:parse_header(str(h)+body)-differs" % want_kind, "parse_header(str(make_header(%r,%r,%r,%r)) + body) -> %r" % (vv, sec, old, new, back[:1]), ("ph", data), ["fields", want])

    # ---------- B. every single-field corruption, omission, transposition is refused with the header error ----------
    n_base = 10 if thorough else 3
    for kind in ("v1", "v2"):
        for _ in range(n_base):
            if kind == "v1":
                base = valid_v1_fields(rng.choice(versions1), rng.choice(SPEC_SECURITY), rng.choice(["NONE", rand_uid(rng)]), rand_uid(rng),
                                       rng.choice(SPEC["ENCODING"]), rng.choice(SPEC["CHARSET"]))
            else:
                base = valid_v2_fields(rng.choice(SPEC_V2_VERSIONS), rng.choice(SPEC_SECURITY), rng.choice(["NONE", rand_uid(rng)]), rand_uid(rng))
            for label, f in corruptions(kind, base, rng):
                text = render_v1(f) if kind == "v1" else render_v2(f)
                cls = H.OFXHeaderV1 if kind == "v1" else H.OFXHeaderV2
                pcase = ("parse1" if kind == "v1" else "parse2", text)
                cases.append(pcase)
                out = call(H, cls.parse, text)
                lab = "transposed" if label.startswith("transposed") else label
                if out[0] != "reject":
                    fail("refusal:%s:%s:%s" % (kind, lab, "accepted" if out[0] == "ok" else "wrong-exception"),
                         "%s.parse of a header with %s -> %r" % (cls.__name__, label, out[:1] if out[0] == "ok" else out), pcase)
                data = text.encode("ascii") + BODY.encode("ascii")
                hcase = ("ph", data)
                cases.append(hcase)
                out = call(H, lambda b: H.parse_header(io.BytesIO(b)), data)
                if out[0] != "reject":
                    fail("refusal:%s:%s:parse_header:%s" % (kind, lab, "accepted" if out[0] == "ok" else "wrong-exception"),
                         "parse_header of a %s header with %s -> %r" % (kind, label, out[:1] if out[0] == "ok" else out), hcase)

    # ---------- C. make_header refuses versions that are neither 1xx nor 2xx, unsupported 2xx, non-numeric ----------
    bad_versions = [0, 1, 2, 10, 99, 300, 301, 400, 999, 1000, 1020, 10200, -1, -100, -102, -150, -200] + [v for v in range(200, 300) if v not in SPEC_V2_VERSIONS]
    bad_versions += [rng.randrange(300, 100000) for _ in range(40 if thorough else 10)] + [rng.randrange(-1000, 100) for _ in range(40 if thorough else 10)]
    for v in bad_versions:
        for vv in (v, str(v)):
            case = ("make", vv, rng.choice([None, "NONE", "TYPE1"]), None, rand_uid(rng))
            cases.append(case)
            out = call(H, H.make_header, *case[1:])
            if out[0] != "reject":
                cls = "2xx-unsupported" if 200 <= v < 300 else "not-1xx-or-2xx"
                fail("make_header:%s:%s" % (cls, "accepted" if out[0] == "ok" else "wrong-exception"), "make_header(%r) -> %r" % (vv, out[:1] if out[0] == "ok" else out), case)
    # texts int() cannot read, incl. those str.isdigit() / str.isnumeric() accept (category No / Nl digits: superscript, circled, Ethiopic,
    # Kharoshthi, Roman numeral, vulgar fraction) and a digit string past CPython's 4300-digit int conversion limit
    isdigit_not_int = ["10²", "²00", "①02", "፩02", "\U00010a40" + "02", "1\u2082" + "2", "Ⅷ", "½", "1" * 4301, "102" + "0" * 4300]
    for vv in ["abc", "", "1O2", "10.2", "1e2", "0x66", "one", "v1", "--102", "1 02", "١٠٢x", "1__02", "_102", "102_", "1 0 2", "\x00102"] + isdigit_not_int:
        case = ("make", vv, None, None, None)
        cases.append(case)
        out = call(H, H.make_header, vv)
        if out[0] != "reject":
            fail("make_header:non-numeric:%s" % ("accepted" if out[0] == "ok" else "wrong-exception"), "make_header(%r) -> %r" % (vv, out[:1] if out[0] == "ok" else out), case)
    # invalid security level / over-long UID through make_header
    for v in (102, 160, 200, 220):
        for sec, old, new, label in (("TYPE2", None, None, "security"), ("none", None, None, "security"), (None, rand_uid(rng, 37), None, "uid"), (None, None, rand_uid(rng, 40), "uid")):
            case = ("make", v, sec, old, new)
            cases.append(case)
            out = call(H, H.make_header, v, security=sec, oldfileuid=old, newfileuid=new)
            if out[0] != "reject":
                fail("make_header:invalid-%s:%s" % (label, "accepted" if out[0] == "ok" else "wrong-exception"), "make_header%r -> %r" % (case[1:], out[:1] if out[0] == "ok" else out), case)

    # ---------- C'. the constructors themselves refuse invalid arguments with the header error (exception CLASS checked) ----------
    non_numeric = ["1O2", "abc", "10.2", "1e2", "0x66", "v102", "--1", "1 02", "one", "١٠٢x", "1__0", "_1", "10²", "①02", "፩02", "Ⅷ", "1" * 4301]
    for t in non_numeric:
        for case, label in ((("ctor1", t, None, None, None, None, None, None, None, None), "v1:non-numeric-version"),
                            (("ctor1", 102, t, None, None, None, None, None, None, None), "v1:non-numeric-ofxheader"),
                            (("ctor2", t, None, None, None, None), "v2:non-numeric-version"),
                            (("ctor2", 200, t, None, None, None), "v2:non-numeric-ofxheader")):
            cases.append(case)
            out = run_impl(H, case)
            if out[0] != "reject":
                fail("ctor:%s:%s" % (label, "accepted" if out[0] == "ok" else "wrong-exception"), "%s(%s) -> %r" % ("OFXHeaderV1" if case[0] == "ctor1" else "OFXHeaderV2", ", ".join(repr(x) for x in case[1:3]), out[:2]), case)
    bad_ctor = [(("ctor1", 1000, None, None, None, None, None, None, None, None), "v1:version-over-long"), (("ctor1", "99999", None, None, None, None, None, None, None, None), "v1:version-over-long"),
                (("ctor1", 102, 200, None, None, None, None, None, None, None), "v1:ofxheader"), (("ctor1", 102, None, "OFXXML", None, None, None, None, None, None), "v1:data"),
                (("ctor1", 102, None, None, "TYPE2", None, None, None, None, None), "v1:security"), (("ctor1", 102, None, None, None, "LATIN1", None, None, None, None), "v1:encoding"),
                (("ctor1", 102, None, None, None, None, "UTF-8", None, None, None), "v1:charset"), (("ctor1", 102, None, None, None, None, None, "GZIP", None, None), "v1:compression"),
                (("ctor1", 102, None, None, None, None, None, None, "x" * 37, None), "v1:uid-over-long"), (("ctor1", 102, None, None, None, None, None, None, None, "y" * 37), "v1:uid-over-long"),
                (("ctor2", 204, None, None, None, None), "v2:version-unsupported"), (("ctor2", "102", None, None, None, None), "v2:version-unsupported"),
                (("ctor2", 200, 100, None, None, None), "v2:ofxheader"), (("ctor2", 200, None, "TYPE2", None, None), "v2:security"),
                (("ctor2", 200, None, None, "x" * 37, None), "v2:uid-over-long"), (("ctor2", 200, None, None, None, "y" * 40), "v2:uid-over-long")]
    # zero and its spellings: falsy for Python, still outside every numeric domain (an int 0 for ofxheader means "use the default")
    for z in ("0", "00", "000", "+0", "-0", " 0 ", "0_0", "٠"):
        bad_ctor += [(("ctor1", 102, z, None, None, None, None, None, None, None), "v1:ofxheader-zero"), (("ctor2", 200, z, None, None, None), "v2:ofxheader-zero"),
                     (("ctor2", z, None, None, None, None), "v2:version-zero")]
    bad_ctor += [(("ctor2", 0, None, None, None, None), "v2:version-zero"), (("ctor2", 0, 200, None, None, None), "v2:version-zero")]
    for case, label in bad_ctor:
        cases.append(case)
        out = run_impl(H, case)
        if out[0] != "reject":
            fail("ctor:%s:%s" % (label, "accepted" if out[0] == "ok" else "wrong-exception"), "%s%r -> %r" % ("OFXHeaderV1" if case[0] == "ctor1" else "OFXHeaderV2", tuple(x for x in case[1:]), out[:2]), case)

    import logging, time as _time
    _t0 = _time.time()
    logging.disable(logging.CRITICAL)                # ofxget logs every refused response
    try:
        front_doors(rep, H, rng, thorough, fails)
    finally:
        logging.disable(logging.NOTSET)
    rep.extra["front_door_seconds"] = round(_time.time() - _t0, 1)

    # ---------- D. constructors called directly, valid and invalid arguments mixed (model vs implementation) ----------
    def pick(valid, junk):
        r = rng.random()
        return None if r < 0.25 else (rng.choice(valid) if r < 0.93 else rng.choice(junk))
    junk_s = ["", "X", "none", "NONE ", "TYPE1\n", "OFXSGM", "&amp;", "é", "A&lt;B"]
    uid_junk = ["", "a&amp;b", "&lt;" * 9, "&amp;" * 36, "&amp;" * 37, "x" * 37, "&nbsp;&apos;&quot;&gt;", "&amp;lt;", "ü" * 36, "a b", "&#65;"]
    for _ in range(3000 if thorough else 500):
        ver = rng.choice([102, 103, 151, 160, 0, 1, 999, 1000, -5, -999, -1000, "-1000", "-999", -12345, "102", "0", "", "1_0_2", " 102 ", "+102", "١٠٢", "abc", "1000", "00102", "-0", 200, 220, 203, "203", "221"])
        oh = rng.choice([None, None, 100, 200, 0, "100", "200", "", "0100", "x", 1])
        if rng.random() < 0.5:
            cases.append(("ctor1", ver, oh, pick(SPEC["DATA"], junk_s), pick(SPEC_SECURITY, junk_s), pick(SPEC["ENCODING"], junk_s), pick(SPEC["CHARSET"], junk_s),
                          pick(SPEC["COMPRESSION"], junk_s), pick(["NONE", rand_uid(rng)], uid_junk), pick([rand_uid(rng), rand_uid(rng, 36)], uid_junk)))
        else:
            cases.append(("ctor2", ver, oh, pick(SPEC_SECURITY, junk_s), pick(["NONE", rand_uid(rng)], uid_junk), pick([rand_uid(rng), rand_uid(rng, 36)], uid_junk)))

    # ---------- E. malformed stream: layouts, mutations, Unicode, the XML declaration, int() ----------
    cases += malformed_texts(rng, 4000 if thorough else 700)
    cases += xml_lines(rng, 1500 if thorough else 250)
    cases += int_texts(rng, 1500 if thorough else 250)
    deep = thorough or not pinned_ok()
    if deep:
        cases += deep_token_strings(rng, 30000 if thorough else 6000)
    rep.extra["regex_patterns_are_the_transcribed_ones"] = pinned_ok()
    rep.extra["source_problems"] = source_problems()
    rep.extra["deep_setting"] = deep

    rep.rule = ("structured stream: make_header for every version 100-199 and the seven 2xx versions x security levels x UIDs over [A-Za-z0-9_-]{1,36}, its str parsed back by "
                "cls.parse and parse_header; every single-field corruption / omission / transposition of valid v1 and v2 headers through both parsers; refused version numbers; "
                "constructors with mixed valid/invalid arguments. malformed stream: separator/blank layouts, character-level mutations incl. non-ASCII digits and letters, "
                "XML declarations, int() texts; token-level enumeration in the deep setting. front doors (implementation only): OFXClient request_profile / serialize / download "
                "(dryrun) for every client version x per-call version, ofxget extract_signoninfos / extract_acctinfos / _read_scan_response on every refusal class. non-trivial = implementation returned a value; distinct by (entry point, arguments)")
    correspond(rep, H, cases, "header", PROP)


SONRS = ("<SIGNONMSGSRSV1><SONRS><STATUS><CODE>0</CODE><SEVERITY>INFO</SEVERITY></STATUS><DTSERVER>20240101000000.000[+0:UTC]</DTSERVER>"
         "<LANGUAGE>ENG</LANGUAGE></SONRS></SIGNONMSGSRSV1>")
PROFRS_BODY = ("<OFX>" + SONRS + "<PROFMSGSRSV1><PROFTRNRS><TRNUID>1</TRNUID><STATUS><CODE>0</CODE><SEVERITY>INFO</SEVERITY></STATUS><PROFRS>"
               "<MSGSETLIST><PROFMSGSET><PROFMSGSETV1><MSGSETCORE><VER>1</VER><URL>https://ofx.example.invalid/</URL><OFXSEC>NONE</OFXSEC>"
               "<TRANSPSEC>Y</TRANSPSEC><SIGNONREALM>REALM</SIGNONREALM><LANGUAGE>ENG</LANGUAGE><SYNCMODE>LITE</SYNCMODE><RESPFILEER>Y</RESPFILEER>"
               "</MSGSETCORE></PROFMSGSETV1></PROFMSGSET></MSGSETLIST><SIGNONINFOLIST><SIGNONINFO><SIGNONREALM>REALM</SIGNONREALM><MIN>4</MIN><MAX>32</MAX>"
               "<CHARTYPE>ALPHAORNUMERIC</CHARTYPE><CASESEN>Y</CASESEN><SPECIAL>N</SPECIAL><SPACES>N</SPACES><PINCH>N</PINCH><CHGPINFIRST>N</CHGPINFIRST>"
               "</SIGNONINFO></SIGNONINFOLIST><DTPROFUP>20240101000000.000[+0:UTC]</DTPROFUP><FINAME>Example FI</FINAME><ADDR1>1 Main St</ADDR1>"
               "<CITY>Springfield</CITY><STATE>IL</STATE><POSTALCODE>62701</POSTALCODE><COUNTRY>USA</COUNTRY></PROFRS></PROFTRNRS></PROFMSGSRSV1></OFX>")
ACCTINFORS_BODY = ("<OFX>" + SONRS + "<SIGNUPMSGSRSV1><ACCTINFOTRNRS><TRNUID>1</TRNUID><STATUS><CODE>0</CODE><SEVERITY>INFO</SEVERITY></STATUS><ACCTINFORS>"
                   "<DTACCTUP>20240101000000.000[+0:UTC]</DTACCTUP><ACCTINFO><BANKACCTINFO><BANKACCTFROM><BANKID>111000614</BANKID><ACCTID>123456</ACCTID>"
                   "<ACCTTYPE>CHECKING</ACCTTYPE></BANKACCTFROM><SUPTXDL>Y</SUPTXDL><XFERSRC>N</XFERSRC><XFERDEST>N</XFERDEST><SVCSTATUS>ACTIVE</SVCSTATUS>"
                   "</BANKACCTINFO></ACCTINFO></ACCTINFORS></ACCTINFOTRNRS></SIGNUPMSGSRSV1></OFX>")


def front_doors(rep, H, rng, thorough, fails):
    """the property through the public entry points that lead to header.py (implementation only: the client and ofxget are not modelled here):
    (1) what OFXClient puts on the wire for a per-call version is the header make_header gives for THAT version, of the right kind, and parses back;
    (2) ofxget's response readers refuse every out-of-domain / malformed header (valid PROFRS / ACCTINFORS body behind it) with the header error."""
    import warnings, concurrent.futures
    import ofxtools.Client as CL
    import ofxtools.Parser as P
    import ofxtools.scripts.ofxget as G

    def fail(key, what, replay):
        fails.append(C.Failure(key, what, replay))

    # ---- (1) OFXClient: client version x per-call override version ----
    supported = SPEC_V1_VERSIONS + SPEC_V2_VERSIONS
    n = 0
    for dv in supported:
        client = CL.OFXClient("https://ofx.example.invalid/", userid="porkypig", org="FIORG", fid="FID", version=dv)
        with client.request_profile(gen_newfileuid=False, dryrun=True) as f:
            tree = P.OFXTree()
            tree.parse(f)
            ofx = tree.convert()
        for v in [None] + supported:
            eff = v if v is not None else dv
            old, new = rng.choice([None, "old_uid-%d" % eff]), rng.choice([None, rand_uid(rng), "N" * 36])
            doors = [("request_profile", lambda: client.request_profile(version=v, gen_newfileuid=False, dryrun=True).read(), None, None),
                     ("serialize", lambda: client.serialize(ofx, version=v, oldfileuid=old, newfileuid=new), old, new),
                     ("download", lambda: client.download(ofx, version=v, oldfileuid=old, newfileuid=new, dryrun=True).read(), old, new)]
            for door, fn, o_, n_ in doors:
                n += 1
                replay = {"front_door": "client", "door": door, "client_version": dv, "call_version": v, "old": o_, "new": n_}
                out = call(H, fn)
                if out[0] != "ok":
                    fail("client:%s:raises" % door, "OFXClient(version=%s).%s(version=%s) raised %s" % (dv, door, v, out[1]), replay)
                    continue
                wire = out[1]
                ref = call(H, H.make_header, eff, oldfileuid=o_, newfileuid=n_)
                back = call(H, lambda b: H.parse_header(io.BytesIO(b)), wire)
                want_kind = "v1" if eff < 200 else "v2"
                flat, xmlk = wire.lstrip().startswith(b"OFXHEADER:"), wire.lstrip().startswith(b"<?xml")
                if (want_kind == "v1" and not flat) or (want_kind == "v2" and not xmlk):
                    fail("client:%s:wrong-kind" % door, "OFXClient(version=%s).%s(version=%s) wrote %r..., version %s calls for %s" % (dv, door, v, wire[:40], eff, "flat text" if want_kind == "v1" else "XML declarations"), replay)
                elif back[0] != "ok" or ref[0] != "ok" or fields_of(H, back[1][0]) != fields_of(H, ref[1]):
                    fail("client:%s:header-differs" % door, "OFXClient(version=%s).%s(version=%s): header on the wire %r, make_header(%s) %r" % (
                        dv, door, v, fields_of(H, back[1][0]) if back[0] == "ok" else back[:2], eff, fields_of(H, ref[1]) if ref[0] == "ok" else ref[:2]), replay)
                rep.count(("client", door, dv, v, o_, n_), nontrivial=True, kind="client:%s" % door)

    # ---- (2) ofxget's readers: every corruption of the property, behind it a body the reader would accept ----
    def scan(b):
        fut = concurrent.futures.Future()
        fut.set_result(io.BytesIO(b))
        return G._read_scan_response(fut, read_signoninfo=True)[0]
    readers = [("extract_signoninfos", lambda b: list(G.extract_signoninfos(io.BytesIO(b))), PROFRS_BODY),
               ("extract_acctinfos", lambda b: list(G.extract_acctinfos(io.BytesIO(b))), ACCTINFORS_BODY),
               ("_read_scan_response", scan, PROFRS_BODY)]
    with warnings.catch_warnings():
        warnings.simplefilter("ignore")
        for kind in ("v1", "v2"):
            base = (valid_v1_fields(103, "NONE", "B" * 36, "B" * 36, "USASCII", "NONE") if kind == "v1" else valid_v2_fields(203, "NONE", "B" * 36, "B" * 36))
            render = render_v1 if kind == "v1" else render_v2
            usable = []
            for name, fn, body in readers:                       # sanity: the reader accepts the valid file
                ok = call(H, fn, (render(base) + body).encode("ascii"))
                if ok[0] == "ok" and ok[1] not in (False, []):
                    usable.append((name, fn, body))
                else:
                    fail("ofxget:%s:%s:valid-response-refused" % (name, kind), "ofxget.%s does not read a valid %s response: %r" % (name, kind, ok[:2]),
                         {"front_door": "ofxget", "door": name, "kind": kind, "label": "valid", "fields": base})
            cors = corruptions(kind, base, rng)
            if not thorough:                                    # every refusal class, one representative each
                seen, keep = set(), []
                for label, f in cors:
                    cl = "transposed" if label.startswith("transposed") else label
                    if cl not in seen or label.startswith("uid"):
                        seen.add(cl); keep.append((label, f))
                cors = keep
            for label, f in cors:
                data = (render(f) + "%s").encode("ascii")
                for name, fn, body in usable:
                    b = data.replace(b"%s", body.encode("ascii"))
                    out = call(H, fn, b)
                    refused = (out[0] == "reject") if name != "_read_scan_response" else (out == ("ok", False))
                    rep.count(("ofxget", name, kind, label, repr(f)), nontrivial=False, kind="ofxget:%s:%s" % (name, "refused" if refused else "NOT-refused"))
                    if not refused:
                        lab = "transposed" if label.startswith("transposed") else label
                        fail("ofxget:%s:%s:%s:%s" % (name, kind, lab, "accepted" if out[0] == "ok" else "wrong-exception"),
                             "ofxget.%s on a %s response whose header has %s -> %r (must be refused with the header error)" % (name, kind, label, out[:2] if out[0] != "ok" else ("ok", str(out[1])[:60])),
                             {"front_door": "ofxget", "door": name, "kind": kind, "label": label, "fields": f})
    import ofxtools.Types as T
    if T.String.strict is not True:
        fail("ofxget:String.strict-left-off", "Types.String.strict is %r after the ofxget readers ran" % (T.String.strict,), {"front_door": "ofxget", "door": "state"})
    rep.extra["front_door_client_calls"] = n


def replay_front_door(H, r):
    """re-run one front-door failure; -> True when it still fails."""
    import warnings, concurrent.futures
    import ofxtools.Client as CL
    import ofxtools.Parser as P
    import ofxtools.scripts.ofxget as G
    if r["front_door"] == "client":
        client = CL.OFXClient("https://ofx.example.invalid/", userid="porkypig", org="FIORG", fid="FID", version=r["client_version"])
        with client.request_profile(gen_newfileuid=False, dryrun=True) as f:
            tree = P.OFXTree(); tree.parse(f); ofx = tree.convert()
        v = r["call_version"]
        eff = v if v is not None else r["client_version"]
        if r["door"] == "request_profile":
            wire = client.request_profile(version=v, gen_newfileuid=False, dryrun=True).read()
        elif r["door"] == "serialize":
            wire = client.serialize(ofx, version=v, oldfileuid=r["old"], newfileuid=r["new"])
        else:
            wire = client.download(ofx, version=v, oldfileuid=r["old"], newfileuid=r["new"], dryrun=True).read()
        back = call(H, lambda b: H.parse_header(io.BytesIO(b)), wire)
        ref = H.make_header(eff, oldfileuid=r["old"], newfileuid=r["new"])
        print("wire %r... -> %r ; make_header(%s) -> %r" % (wire[:50], fields_of(H, back[1][0]) if back[0] == "ok" else back[:2], eff, fields_of(H, ref)))
        return back[0] != "ok" or fields_of(H, back[1][0]) != fields_of(H, ref)
    if r["door"] == "state":
        return False
    kind, f = r["kind"], [tuple(x) for x in r["fields"]]
    body = ACCTINFORS_BODY if r["door"] == "extract_acctinfos" else PROFRS_BODY
    b = ((render_v1 if kind == "v1" else render_v2)(f) + body).encode("ascii")
    with warnings.catch_warnings():
        warnings.simplefilter("ignore")
        if r["door"] == "_read_scan_response":
            fut = concurrent.futures.Future(); fut.set_result(io.BytesIO(b))
            out = call(H, lambda: G._read_scan_response(fut, read_signoninfo=True)[0])
            print("ofxget._read_scan_response -> %r" % (out,))
            return out != ("ok", False) if r["label"] != "valid" else out != ("ok", True)
        out = call(H, lambda: list(getattr(G, r["door"])(io.BytesIO(b))))
        print("ofxget.%s -> %r" % (r["door"], out[:2] if out[0] != "ok" else ("ok", len(out[1]))))
        return out[0] != "reject" if r["label"] != "valid" else out[0] != "ok"


def pinned_ok():
    from .. import translate_header as T
    d = T.read_header_module()
    return all(same for _, same in d["patterns"].values())


def source_problems():
    from .. import translate_header as T
    d = T.read_header_module()
    return d["source_problems"] + d["source_changes"]


MUT_CHARS = [":", " ", "\n", "\r", "\t", "-", "_", "0", "9", "A", "z", "X", "\"", "'", "=", "?", "<", ">", ".", "&", "\x0b", "\x1c", "\x85", "\xa0", "é", "٣", "²", "Ⅷ", " ", "�", "漢"]


def mutate(rng, s):
    r = rng.random()
    k = rng.randrange(len(s) + 1)
    c = rng.choice(MUT_CHARS)
    if r < 0.35:
        return s[:k] + c + s[k:]
    if r < 0.7:
        return s[:k] + c + s[k + 1:]
    j = min(len(s), k + rng.choice([1, 1, 2, 5]))
    return s[:k] + s[j:]


def malformed_texts(rng, n):
    out = []
    vals1 = {"OFXHEADER": ["100", "1", "200", "٠١٠٠"], "DATA": ["OFXSGML", "X"], "VERSION": ["102", "9999", "160", "١٠٢", "1_0_2", "1_", "+102"], "SECURITY": ["NONE", "TYPE1", "a_b", "é"],
             "ENCODING": ["USASCII", "UTF-8", "UNICODE"], "CHARSET": ["1252", "ISO-8859-1", "NONE"], "COMPRESSION": ["NONE", "GZIP"],
             "OLDFILEUID": ["NONE", "a-b_C", "XNEWFILEUID", "OLDFILEUID", "COMPRESSION"], "NEWFILEUID": ["NONE", "Z9-", "NEWFILEUID", "x" * 36, "x" * 37]}
    vals2 = {"OFXHEADER": ["200", "100", "٢٠٠"], "VERSION": ["200", "203", "220", "204", "٢٠٣"], "SECURITY": ["NONE", "TYPE1", "ü"], "OLDFILEUID": ["NONE", "a-b"], "NEWFILEUID": ["NONE", "Zz_9", "x" * 37]}
    for i in range(n):
        if i % 2 == 0:
            names = list(V1_FIELDS)
            if rng.random() < 0.2: names.remove("COMPRESSION")
            if rng.random() < 0.1: names.pop(rng.randrange(len(names)))
            if rng.random() < 0.1:
                k = rng.randrange(len(names) - 1); names[k], names[k + 1] = names[k + 1], names[k]
            sep = rng.choice(["\r\n", "\n", "\r", "", " ", "  \n", "\t", "\x0b", "\xa0"])
            s = render_v1([(nm, rng.choice(vals1[nm])) for nm in names], sep=sep, blank=rng.choice(["", "", " ", "\t "]),
                          tail=rng.choice(["", "\n", "<OFX>", "\r\n\r\n<OFX>", "é"]), lead=rng.choice(["", "", "\n\n", "junk ", " OFXHEADER:1 "]))
            for _ in range(rng.choice([0, 0, 1, 1, 2])):
                s = mutate(rng, s)
            out.append(("parse1", s))
            if all(ord(c) < 128 for c in s) and rng.random() < 0.3:
                out.append(("ph", s.encode("ascii") + b"\r\n<OFX></OFX>\r\n"))
        else:
            names = list(V2_FIELDS)
            if rng.random() < 0.1: names.pop(rng.randrange(len(names)))
            if rng.random() < 0.1:
                k = rng.randrange(len(names) - 1); names[k], names[k + 1] = names[k + 1], names[k]
            s = render_v2([(nm, rng.choice(vals2[nm])) for nm in names], xml=rng.choice([XML_DECL, XML_DECL.replace('"', "'"), "", "<?xml ?>"]),
                          a=rng.choice(["\r\n", "", "\n", " "]), b=rng.choice(["\r\n", "", "\n\n ", "<OFX>"]), attr_sep=rng.choice([" ", " ", "\n", "  ", "\t", "\xa0"]))
            for _ in range(rng.choice([0, 0, 1, 1, 2])):
                s = mutate(rng, s)
            out.append(("parse2", s))
            if all(ord(c) < 128 for c in s) and rng.random() < 0.3:
                out.append(("ph", s.encode("ascii") + b"<OFX></OFX>\r\n"))
    return out


def xml_lines(rng, n):
    out = [("xml", "<?xml" + "".join(' %s=%s%s%s' % (n, q, v, q) for n, v, q in (("version", "1.0", qv), ("encoding", "UTF-8", qe), ("standalone", "no", qs)) if q) + pad + "?>")
           for qv in ('"', "'", None) for qe in ('"', "'", None) for qs in ('"', "'", None) for pad in ("", " ")]
    out += [("xml", XML_DECL), ("xml", XML_DECL + "\r\n"), ("xml", "<?xml?>"), ("xml", "<?xml ?>"), ("xml", " " + XML_DECL), ("xml", "<?xml version='1.0'?>"),
           ("xml", "<?xml version='1.0\"?>"), ("xml", "<?xml encoding=\"UTF-8\" version=\"1.0\"?>"), ("xml", "<?xml version=\"1.0\"encoding=\"UTF-8\"standalone=\"no\"?>")]
    parts = ["<?xml", " ", "\n", "version=", "encoding=", "standalone=", "\"", "'", "1.0", "1", ".", "UTF-8", "no", "yes", "?>", "?", ">", "<?OFX", "x", "٣", "é", "\xa0", "-"]
    for _ in range(n):
        if rng.random() < 0.5:
            s = XML_DECL if rng.random() < 0.7 else XML_DECL.replace('"', "'")
            for _ in range(rng.choice([1, 1, 2, 3])):
                s = mutate(rng, s)
        else:
            s = "<?xml" + "".join(rng.choice(parts) for _ in range(rng.randrange(1, 10)))
            if rng.random() < 0.6:
                s += "?>"
        out.append(("xml", s))
    return out


def int_texts(rng, n):
    out = [("int", s) for s in ["1_0", "_1", "1_", "1__0", "+5", " -5 ", "- 5", "٣", "1٣", "", "+", "0x10", "1e3", "1.0", "٣_٣", "\x1c5", "\x855\xa0", " 5", "5\x0b", "\t5\n", "-0", "+_5", "5 5", "00012", "²", "Ⅷ", "1\x00"]]
    al = ["0", "1", "9", "_", "+", "-", " ", "\n", "٣", "৭", "x", ".", "\xa0", "\x1f", "²"]
    for _ in range(n):
        out.append(("int", "".join(rng.choice(al) for _ in range(rng.randrange(0, 7)))))
    return out


def deep_token_strings(rng, n):
    """token-level enumeration for the three recognisers (where regex backtracking could differ from the hand scanners)."""
    t1 = [f + ":" for f in V1_FIELDS] + ["100", "OFXSGML", "102", "NONE", "USASCII", "1252", "A", "1", " ", "\n", "-", "_", ":", "é", "٣"]
    t2 = ["<?OFX", "?>", " ", "\n", "\"", "200", "203", "NONE", "a-b", "=", "x", "٣"] + [f + "=\"" for f in V2_FIELDS]
    out = []
    for _ in range(n):
        r = rng.random()
        if r < 0.5:
            # a correct skeleton with a few tokens replaced: close to the accept/reject boundary
            toks = []
            for f in V1_FIELDS:
                toks += [f + ":", rng.choice(["100", "OFXSGML", "102", "NONE", "USASCII", "1252", "A", "1", "NONEOLDFILEUID", "A_", "1_0", "_"]), rng.choice(["", " ", "\n"])]
            for _ in range(rng.choice([0, 1, 2, 3])):
                toks[rng.randrange(len(toks))] = rng.choice(t1)
            if rng.random() < 0.3:
                del toks[rng.randrange(len(toks))]
            out.append(("parse1", "".join(toks)))
        elif r < 0.7:
            out.append(("parse1", "".join(rng.choice(t1) for _ in range(rng.randrange(1, 9)))))
        elif r < 0.9:
            toks = ["<?OFX", " "]
            for f in V2_FIELDS:
                toks += [f + "=\"", rng.choice(["200", "203", "NONE", "a-b", "٣"]), "\"", rng.choice([" ", "\n", "  "])]
            toks += ["?>", rng.choice(["", " \n", "<OFX>"])]
            for _ in range(rng.choice([0, 1, 2, 3])):
                toks[rng.randrange(len(toks))] = rng.choice(t2)
            if rng.random() < 0.3:
                del toks[rng.randrange(len(toks))]
            out.append(("parse2", "".join(toks)))
        else:
            out.append(("parse2", "".join(rng.choice(t2) for _ in range(rng.randrange(1, 9)))))
    return out


def replay(obj):
    H = hmod()
    if obj["replay"].get("front_door"):
        bad = replay_front_door(H, obj["replay"])
        if bad:
            print("VIOLATION property=%s replay=(this file)" % obj.get("property", PROP))
        return 1 if bad else 0
    case = unjson(obj["replay"]["case"])
    expect = unjson(obj["replay"].get("expect", "reject"))
    out = run_impl(H, case)
    print("replay %s -> %r (expected %r)" % (repr(case)[:300], out, expect))
    if expect == "reject":
        bad = out[0] != "reject"
    elif expect == "ok":
        bad = out[0] != "ok"
    elif expect[0] == "kind":
        bad = out[0] != "ok" or out[1][0] != expect[1]
    else:
        bad = out[0] != "ok" or tuple(out[1]) != tuple(expect[1])
    if bad:
        print("VIOLATION property=%s replay=(this file)" % obj.get("property", PROP))
    return 1 if bad else 0
