"""C08 - improperly nested or truncated markup is never silently accepted as a tree
(ofxtools/Parser.py: TreeBuilder._feedmatch / end, OFXTree.parse / close, the tail-text ParseError of feed)."""
import importlib
from .. import common as C
from ..translate_sgml import gen_sgml, repo_variant
from . import c02 as S

PROP = "C08"
COQ_EXTRA = ["theories/Model/SgmlCases.vo", "theories/Gen/SgmlGen.vo"]
PARTIAL = [
    "the text-level mutation corollaries are stated for mutants whose token list still satisfies chain_ok (no end-tag-less data element directly "
    "followed by an end tag of its own name, which the tokenizer reads as that element's end tag); every other text is covered by "
    "parse_ok_implies_nested itself, which has no hypothesis on the text",
    "truncation is proved for cuts at token boundaries; cuts inside a token are covered by parse_ok_implies_nested and by the check's byte-level mutation stream",
]
MANIFEST = {
    "engine": "Sgml",
    "text": "Theorem parse_ok_implies_nested: for EVERY text, if the model of TreeBuilder.feed/close returns a tree then the events feed derived from the "
            "text form a properly nested, properly closed, single-rooted sequence whose tree is the one returned (end tags name the open aggregate; only "
            "data elements omit end tags). Corollaries over all documents, renderings and positions: truncation at token boundaries, end-tag deletion, "
            "renaming, transposition, duplication, stray end tags, text after an end tag and a second top-level element are all rejected. The model is "
            "tied to Parser.py by evaluating it on the mutation stream (every byte truncation of small documents, every single end-tag fault, stray "
            "insertions at every boundary) next to the implementation, and every mutant an independent reference reader finds improperly nested must raise.",
    "note": "Trusted: Coq kernel + vm_compute; Model/Sgml.v (hand transcription incl. the probed behaviour of the C-accelerated xml.etree TreeBuilder), "
            "validated by correspondence only (AST hashes of the transcribed functions are tripwires that widen the search; the regex variant, the start/end/close overrides, "
            "added public/overriding TreeBuilder methods and the calls made by OFXTree.parse/_read fail closed). parse_ok_implies_nested holds for every configuration with the repaired builder (fix 8ba58b0), whatever the regex; "
            "the corollaries use both repairs. On the unrepaired builder the theorem is false (parse_ok_implies_nested_refuted_legacy) and the check reports the accepted mutants.",
}


OBS_KEY = "unmatched-cdata-section-skipped"


def translate():
    return gen_sgml()


# ---------------------------------------------------------------- pieces and mutations
LOOKALIKE = {"S": ["\u017f"], "I": ["\u0131", "\u0130"], "K": ["\u212a"]}


def pieces_of(rd):
    """[(kind, text, info)] kind in start/end/aggend/data/ws; info = tag name for tags"""
    out = []
    for t in S.tokens_of(rd):
        k = t[0]
        if k == "open":
            out += [("start", "<%s>" % t[1], t[1]), ("ws", t[2], None)]
        elif k == "empty":
            out += [("start", "<%s>" % t[1], t[1]), ("ws", t[2], None), ("aggend", "</%s>" % t[1], t[1]), ("ws", t[3], None)]
        elif k == "close":
            out += [("aggend", "</%s>" % t[1], t[1]), ("ws", t[2], None)]
        else:
            _, tag, cd, w1, x, w2, end, w3 = t
            out += [("start", "<%s>" % tag, tag), ("ws", w1, None), ("data", "<![CDATA[%s]]>" % x if cd else x, None), ("ws", w2, None)]
            if end:
                out.append(("end", "</%s>" % tag, tag))
            out.append(("ws", w3, None))
    return [p for p in out if p[1] != ""]


def join(ps):
    return "".join(p[1] for p in ps)


def mutants(rng, rd, ws0, names, byte_budget, per_kind):
    """yield (kind, mutant text)"""
    ps = pieces_of(rd)
    text = ws0 + join(ps)
    # ---- truncation: every proper prefix that ends before the final '>' of the root's end tag
    last_gt = text.rstrip().rfind(">")
    cuts = set()
    pos = len(ws0)
    for p in ps:
        cuts.add(pos); pos += len(p[1])
    cuts = {c for c in cuts if c <= last_gt}
    if last_gt + 1 <= byte_budget:
        cuts |= set(range(0, last_gt + 1))
    else:
        cuts |= set(rng.sample(range(0, last_gt + 1), min(byte_budget, last_gt + 1)))
    if len(cuts) > 3 * byte_budget:
        cuts = set(rng.sample(sorted(cuts), 3 * byte_budget))
    for c in sorted(cuts):
        yield ("truncation", text[:c])
    ends = [i for i, p in enumerate(ps) if p[0] in ("end", "aggend")]
    aggends = [i for i in ends if ps[i][0] == "aggend"]

    def pick(l, n):
        return l if len(l) <= n else rng.sample(l, n)
    # ---- single end-tag deletion (aggregate end tags: data elements may omit theirs)
    for i in pick(aggends, per_kind):
        yield ("endtag-deleted", ws0 + join(ps[:i] + ps[i + 1:]))
    # ---- renaming
    for i in pick(ends, per_kind):
        for nm in pick([n for n in names if n != ps[i][2]], 2):
            q = list(ps); q[i] = (ps[i][0], "</%s>" % nm, nm)
            yield ("endtag-renamed", ws0 + join(q))
    # ---- an end tag (or a start tag) misspelled with a look-alike: the case-folding partners of ASCII letters (long s, dotless i, dotted I, KELVIN SIGN),
    #      the lower-case and the full-width letter.  None of them is the tag.
    #      (aggregate tags: a data element's misspelled end tag is simply no end tag, and unmatched markup is skipped - see unmatched_markup_is_skipped)
    starts = [i for i, p in enumerate(ps) if p[0] == "start" and not (i + 1 < len(ps) and ps[i + 1][0] == "data")
              and not (i + 2 < len(ps) and ps[i + 1][0] == "ws" and ps[i + 2][0] == "data")]
    for (idxs, kind, n) in ((aggends, "endtag-lookalike", per_kind), (starts, "starttag-lookalike", max(2, per_kind // 2))):
        for i in pick(idxs, n):
            nm = ps[i][2]
            cands = []
            for k, ch in enumerate(nm):
                if ch in LOOKALIKE:
                    cands += [(k, x) for x in LOOKALIKE[ch]]
                if "A" <= ch <= "Z":
                    cands += [(k, ch.lower()), (k, chr(ord(ch) - 65 + 0xFF21))]
            special = [c for c in cands if c[1] in "\u017f\u0131\u0130\u212a"]
            for (k, x) in pick(special, 2) + pick(cands, 1):
                bad = nm[:k] + x + nm[k + 1:]
                q = list(ps); q[i] = (ps[i][0], ("</%s>" if ps[i][0] != "start" else "<%s>") % bad, bad)
                yield (kind, ws0 + join(q))
    # ---- transposition of two end tags with different names (adjacent ones, and one random pair)
    pairs = []
    for a, b in zip(ends, ends[1:]):
        if ps[a][2] != ps[b][2] and all(ps[k][0] == "ws" for k in range(a + 1, b)):
            pairs.append((a, b))
    if len(ends) >= 2:
        a, b = sorted(rng.sample(ends, 2))
        if ps[a][2] != ps[b][2]:
            pairs.append((a, b))
    for a, b in pick(pairs, per_kind):
        q = list(ps); q[a], q[b] = ps[b], ps[a]
        yield ("endtags-transposed", ws0 + join(q))
    # ---- duplication
    for i in pick(ends, per_kind):
        yield ("endtag-duplicated", ws0 + join(ps[:i + 1] + [ps[i]] + ps[i + 1:]))
    # ---- stray end tag at any token boundary (a data element with its data and its own end tag is one token) ...
    inside = set()
    for i, p in enumerate(ps):
        if p[0] == "data":
            inside.add(i)                                  # between start tag (+blanks) and data
            if i >= 1 and ps[i - 1][0] == "ws":
                inside.add(i - 1)
            j = i + 1
            if j < len(ps) and ps[j][0] == "ws" and j + 1 < len(ps) and ps[j + 1][0] == "end":
                inside.add(j); inside.add(j + 1)           # between data and the element's own end tag
            elif j < len(ps) and ps[j][0] == "end":
                inside.add(j)
    for i in pick([i for i in range(len(ps) + 1) if i not in inside], per_kind):
        nm = rng.choice(names)
        yield ("stray-endtag", ws0 + join(ps[:i] + [("end", "</%s>" % nm, nm)] + ps[i:]))
    # ---- ... and inside a data element (between its start tag and its data, or before its own end tag)
    for i in pick(sorted(inside), max(2, per_kind // 2)):
        nm = rng.choice(names)
        yield ("stray-endtag-inside-element", ws0 + join(ps[:i] + [("end", "</%s>" % nm, nm)] + ps[i:]))
    # ---- stray text after an end tag / after an aggregate's start tag
    spots = [i + 1 for i in ends] + [i + 1 for i, p in enumerate(ps) if p[0] == "start" and not (i + 1 < len(ps) and ps[i + 1][0] == "data")
                                     and not (i + 2 < len(ps) and ps[i + 1][0] == "ws" and ps[i + 2][0] == "data")]
    for i in pick(spots, per_kind):
        yield ("stray-text", ws0 + join(ps[:i] + [("data", rng.choice(["junk", "x", "0", "a b"]), None)] + ps[i:]))
    # ---- stray text directly after the CDATA section of a data element (with or without end tag, before or after the blanks that follow it):
    #      read as XML the text belongs to the element's data; the parser may refuse it, but must not drop it silently
    cds = [i for i, p in enumerate(ps) if p[0] == "data" and p[1].startswith("<![CDATA[")]
    for i in pick(cds, max(3, per_kind)):
        for j in ((i + 1, i + 2) if (i + 1 < len(ps) and ps[i + 1][0] == "ws") else (i + 1,)):
            junk = rng.choice(["junk", "PLEASE DISREGARD 1,000,000.00", " x", "0"])
            yield ("stray-text-after-cdata", ws0 + join(ps[:j] + [("data", junk, None)] + ps[j:]))
    # ---- second top-level element
    for extra in pick(["<B>y</B>", "<OFX></OFX>", "\n<A>x", "<%s></%s>" % (rd[1], rd[1]), text], 3):
        yield ("second-root", text + extra)


def with_cdata(rng, rd):
    if rd[0] == "agg":
        return ("agg", rd[1], rd[2], [with_cdata(rng, c) for c in rd[3]], rd[4])
    if S.cdata_ok(rd[4]) and rng.random() < 0.7:
        return rd[:2] + (True,) + rd[3:7] + (rng.choice(["", "\r\n", "\n", " "]),)
    return rd


def run(rep, tier, rng):
    import ofxtools.Parser as P
    importlib.reload(P)
    variant = repo_variant()
    thorough = tier == "thorough"
    rep.extra["source_variant"] = {k: variant[k] for k in ("cdata_lazy", "checked", "known", "source_changes", "source_problems")}
    fails = rep.failures
    texts = []
    obs = []
    known_keys = {f["key"] for f in C.load_findings(PROP)[0]}

    def fail(key, what, **replay):
        fails.append(C.Failure(key, what, replay))

    cur = {"base": None, "want": None, "n": 0, "leaked": False}

    def state_check(m, out):
        """a refused body must not influence the next parse (fresh TreeBuilder each time): re-read the valid body after every few refusals"""
        if cur["base"] is None or cur["leaked"] or out[0] == "ok":
            return
        cur["n"] += 1
        if cur["n"] % 7 and cur["n"] > 3:
            return
        again = S.impl_parse(P, cur["base"])
        rep.count(("then", m), nontrivial=False, kind="valid-body-after-refused-one")
        if again != ("ok", cur["want"]):
            cur["leaked"] = True
            fail("state-leaks-between-parses", "after TreeBuilder refused %r, a NEW TreeBuilder on the valid body %r -> %r" % (m[:200], cur["base"][:200], again),
                 text=m, then=cur["base"], expected=cur["want"], observed=again)

    door_names = list(S.DOORS)

    def next_door():
        cur["door"] = cur.get("door", 0) + 1
        return door_names[cur["door"] % len(door_names)]

    def judge(kind, m, via_tree):
        """every mutant the reference reader finds improperly nested must raise (or at least not return a tree)"""
        out = S.impl_parse(P, m)
        texts.append(m)
        ref_tree = None
        try:
            ref_tree = S.ref_parse(m)
            improper = None
        except S.Malformed as e:
            improper = str(e)
        if kind == "stray-text-after-cdata" and improper is None:
            # mixed text + CDATA content: as XML the data is the concatenation.  Refusing it is fine (that is what the parser does);
            # returning a tree from which the text has vanished is not.
            rep.count(m, nontrivial=True, kind=kind)
            if out[0] == "ok" and out[1] is not None and out[1] != ref_tree:
                fail("text-after-cdata-dropped", "TreeBuilder accepted %r and silently dropped the text after the CDATA section: returned %r" % (m[:300], out[1] if len(m) < 300 else "a tree"),
                     text=m, kind=kind, observed=out, acceptable=["an error", ref_tree])
            for door in ("v2", next_door()):
                o2 = S.impl_front(P, door, m)
                if o2 is not None and o2[0] == "ok" and o2[1] is not None and o2[1] != ref_tree:
                    fail("text-after-cdata-dropped", "OFXTree.parse(%s header + %r) silently dropped the text after the CDATA section" % (door, m[:300]),
                         text=m, kind=kind, door=door, observed=o2, acceptable=["an error", ref_tree])
            return
        rep.count(m, nontrivial=(improper is not None), kind=kind if improper is not None else kind + ":still-valid")
        if improper is None:
            return
        state_check(m, out)
        if out[0] == "ok" and out[1] is not None and kind == "stray-endtag-inside-element" and "<![CDATA[" in m:
            # A CDATA section that does not directly follow a start tag matches no alternative of the regex and is skipped by finditer like
            # any other unmatched markup.  Not one of the fault classes of C08 at token boundaries; reported only when listed as a known finding.
            obs.append(m)
            if OBS_KEY in known_keys:
                fail(OBS_KEY, "TreeBuilder skipped the CDATA section after the inserted end tag in %r and returned %r" % (m[:300], out[1] if len(m) < 300 else "a tree"),
                     text=m, kind=kind, observed=out)
            return
        if out[0] == "ok" and out[1] is not None:
            fail("tree-returned:" + kind, "TreeBuilder accepted %r (%s; reference reader: %s) and returned %r" % (m[:300], kind, improper, out[1] if len(m) < 300 else "a tree"),
                 text=m, kind=kind, observed=out)
        # the front door: the same refusal is due from OFXTree.parse on a FILE with that body, under a v1 header (any CHARSET) and under a v2 header;
        # mutants that are well-formed XML although improperly nested OFX (text after an end tag, look-alike tags) always take the v2 door too
        doors = []
        if via_tree or "lookalike" in kind or kind in ("stray-text", "second-root", "endtag-duplicated"):
            doors.append(next_door())
        if "lookalike" in kind or kind == "stray-text" or (via_tree and kind in ("second-root", "stray-endtag", "endtag-renamed")):
            doors.append("v2")
        for door in dict.fromkeys(doors):
            o2 = S.impl_front(P, door, m)
            if o2 is None:
                continue
            rep.count(("front", door, m), nontrivial=False, kind="front-door:" + door)
            if o2[0] == "ok" and o2[1] is not None:
                fail("tree-returned:" + kind, "OFXTree.parse(%s header + %r) (%s) returned a tree" % (door, m[:300], kind), text=m, kind=kind, door=door, observed=o2)

    probe, probe_tree = "<OFX><A>1</A><B><C>2</B></OFX>", ("OFX", None, [("A", "1", []), ("B", None, [("C", "2", [])])])
    if S.impl_parse(P, probe) == ("ok", probe_tree):
        cur.update(base=probe, want=probe_tree)
    # ---------------- corpus first ----------------
    for c in S.load_corpus("C08"):
        judge(c.get("kind", "corpus"), c["text"], True)

    # ---------------- valid bodies x mutations ----------------
    docs = []
    small = [d for d in S.small_docs(max_nodes=3) if d[0] == "agg"]
    for d in (small if thorough else rng.sample(small, 30)):
        docs.append((d, 200 if thorough else 28, 6))
    for _ in range(900 if thorough else 26):
        docs.append((S.rand_doc(rng, rng.randint(3, 16), rng.randint(1, 5)), 120 if thorough else 14, 8 if thorough else 4))
    for _ in range(100 if thorough else 3):
        docs.append((S.rand_doc(rng, rng.randint(40, 120), 10, tags=rng.sample(S.TAG_POOL, 6)), 40, 12 if thorough else 5))
    ofx_tags = ["STMTRS", "BANKTRANLIST", "STMTTRN", "SIGNONMSGSRSV1", "INV401K", "LINK", "SONRS", "KIND"]
    for _ in range(60 if thorough else 5):      # names with the letters that have non-ASCII case-folding partners (S, I, K)
        docs.append((S.rand_doc(rng, rng.randint(4, 12), 4, tags=ofx_tags), 30, 6 if thorough else 4))
    n_valid = 0
    for (d, byte_budget, per_kind) in docs:
        for style in ((None, "xml", "sgml", "sgml-cdata", "pretty") if S.size(d) <= 16 else (None, "sgml-cdata")):
            rd = S.rand_rendering(rng, d, "sgml" if style == "sgml-cdata" else style)
            if style == "sgml-cdata":        # OFXv1 style: no end tags on data elements, values CDATA-wrapped wherever that is possible
                rd = with_cdata(rng, rd)
            if S.ambiguous(rd):
                continue
            ws0 = "" if style else S.rand_ws(rng)
            base = S.render(rd, ws0)
            want = S.tree_of(d)
            out = S.impl_parse(P, base)
            n_valid += 1
            texts.append(base)
            if out != ("ok", want):          # the unmutated body is not read correctly: that is C02's subject, not a nesting fault
                rep.count(base, nontrivial=False, kind="valid-body:misread(C02)")
                continue
            rep.count(base, nontrivial=False, kind="valid-body")
            names = sorted({t[1] for t in S.tokens_of(rd)} | {"ZZ", "A"})
            cur.update(base=base, want=want, n=0)
            for k, (kind, m) in enumerate(mutants(rng, rd, ws0, names, byte_budget, per_kind)):
                judge(kind, m, via_tree=(k % 9 == 0))

    rep.rule = ("mutation stream over valid renderings (documents of <= 3 nodes over 2 tags, random documents to 16 and to 120 nodes; XML, SGML, pretty-printed and "
                "free mixtures incl. CDATA): every byte truncation before the final '>' (sampled bytes + all token boundaries for long texts), every aggregate "
                "end-tag deletion, end-tag renaming (names of the document and a fresh one), end and start tags misspelled with a look-alike letter (long s, dotless i, dotted I, KELVIN SIGN, "
                "lower case, full width; also through OFXTree.parse with a UTF-8 OFXv2 header), transposition of end tags, duplication, a stray end tag at every piece "
                "boundary, stray text after end tags and aggregate start tags, stray text directly after the CDATA section of a data element with or without end tag "
                "(there the parser must refuse or keep the text, never drop it), a second top-level element; after refused mutants the valid body is parsed "
                "again with a new TreeBuilder and must still give its tree. A mutant is in the property's domain when an independent "
                "reference reader of the wire syntax finds it improperly nested; then TreeBuilder.feed/close, and OFXTree.parse on a FILE with that body (v1 header with CHARSET 1252 / ISO-8859-1 / NONE "
                "in turn, v2 header for every mutant that is well-formed XML: stray text, look-alike tags; a ninth of the others) must not return a tree. All mutants also go to the Gallina model (outcome class and tree compared). non-trivial = improper mutant")
    rep.extra["observations"] = {OBS_KEY: {"count": len(obs), "example": obs[0] if obs else None,
                                           "note": "a CDATA section separated from its start tag by an inserted end tag is skipped silently (finditer skips unmatched markup); "
                                                   "outside the token-boundary fault classes; see notes/status/C08.md"}}
    if texts:
        k = len(texts) // 3
        rep.sample({"text": texts[k], "implementation": S.impl_parse(P, texts[k])})
        rep.sample({"text": texts[2 * k], "implementation": S.impl_parse(P, texts[2 * k])})
    small_t = [t for t in texts if len(t) <= 400]
    big_t = [t for t in texts if len(t) > 400]
    from concurrent.futures import ThreadPoolExecutor
    with ThreadPoolExecutor(2) as ex:          # the two case sets are evaluated side by side
        f1 = ex.submit(S.correspond, rep, "mutants", variant, small_t, P, False, 1500 if thorough else 1100)
        f2 = ex.submit(S.correspond, rep, "mutants-large", variant, big_t, P, False, 40 if thorough else 12) if big_t else None
        f1.result()
        if f2:
            f2.result()


def replay(obj):
    C.use_repo()
    import ofxtools.Parser as P
    r = obj["replay"]
    s = r["text"]
    if "door" in r:
        out = S.impl_front(P, r["door"], s)
        print("replay OFXTree.parse(%s header + %r) -> %r" % (r["door"], s, out))
    else:
        out = S.impl_ofxtree(P, s) if r.get("via") == "OFXTree" else S.impl_parse(P, s)
        print("replay %s on %r -> %r" % ("OFXTree.parse" if r.get("via") == "OFXTree" else "TreeBuilder.feed/close", s, out))
    if "then" in r:
        again = S.impl_parse(P, r["then"])
        want = S.tuple_tree(r["expected"])
        print("then a new TreeBuilder on %r -> %r (expected tree %r)" % (r["then"], again, want))
        if again != ("ok", want):
            print("VIOLATION property=C08 replay=(this file)")
            return 1
        return 0
    if "acceptable" in r:
        want = S.tuple_tree(r["acceptable"][1])
        bad = out[0] == "ok" and out[1] is not None and out[1] != want
        print("acceptable: an error, or the tree %r" % (want,))
        if bad:
            print("VIOLATION property=C08 replay=(this file)")
        return 1 if bad else 0
    try:
        S.ref_parse(s)
        print("the reference reader accepts this text: not in the property's domain")
        return 0
    except S.Malformed as e:
        print("reference reader: %s" % e)
    bad = out[0] == "ok" and out[1] is not None
    if bad:
        print("VIOLATION property=C08 replay=(this file)")
    return 1 if bad else 0
