"""C19 - ofxget requests exactly the configured or discovered accounts and given dates
(ofxtools/scripts/ofxget.py: request_stmt, request_stmtend, _merge_acctinfo, extract_acctinfos, parse_*acctinfos,
_acctIsActive, convert_datetime, init_client; ofxtools/Client.py: request_statements and the *trnrq builders).

`ofxget stmt|stmtend ...` is driven in worker subprocesses the way main() does (real argparse, merge_config, the handler),
with --dryrun (the printed request is parsed back) or against an in-process fake HTTP server that answers ACCTINFORQ with a
generated ACCTINFORS document and records the statement request it then receives."""
import os, sys, json, re, string, datetime, html, glob
from .. import common as C
from .. import translate_ofxget as TR
from . import c18
from .c18 import ctxt, cpy, camap, argv_of, mk_file, base_fi, g_id, public

PROP = "C19"
COQ_EXTRA = ["theories/Model/OfxgetAcctsCases.vo", "theories/Gen/OfxgetGen.vo"]
PARTIAL = [
    "the ACCTINFORS document is an input of the model in abstract form (its parsing is C01-C03's subject) and DateTime().convert is an oracle "
    "(C09's subject); the request is observed as the list of statement requests in the document, not byte for byte (C06)",
    "non-dry runs are made with --skipprofile (the profile lookup that precedes a request otherwise is C14/C15's subject); --dtacctup is not varied",
    "all_is_exactly_active is for --all with no account list on the command line or in the configuration file (DESIGN section 9); a configured "
    "list of a type for which the server lists no ACTIVE account stays in effect (stated in all_overrides_file_not_cli)",
]
MANIFEST = {
    "engine": "OfxgetAccts",
    "text": "Gallina model of request_stmt / request_stmtend (loops over the account-type options in the order regenerated from the source), convert_datetime, "
            "init_client's id mapping, _merge_acctinfo (extract, sort by class name, groupby, parse_*acctinfos with _acctIsActive, collapseToSingle, insertion "
            "behind the command-line map) and of the statement requests OFXClient.request_statements puts in the document. Theorems over arbitrary account lists, "
            "dates, flags and account-information replies: the requests are, type by type and in order, exactly the configured accounts with their type, ids, dates "
            "and flags; with --all exactly the ACTIVE accounts; never an inactive one unless named; discovered lists shadow configured ones, command-line lists "
            "shadow discovered ones. Tied to the implementation by running both on generated command lines / files / server replies and comparing request lists.",
    "note": "Trusted: Coq kernel + vm_compute; hand transcription Model/OfxgetAccts.v (validated by the correspondence run only); table translator; "
            "DateTime().convert and the server are oracles.",
}
IMPORTS = ["Base.Digits", "Base.OfxgetBase", "Gen.OfxgetGen", "Model.OfxgetCfg", "Model.OfxgetAccts", "Model.OfxgetAcctsCases"]
EPOCH = datetime.datetime(1970, 1, 1, tzinfo=datetime.timezone.utc)


def translate():
    return TR.gen()


# ===================================================================== reading a request document back
TOK = re.compile(r"<(/?)([A-Za-z0-9_.]+)>|([^<]+)")


def parse_body(text):
    """<TAG>text</TAG> markup with optional end tags on leaves -> nested [tag, text, children]"""
    i = text.find("<OFX>")
    if i < 0:
        raise ValueError("no <OFX> in %r" % text[:200])
    root = ["", None, []]
    stack = [root]
    for m in TOK.finditer(text, i):
        close, tag, txt = m.group(1), m.group(2), m.group(3)
        if txt is not None:
            if txt.strip():
                stack[-1][1] = html.unescape(txt.strip())
            continue
        if stack[-1][1] is not None and not (close and stack[-1][0] == tag):
            stack.pop()                      # a leaf without end tag ends at the next tag
        if close:
            while stack[-1][0] != tag:
                stack.pop()
                if len(stack) == 1:
                    raise ValueError("unbalanced </%s>" % tag)
            stack.pop()
        else:
            node = [tag, None, []]
            stack[-1][2].append(node)
            stack.append(node)
    return root[2][0]


def find(node, tag):
    return [c for c in node[2] if c[0] == tag]


def leaf(node, tag):
    c = find(node, tag)
    return c[0][1] if c else None


def ofx_ms(s):
    """OFX date-time text -> milliseconds since 1970-01-01 UTC (independent of ofxtools)"""
    if s is None:
        return None
    m = re.fullmatch(r"(\d{4})(\d\d)(\d\d)(?:(\d\d)(\d\d)(\d\d)(?:\.(\d{3}))?)?(?:\[([+-]?\d+(?:\.\d+)?)(?::\w+)?\])?", s)
    if not m:
        raise ValueError("not an OFX datetime: %r" % s)
    y, mo, d, h, mi, sec, ms, off = m.groups()
    dt = datetime.datetime(int(y), int(mo), int(d), int(h or 0), int(mi or 0), int(sec or 0), tzinfo=datetime.timezone.utc)
    t = (dt - EPOCH) // datetime.timedelta(milliseconds=1) + int(ms or 0)
    if off:
        t -= int(round(float(off) * 3600 * 1000))
    return t


def yn(s):
    return None if s is None else {"Y": True, "N": False}[s]


def stmt_requests(text):
    """the statement requests of a request document, in document order"""
    ofx = parse_body(text)
    out = []
    for msgs in ofx[2]:
        for trn in msgs[2]:
            for rq in trn[2]:
                kind = {"STMTRQ": "stmt", "CCSTMTRQ": "ccstmt", "INVSTMTRQ": "invstmt", "STMTENDRQ": "stmtend", "CCSTMTENDRQ": "ccstmtend"}.get(rq[0])
                if kind is None:
                    continue
                r = {"kind": kind, "inst": None, "acctid": None, "accttype": None, "inctran": None, "dtstart": None, "dtend": None,
                     "incoo": None, "incpos": None, "incbal": None}
                for fr, idtag in (("BANKACCTFROM", "BANKID"), ("CCACCTFROM", None), ("INVACCTFROM", "BROKERID")):
                    f = find(rq, fr)
                    if f:
                        r["acctid"] = leaf(f[0], "ACCTID") or ""
                        r["accttype"] = leaf(f[0], "ACCTTYPE")
                        if idtag:
                            r["inst"] = leaf(f[0], idtag)
                it = find(rq, "INCTRAN")
                if it:
                    r["inctran"] = [ofx_ms(leaf(it[0], "DTSTART")), ofx_ms(leaf(it[0], "DTEND")), yn(leaf(it[0], "INCLUDE"))]
                if kind in ("stmtend", "ccstmtend"):
                    r["dtstart"], r["dtend"] = ofx_ms(leaf(rq, "DTSTART")), ofx_ms(leaf(rq, "DTEND"))
                r["incoo"] = yn(leaf(rq, "INCOO"))
                ip = find(rq, "INCPOS")
                if ip:
                    r["incpos"] = [ofx_ms(leaf(ip[0], "DTASOF")), yn(leaf(ip[0], "INCLUDE"))]
                r["incbal"] = yn(leaf(rq, "INCBAL"))
                out.append(r)
    return out


# ===================================================================== worker side
def case_accts(w, case):
    import io, itertools, urllib.request, urllib.response, email.message, datetime as _dt
    G = w.G
    w.put(w.fidir / "fi.cfg", case["fi"])
    w.put(w.userpath, case["user"])
    w.set_lookup({})
    w.set_uuid("UUID-%04d" % i for i in itertools.count())
    out = {"argv": case["argv"]}
    received = []

    def fake_open(self, req):
        body = req.data or b""
        received.append([req.full_url, body.decode("utf-8", "replace")])
        if b"<ACCTINFORQ>" in body:
            resp = case["reply_doc"].encode("utf-8")
        else:
            resp = b"FAKE-SERVER-STATEMENT-RESPONSE"
        r = urllib.response.addinfourl(io.BytesIO(resp), email.message.Message(), req.full_url, 200)
        r.msg = "OK"
        return r
    saved = urllib.request.HTTPHandler.http_open, urllib.request.HTTPSHandler.https_open
    urllib.request.HTTPHandler.http_open = fake_open
    urllib.request.HTTPSHandler.https_open = fake_open
    boot = None
    try:
        w.new_process(False)
    except BaseException as e:
        boot = e
    w.CL.OFXClient.dtclient = lambda self: _dt.datetime(2020, 1, 2, 3, 4, 5, tzinfo=_dt.timezone.utc)
    cap = io.StringIO()
    old = sys.stdout, sys.stderr
    sys.stdout = sys.stderr = cap
    try:
        try:
            ns = G.make_argparser().parse_args(case["argv"])
        except SystemExit:
            out["harness_error"] = "argparse rejected argv: " + cap.getvalue()[-300:]
            return out
        out["cli"] = {k: c18._enc(v) for k, v in vars(ns).items() if v is not None}
        conv = {}
        try:
            if boot is not None:
                raise boot
            merged = G.merge_config(ns, G.USERCFG)
            from ofxtools.Types import DateTime
            for d in ("dtstart", "dtend", "dtasof"):
                v = merged[d]
                if isinstance(v, str) and v:
                    try:
                        conv[v] = (DateTime().convert(v) - EPOCH) // _dt.timedelta(milliseconds=1)
                    except (ValueError, TypeError) as e:
                        conv[v] = {"err": "reject"}
                    except Exception as e:
                        conv[v] = {"err": "crash"}
            out["eff"] = {k: c18._enc(merged[k]) for k in merged}
            cap.seek(0); cap.truncate()
            G.REQUEST_HANDLERS[merged["request"]](merged)
            printed = cap.getvalue()
            if merged["dryrun"]:
                doc = printed
            else:
                posts = [b for (u, b) in received if "<ACCTINFORQ>" not in b]
                if len(posts) != 1:
                    raise RuntimeError("expected one statement POST, saw %d" % len(posts))
                doc = posts[0]
            out["out"] = {"ok": stmt_requests(doc)}
            out["doc"] = doc[-600:]
        except BaseException as e:
            out["out"] = {"err": c18._errclass(e)}
        out["conv"] = conv
        out["posts"] = [[u, ("ACCTINFORQ" if "<ACCTINFORQ>" in b else "STMT")] for (u, b) in received]
    finally:
        sys.stdout, sys.stderr = old
        urllib.request.HTTPHandler.http_open, urllib.request.HTTPSHandler.https_open = saved
    out["file"] = w.get(w.userpath)
    return out


def worker_main():
    c18.worker_main(case_accts)


# ===================================================================== the server's reply
SVC = ["AVAIL", "PEND", "ACTIVE"]
BANKTY = ["CHECKING", "SAVINGS", "MONEYMRKT", "CREDITLINE", "CD"]


def x(s):
    return s.replace("&", "&amp;").replace("<", "&lt;").replace(">", "&gt;")


def status_xml(code):
    return "<STATUS><CODE>%d</CODE><SEVERITY>%s</SEVERITY></STATUS>" % (code, "INFO" if code == 0 else "ERROR")


def info_xml(a):
    k = a["k"]
    if k == "bank":
        return ("<BANKACCTINFO><BANKACCTFROM><BANKID>%s</BANKID><ACCTID>%s</ACCTID><ACCTTYPE>%s</ACCTTYPE></BANKACCTFROM>"
                "<SUPTXDL>Y</SUPTXDL><XFERSRC>N</XFERSRC><XFERDEST>N</XFERDEST><SVCSTATUS>%s</SVCSTATUS></BANKACCTINFO>"
                % (x(a["inst"]), x(a["id"]), a["ty"], a["st"]))
    if k == "bp":
        return ("<BPACCTINFO><BANKACCTFROM><BANKID>999</BANKID><ACCTID>bp1</ACCTID><ACCTTYPE>CHECKING</ACCTTYPE></BANKACCTFROM>"
                "<SVCSTATUS>%s</SVCSTATUS></BPACCTINFO>" % a["st"])
    if k == "cc":
        return ("<CCACCTINFO><CCACCTFROM><ACCTID>%s</ACCTID></CCACCTFROM><SUPTXDL>Y</SUPTXDL><XFERSRC>N</XFERSRC><XFERDEST>N</XFERDEST>"
                "<SVCSTATUS>%s</SVCSTATUS></CCACCTINFO>" % (x(a["id"]), a["st"]))
    return ("<INVACCTINFO><INVACCTFROM><BROKERID>%s</BROKERID><ACCTID>%s</ACCTID></INVACCTFROM><USPRODUCTTYPE>OTHER</USPRODUCTTYPE>"
            "<CHECKING>N</CHECKING><SVCSTATUS>%s</SVCSTATUS></INVACCTINFO>" % (x(a["inst"]), x(a["id"]), a["st"]))


def reply_doc(reply):
    """reply: {"sonrs": code, "trnrs": [{"code": c, "rs": [[info, ...], ...] | None}]}"""
    t = ['<?xml version="1.0" encoding="UTF-8" standalone="no"?>\n<?OFX OFXHEADER="200" VERSION="203" SECURITY="NONE" OLDFILEUID="NONE" NEWFILEUID="NONE"?>\n',
         "<OFX><SIGNONMSGSRSV1><SONRS>", status_xml(reply["sonrs"]), "<DTSERVER>20200102030405.000[+0:UTC]</DTSERVER><LANGUAGE>ENG</LANGUAGE></SONRS></SIGNONMSGSRSV1>",
         "<SIGNUPMSGSRSV1>"]
    for i, tr in enumerate(reply["trnrs"]):
        t.append("<ACCTINFOTRNRS><TRNUID>T%d</TRNUID>%s" % (i, status_xml(tr["code"])))
        if tr["rs"] is not None:
            t.append("<ACCTINFORS><DTACCTUP>20200101000000.000[+0:UTC]</DTACCTUP>")
            for ai in tr["rs"]:
                t.append("<ACCTINFO><DESC>acct</DESC>" + "".join(info_xml(a) for a in ai) + "</ACCTINFO>")
            t.append("</ACCTINFORS>")
        t.append("</ACCTINFOTRNRS>")
    t.append("</SIGNUPMSGSRSV1></OFX>")
    return "".join(t)


def coq_info(a):
    if a["k"] == "bank":
        return "BankInfo %s %s %s %s" % (ctxt(a["inst"]), ctxt(a["id"]), a["ty"], a["st"])
    if a["k"] == "bp":
        return "BpInfo %s" % a["st"]
    if a["k"] == "cc":
        return "CcInfo %s %s" % (ctxt(a["id"]), a["st"])
    return "InvInfo %s %s %s" % (ctxt(a["inst"]), ctxt(a["id"]), a["st"])


def coq_reply(reply):
    trs = []
    for tr in reply["trnrs"]:
        rs = "None" if tr["rs"] is None else "(Some %s)" % C.clist([C.clist([coq_info(a) for a in ai]) for ai in tr["rs"]])
        trs.append("Build_trnrs %s %s" % (zlit(tr["code"]), rs))
    return "(Build_reply %s %s)" % (zlit(reply["sonrs"]), C.clist(trs))


EMPTY_REPLY = {"sonrs": 0, "trnrs": [{"code": 0, "rs": []}]}


def g_reply(rng, wild=False):
    """any mix of bank, credit-card, investment (and bill-pay) accounts with any service status; one bank id, one broker id"""
    bankid = "".join(rng.choice(string.digits) for _ in range(9))
    brokerid = rng.choice(["broker.example.com", "BRK1", "4705"])
    n = rng.choice([0, 1, 1, 2, 3, 4, 6, 9])
    ais, seq = [], 0
    for _ in range(n):
        kinds = rng.sample(["bank", "cc", "inv", "bp"], rng.choice([1, 1, 1, 2, 3]))
        ai = []
        for k in kinds:
            seq += 1
            a = {"k": k, "st": rng.choice(SVC + ["ACTIVE"]), "id": "%s%d%s" % (k[0], seq, g_id(rng)[:8])}
            if k == "bank":
                a["inst"] = bankid if not (wild and rng.random() < 0.15) else "000000001"
                a["ty"] = rng.choice(BANKTY)
            if k == "inv":
                a["inst"] = brokerid if not (wild and rng.random() < 0.15) else "other.example.com"
            ai.append(a)
        ais.append(ai)
    # sometimes a whole kind without any ACTIVE account (defect 20)
    if rng.random() < 0.2:
        k = rng.choice(["bank", "inv", "cc"])
        for ai in ais:
            for a in ai:
                if a["k"] == k:
                    a["st"] = rng.choice(["AVAIL", "PEND"])
    reply = {"sonrs": 0, "trnrs": [{"code": 0, "rs": ais}]}
    if wild:
        r = rng.random()
        if r < 0.08:
            reply["sonrs"] = 15500
        elif r < 0.16:
            reply["trnrs"][0]["code"] = 2000
            if rng.random() < 0.5:
                reply["trnrs"][0]["rs"] = None
        elif r < 0.22:
            reply["trnrs"].append({"code": 0, "rs": []})
        elif r < 0.26:
            reply["trnrs"] = []
        elif r < 0.30:
            reply["trnrs"][0]["rs"] = None
    return reply


# ===================================================================== cases
ACCT_OPTS = ["checking", "savings", "moneymrkt", "creditline", "creditcard", "investment"]
DATES = ["20200102", "19991231", "20240229", "20200102030405", "20211231235959.123", "20200102120000[-5:EST]"]


def ms_of_cli_date(s):
    """what the date option denotes (independent reading of YYYYmmdd[HHMMSS[.XXX]][offset])"""
    return ofx_ms(s)


def gen_config(rng, n, wild=False):
    """accounts on the command line and/or in the user's file, dates, flags; dry run (printed request) or fake server"""
    cases = []
    for _ in range(n):
        cmd = rng.choice(["stmt", "stmt", "stmtend"])
        server = "srv"
        cli, ui, spec = {}, [], {}
        opts = ACCT_OPTS if cmd == "stmt" else ACCT_OPTS[:5]
        for o in opts:
            r = rng.random()
            if r < 0.45:
                continue
            nids = rng.choice([1, 1, 2, 3, rng.randrange(1, 21) if rng.random() < 0.1 else 2])
            ids = [g_id(rng)[:rng.randrange(1, 12)] + str(rng.randrange(10)) for _ in range(nids)]
            if rng.random() < 0.1:
                ids = ids + [ids[0]]                       # the same number twice: a multiset
            if r < 0.75:
                cli[o] = ids; spec[o] = ids
            else:
                ui.append((o, ", ".join(ids))); spec[o] = ids
                if rng.random() < 0.2:
                    cli[o] = [g_id(rng)]; spec[o] = cli[o]
        bankid = "".join(rng.choice(string.digits) for _ in range(rng.choice([9, 9, 8, 4])))
        brokerid = rng.choice(["broker.example.com", "BRK", "1234"])
        where = rng.random()
        fi_items = [("url", "https://fi.example.com/ofx")]
        if where < 0.4:
            cli["bankid"] = bankid
            if cmd == "stmt":
                cli["brokerid"] = brokerid
            else:
                ui.append(("brokerid", brokerid))
        elif where < 0.7:
            ui += [("bankid", bankid), ("brokerid", brokerid)]
        else:
            fi_items += [("bankid", bankid), ("brokerid", brokerid)]
        spec["bankid"], spec["brokerid"] = bankid, brokerid
        for d, f in (("dtstart", 0.6), ("dtend", 0.5), ("dtasof", 0.4)):
            if rng.random() < f and not (d == "dtasof" and cmd == "stmtend"):
                cli[d] = rng.choice(DATES); spec[d] = cli[d]
        if cmd == "stmt":
            for o in ("inctran", "incbal", "incpos"):
                if rng.random() < 0.25:
                    cli[o] = False
            if rng.random() < 0.25:
                cli["incoo"] = True
        ver = rng.choice([None, None, 102, 103, 151, 160, 200, 203, 211, 220])
        if ver is not None:
            cli["version"] = ver
        if rng.random() < 0.2:
            cli["pretty"] = True
        if (ver or 203) < 200 and rng.random() < 0.4:
            cli["unclosedelements"] = True
        if rng.random() < 0.3:
            cli["user"] = "porky"
        if rng.random() < 0.5:
            cli["dryrun"] = True
        else:
            cli["skipprofile"] = True; cli["password"] = "t0ps3kr1t"
        if wild:
            w = rng.random()
            if w < 0.12:
                cli.pop("bankid", None); ui = [(k, v) for k, v in ui if k != "bankid"]; fi_items = [(k, v) for k, v in fi_items if k != "bankid"]
            elif w < 0.2:
                cli["bankid"] = "1234567890"
            elif w < 0.3:
                cli[rng.choice(opts)] = [rng.choice(["", "a&amp;b", "x&lt;y", "A" * 23, "R&D", "q<r", "sp ace", "é", "&quot;"])]
            elif w < 0.4:
                cli[rng.choice(["dtstart", "dtend"])] = rng.choice(["2020", "20201301", "yesterday", "2020010", "20200230"])
            elif w < 0.48:
                cli["unclosedelements"] = True
            elif w < 0.55 and cmd == "stmt":
                cli["brokerid"] = "B" * 23
            elif w < 0.6:
                cli["all"] = True
        cases.append({"op": "accts", "cmd": cmd, "fi": base_fi(server, fi_items), "user": mk_file([(server, ui)]) if ui else None,
                      "argv": argv_of(cmd, server, cli), "reply": EMPTY_REPLY, "reply_doc": reply_doc(EMPTY_REPLY),
                      "_cli": cli, "_spec": spec, "_kind": "wild" if wild else "config"})
    return cases


def gen_all(rng, n, wild=False):
    """--all against the fake server"""
    cases = []
    for _ in range(n):
        cmd = rng.choice(["stmt", "stmt", "stmtend"])
        server = "srv"
        reply = g_reply(rng, wild)
        cli = {"all": True, "skipprofile": True, "password": "t0ps3kr1t"}
        ui, spec, explicit_cli, explicit_file = [], {}, {}, {}
        fi_items = [("url", "https://fi.example.com/ofx")]
        if rng.random() < 0.25:                       # accounts named on the command line
            for o in rng.sample(ACCT_OPTS if cmd == "stmt" else ACCT_OPTS[:5], rng.randrange(1, 3)):
                explicit_cli[o] = ["cli" + g_id(rng)[:6]]
        if rng.random() < 0.25:                       # accounts already in the user's file
            for o in rng.sample(ACCT_OPTS if cmd == "stmt" else ACCT_OPTS[:5], rng.randrange(1, 3)):
                explicit_file[o] = ["file" + g_id(rng)[:6]]
        cli.update(explicit_cli)
        ui += [(o, ", ".join(v)) for o, v in explicit_file.items()]
        r = rng.random()
        cfg_bankid = "".join(rng.choice(string.digits) for _ in range(9))
        if r < 0.3:
            cli["bankid"] = cfg_bankid
            if cmd == "stmt":
                cli["brokerid"] = "cli.broker"
        elif r < 0.6 or explicit_file or explicit_cli:
            ui += [("bankid", cfg_bankid), ("brokerid", "file.broker")]
        for d, f in (("dtstart", 0.5), ("dtend", 0.4), ("dtasof", 0.3)):
            if rng.random() < f and not (d == "dtasof" and cmd == "stmtend"):
                cli[d] = rng.choice(DATES)
        if cmd == "stmt" and rng.random() < 0.2:
            cli["inctran"] = False
        if wild and rng.random() < 0.1:
            cli["dryrun"] = True
        cases.append({"op": "accts", "cmd": cmd, "fi": base_fi(server, fi_items), "user": mk_file([(server, ui)]) if ui else None,
                      "argv": argv_of(cmd, server, cli), "reply": reply, "reply_doc": reply_doc(reply),
                      "_cli": cli, "_explicit_cli": explicit_cli, "_explicit_file": explicit_file,
                      "_cfg": {"cli": {k: cli[k] for k in ("bankid", "brokerid") if k in cli}, "file": dict((k, v) for k, v in ui if k in ("bankid", "brokerid"))},
                      "_kind": "allwild" if wild else "all"})
    return cases


# ===================================================================== the property, evaluated on the implementation
def canon(r):
    return json.dumps(r, sort_keys=True)


def expected_requests(cmd, accts, bankid, brokerid, cli):
    """what the property demands: one request per configured account, of its type, with the ids, dates and flags given"""
    ds, de, da = (ms_of_cli_date(cli[k]) if cli.get(k) else None for k in ("dtstart", "dtend", "dtasof"))
    inctran = cli.get("inctran", True)
    out = []
    for o in ("checking", "savings", "moneymrkt", "creditline"):
        for a in accts.get(o, []):
            if cmd == "stmt":
                out.append({"kind": "stmt", "inst": bankid, "acctid": a, "accttype": o.upper(), "inctran": [ds, de, inctran], "dtstart": None, "dtend": None,
                            "incoo": None, "incpos": None, "incbal": None})
            else:
                out.append({"kind": "stmtend", "inst": bankid, "acctid": a, "accttype": o.upper(), "inctran": None, "dtstart": ds, "dtend": de,
                            "incoo": None, "incpos": None, "incbal": None})
    for a in accts.get("creditcard", []):
        if cmd == "stmt":
            out.append({"kind": "ccstmt", "inst": None, "acctid": a, "accttype": None, "inctran": [ds, de, inctran], "dtstart": None, "dtend": None,
                        "incoo": None, "incpos": None, "incbal": None})
        else:
            out.append({"kind": "ccstmtend", "inst": None, "acctid": a, "accttype": None, "inctran": None, "dtstart": ds, "dtend": de,
                        "incoo": None, "incpos": None, "incbal": None})
    if cmd == "stmt":
        for a in accts.get("investment", []):
            out.append({"kind": "invstmt", "inst": brokerid, "acctid": a, "accttype": None, "inctran": [ds, de, True] if inctran else None,
                        "dtstart": None, "dtend": None, "incoo": cli.get("incoo", False), "incpos": [da, cli.get("incpos", True)], "incbal": cli.get("incbal", True)})
    return out


def diff_key(prefix, want, got):
    """name the kind of difference between two request multisets"""
    def ms(f, rs):
        return sorted(canon(f(r)) for r in rs)
    wa, ga = [r["acctid"] for r in want], [r["acctid"] for r in got]
    if sorted(map(str, wa)) != sorted(map(str, ga)):
        missing = [a for a in wa if wa.count(a) > ga.count(a)]
        return prefix + (":account-missing" if missing else ":account-extra-or-duplicated")
    if ms(lambda r: [r["kind"].replace("end", ""), r["acctid"], r["accttype"]], want) != ms(lambda r: [r["kind"].replace("end", ""), r["acctid"], r["accttype"]], got):
        return prefix + ":wrong-account-type"
    if ms(lambda r: [r["acctid"], r["inst"]], want) != ms(lambda r: [r["acctid"], r["inst"]], got):
        return prefix + ":wrong-bank-or-broker-id"
    dates = lambda r: [r["acctid"], (r["inctran"] or [None, None])[:2], r["dtstart"], r["dtend"], (r["incpos"] or [None])[0]]
    if ms(dates, want) != ms(dates, got):
        return prefix + ":wrong-dates"
    return prefix + ":wrong-include-flags"


def check_property(case, res, fail):
    kind = case["_kind"]
    if kind in ("wild", "allwild") or "out" not in res:
        return
    rp = dict({k: v for k, v in case.items() if k.startswith("_")}, case=public(case))
    cli, cmd = case["_cli"], case["cmd"]
    out = res["out"]
    if kind == "config":
        spec = case["_spec"]
        want = expected_requests(cmd, spec, spec["bankid"], spec["brokerid"], cli)
        if "err" in out:
            fail("%s:raises-on-valid-configuration" % cmd, "ofxget %s raised %s: %s" % (cmd, out["err"][1], out["err"][2]), rp)
        elif sorted(map(canon, want)) != sorted(map(canon, out["ok"])):
            fail(diff_key(cmd, want, out["ok"]), "ofxget %s requested %s, configured: %s" % (cmd, json.dumps(out["ok"]), json.dumps(want)), dict(rp, expected=want, observed=out["ok"]))
        return
    # --all
    reply = case["reply"]
    infos = [a for ai in reply["trnrs"][0]["rs"] for a in ai]
    active = {o: [a["id"] for a in infos if a["k"] == "bank" and a["ty"] == o.upper() and a["st"] == "ACTIVE"] for o in ("checking", "savings", "moneymrkt", "creditline")}
    active["creditcard"] = [a["id"] for a in infos if a["k"] == "cc" and a["st"] == "ACTIVE"]
    active["investment"] = [a["id"] for a in infos if a["k"] == "inv" and a["st"] == "ACTIVE"] if cmd == "stmt" else []
    inactive = {a["id"] for a in infos if a["st"] != "ACTIVE" and a["k"] != "bp"}
    named = {x for d in (case["_explicit_cli"], case["_explicit_file"]) for v in d.values() for x in v}
    if "err" in out:
        any_active = any(active.values())
        kinds_without_active = [k for k in ("bank", "inv") if any(a["k"] == k for a in infos) and not any(a["k"] == k and a["st"] == "ACTIVE" for a in infos)]
        if kinds_without_active:
            fail("all:fails-when-a-kind-has-no-active-account", "ofxget %s --all raised %s (%s): the server lists %s accounts, none ACTIVE; the ACTIVE accounts of the other kinds are not requested"
                 % (cmd, out["err"][1], out["err"][2], "/".join(kinds_without_active)), rp)
        else:
            fail("all:raises", "ofxget %s --all raised %s: %s" % (cmd, out["err"][1], out["err"][2]), rp)
        return
    got = out["ok"]
    got_ids = [r["acctid"] for r in got]
    bad = [i for i in got_ids if i in inactive and i not in named]
    if bad:
        fail("all:inactive-account-requested", "ofxget %s --all requested %r, which the server does not list as ACTIVE" % (cmd, bad), dict(rp, observed=got))
    if not case["_explicit_cli"] and not case["_explicit_file"]:
        cfg = case["_cfg"]
        bank_ids = {a["inst"] for a in infos if a["k"] == "bank" and a["st"] == "ACTIVE"}
        inv_ids = {a["inst"] for a in infos if a["k"] == "inv" and a["st"] == "ACTIVE"}
        bankid = cfg["cli"].get("bankid") or (sorted(bank_ids)[0] if bank_ids else None) or cfg["file"].get("bankid")
        brokerid = cfg["cli"].get("brokerid") or (sorted(inv_ids)[0] if inv_ids else None) or cfg["file"].get("brokerid")
        want = expected_requests(cmd, active, bankid, brokerid, cli)
        if sorted(map(canon, want)) != sorted(map(canon, got)):
            fail(diff_key("all", want, got).replace("all:account-missing", "all:active-account-missing"),
                 "ofxget %s --all requested %s; ACTIVE accounts: %s" % (cmd, json.dumps(got), json.dumps(want)), dict(rp, expected=want, observed=got))
    else:
        # explicit options are the user's own request: every other ACTIVE account of an unnamed type must still be there
        for o, ids in active.items():
            if o in case["_explicit_cli"] or o in case["_explicit_file"]:
                continue
            for i in ids:
                if i not in got_ids:
                    fail("all:active-account-missing", "ofxget %s --all did not request ACTIVE %s account %r" % (cmd, o, i), dict(rp, observed=got))


# ===================================================================== Coq encoding
KIND = {"stmt": "KStmt", "ccstmt": "KCcStmt", "invstmt": "KInvStmt", "stmtend": "KStmtEnd", "ccstmtend": "KCcStmtEnd"}


def zlit(v):
    return "(%d)%%Z" % v


def cz(v):
    return C.copt(v, zlit)


def coq_docrq(r):
    it = "None" if r["inctran"] is None else "(Some (%s,%s,%s))" % (cz(r["inctran"][0]), cz(r["inctran"][1]), C.cbool(r["inctran"][2]))
    ip = "None" if r["incpos"] is None else "(Some (%s,%s))" % (cz(r["incpos"][0]), C.cbool(r["incpos"][1]))
    return "Build_docrq %s %s %s %s %s %s %s %s %s %s" % (KIND[r["kind"]], C.copt(r["inst"], ctxt), ctxt(r["acctid"]), C.copt(r["accttype"], ctxt), it,
                                                        cz(r["dtstart"]), cz(r["dtend"]), C.copt(r["incoo"], C.cbool), ip, C.copt(r["incbal"], C.cbool))


def coq_case(case, res):
    conv = C.clist(["(%s,%s)" % (ctxt(k), ("OK %s" % zlit(v)) if not isinstance(v, dict) else ("Err Reject" if v["err"] == "reject" else "Err Crash")) for k, v in res["conv"].items()])
    if "ok" in res["out"]:
        exp = "(OK %s)" % C.clist([coq_docrq(r) for r in res["out"]["ok"]])
    else:
        exp = "(Err %s)" % ("Reject" if res["out"]["err"][0] == "reject" else "Crash")
    return "ACase %d %s %s %s %s %s %s" % (0 if case["cmd"] == "stmt" else 1, ctxt(case["fi"]), C.copt(case["user"], ctxt), camap(res["cli"]), conv,
                                          coq_reply(case["reply"]), exp)


def well_formed_observation(res):
    """yes when every parsed-back request has the shape the model's docrq can hold"""
    for r in res["out"].get("ok", []):
        if r["acctid"] is None or (r["inctran"] is not None and r["inctran"][2] is None) or (r["incpos"] is not None and r["incpos"][1] is None):
            return False
    return True


def evaluate(cases, rep, shard=250):
    res = c18.run_workers([public(c) for c in cases], entry="from ofxv.props import c19; c19.worker_main()", tag="c19")
    items, kept = [], []
    for c, r in zip(cases, res):
        if r.get("harness_error"):
            rep.broken.append("harness: case could not be run: %s" % r["harness_error"][-300:])
            continue
        check_property(c, r, lambda key, what, replay: rep.failures.append(C.Failure(key, what, replay)))
        okc = "ok" in r["out"]
        rep.count(public(c), nontrivial=okc and len(r["out"]["ok"]) > 0, kind="%s:%s:%s" % (c["_kind"], c["cmd"], "ok" if okc else r["out"]["err"][0]))
        if not c18.encodable(r["cli"]) or not well_formed_observation(r):
            rep.broken.append("harness: observation outside the model's vocabulary: %r" % (r,))
            continue
        items.append(coq_case(c, r)); kept.append((c, r))
    bad = C.coq_bad_indices(PROP, "accts", IMPORTS, "acase_ok", "acase", items, shard=shard)
    for i in bad[:40]:
        c, r = kept[i]
        rep.disagreements.append({"case": public(c), "kind": c["_kind"], "implementation": {k: v for k, v in r.items() if k != "eff"}})
    return kept, bad


def load_corpus():
    out = []
    for p in sorted(glob.glob(os.path.join(C.VERIF, "corpus", PROP, "*.json"))):
        obj = json.load(open(p))
        case = dict(obj["case"])
        for k, v in obj.items():
            if k.startswith("_"):
                case[k] = v
        case.setdefault("_kind", "wild")
        case["reply_doc"] = reply_doc(case["reply"])
        out.append(case)
    return out


def run(rep, tier, rng):
    TR.load(strict=False)
    thorough = tier == "thorough"
    cases = load_corpus()
    cases += gen_config(rng, 6000 if thorough else 600)
    cases += gen_all(rng, 5000 if thorough else 600)
    cases += gen_config(rng, 2500 if thorough else 250, wild=True)
    cases += gen_all(rng, 2500 if thorough else 250, wild=True)
    kept, bad = evaluate(cases, rep)
    for k in (0, len(kept) // 3, 2 * len(kept) // 3, len(kept) - 1):
        if 0 <= k < len(kept):
            rep.sample({"argv": kept[k][0]["argv"], "user_file": kept[k][0]["user"], "reply": kept[k][0]["reply"], "implementation": kept[k][1]["out"]})
    rep.rule = ("corpus first; config: stmt/stmtend with account lists (0..20 ids, repeats) for every account type on the command line and/or in the user's file, bank/broker id from "
                "command line, user file or FI database, start/end/as-of dates in several notations, include flags, OFX versions 102..220, pretty / unclosed elements; half as --dryrun "
                "(printed request parsed back), half POSTed to an in-process fake server (--skipprofile); all: --all against the fake server answering ACCTINFORQ with generated ACCTINFORS "
                "(0..9 ACCTINFO, any mix of bank / credit-card / investment / bill-pay accounts of every type and service status, whole kinds without ACTIVE account), with and without account "
                "lists on the command line or in the file; wild: missing / over-long ids, XML entities in ids, bad dates, unclosed elements under OFX 2, --all --dryrun, error statuses, "
                "several ACCTINFOTRNRS, several bank ids. non-trivial = a request document with at least one statement request; distinct by full case content")


def replay(obj):
    C.use_repo()
    TR.load(strict=False)
    r = obj.get("replay") or obj
    case = dict(r["case"])
    for k, v in r.items():
        if k.startswith("_"):
            case[k] = v
    case.setdefault("_kind", "wild")
    case["reply_doc"] = reply_doc(case["reply"])
    rep = C.Report(PROP, "replay", 0)
    kept, bad = evaluate([case], rep)
    for c, res in kept:
        print(json.dumps({k: v for k, v in res.items() if k != "eff"}, indent=1)[:4000])
    status = 0
    for f in rep.failures:
        print("VIOLATION property=C19 key=%s: %s" % (f.key, f.what)); status = 1
    if bad:
        print("model and implementation disagree on this case"); status = 1
    return status
