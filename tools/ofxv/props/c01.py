"""C01 - serialize-then-parse returns the same model, for every class and wire form."""
import io, warnings
import xml.etree.ElementTree as ET
from .. import common as C
from .. import schema_harness as H
from .. import translate_schema as TS

PROP = "C01"
COQ_EXTRA = ["theories/Model/ConvertCases.vo", "theories/Model/RoundTripCases.vo", "theories/Model/TypedCases.vo", "theories/Gen/TypedGen.vo", "theories/Gen/SchemaS.vo"]
IMPORTS = ["Model.Schema", "Model.Convert", "Model.ConvertCases", "Model.RoundTripCases", "Gen.SchemaGen", "Gen.SchemaS"]
TIMPORTS = ["Model.Schema", "Model.Convert", "Model.Scalars", "Model.PyDecimal", "Model.Typed", "Model.ConvertCases", "Model.TypedCases", "Gen.SchemaGen", "Gen.SchemaS", "Gen.TypedGen", "Gen.DateTimeGen"]
PARTIAL = ["proved: the tree-level round trip (roundtrip_tree, RoundTrip1-6) and its composition with the wire theorem of the Sgml/Serialize engine (wire_roundtrip_closed / "
           "wire_roundtrip_unclosed: to_etree -> serializer text -> tokenizer + tree builder -> from_etree returns the same instance, plain and pretty-printed); the hypothesis "
           "conv (escape (unconv v)) = Some v on element values is discharged for Bool/String/NagString/OneOf/Integer/Decimal by held_value_reads_back (C10 engine) and for "
           "DateTime/Time by held_datetime_reads_back (C09 engine; millisecond-precision instants, years 1000..9998, any writer conforming to writes_instants / writes_times - "
           "utc_writer_conforms shows the UTC writer is one); typed_valid_is_valid packages both (structure + holdable values => valid for the concrete converters, no converter hypothesis), "
           "typed_file_roundtrip_v2 is the complete byte-level statement in those terms, typed_valid_b_sound ties the decidable domain check evaluated on real instances (TValidM); file_roundtrip_v2 / file_roundtrip_v1 / client_bytes_roundtrip_v2 / _v1 compose these with the header engine's "
           "parse_header_exact theorems into one statement over the BYTES of a file (any tolerated header layout ++ encoded body -> parse_header -> tokenizer -> tree builder -> from_etree "
           "gives the header and the same instance); lone surrogates in the text are excluded there (scalar_text); "
           "the complete file round trip is also exercised on the implementation for every class x 6 wire forms x header versions",
           "the SGML form without end tags is proved for trees without empty aggregates (recorded finding) and without a data element closing an aggregate of its own name"]
MANIFEST = {
    "engine": "Schema",
    "text": "Theorem for EVERY class table, EVERY pair of element converters and EVERY valid instance (any depth, any number of members): what to_etree writes, from_etree reads "
            "back as the very same instance with no warning - same classes and nesting, same list members in the same order, equal element values (given conv (unconv v) = v, "
            "C09/C10). Proved by structural induction over the instance: shape of the emitted children, completeness of the reader's fold over them (sequence check, duplicate "
            "check, values), canonical constructor arguments. The class-table hypothesis is a decidable condition proved sound and evaluated by the kernel on the table "
            "regenerated from /repo (all concrete classes pass, the three with a groom/ungroom rename included, except TAX1099INT_V100); instance validity is a decidable predicate proved sound and evaluated on "
            "real instances of every class (also with the engines' converters alone: TValidM). Composed with the wire theorem (C02), the header theorems (C05) and the "
            "concrete converters (C10, C09) into statements over the BYTES of a file. The implementation is exercised on every class x {XML, SGML closed, SGML unclosed} x "
            "{pretty, plain} x header versions: bytes from OFXClient.serialize, parsed by OFXTree, converted, deep-compared; the typed model (no converter table) is run "
            "on every instance and document.",
    "note": "Trusted: Coq kernel + vm_compute; translators; hand transcriptions (Model/Convert.v, Header.v, Sgml.v, Serialize.v, Scalars.v, DateTimeM.v) validated by "
            "correspondence and pinned by source hashes. The byte-level theorems file_roundtrip_v2 / _v1, client_bytes_roundtrip_v2 / _v1 and typed_file_roundtrip_v2 / _v1 "
            "compose the header engine (C05), the tokenizer / tree builder / serializers (C02) and the schema engine with the concrete converters of C10 and C09: no "
            "hypothesis is left on the converters (typed_valid_is_valid). Print Assumptions: closed under the global context; coqchk: no axioms.",
}
V1 = [102, 103, 151, 160]
V2 = [200, 201, 202, 203, 210, 211, 220]
FORMS = [("xml", True, V2), ("sgml-closed", True, V1), ("sgml-unclosed", False, V1)]
EXCLUDED = ("TAX1099INT_V100",)


def translate():
    TS.generate()


def classes_in(ctx, obj, acc=None):
    acc = set() if acc is None else acc
    acc.add(type(obj).__name__)
    for b in type(obj).__mro__:
        acc.add(b.__name__)
    for k, t in H.spec_no_list(ctx, type(obj)):
        v = obj.__dict__.get(k)
        if isinstance(v, ctx.Aggregate):
            classes_in(ctx, v, acc)
    for m in obj:
        if isinstance(m, ctx.Aggregate):
            classes_in(ctx, m, acc)
    return acc


def has_empty_aggregate(e):
    """an aggregate element without children and without data (written as a bare start tag by the unclosed form)"""
    if len(e) == 0 and not (e.text and e.text.strip()):
        return True
    return any(has_empty_aggregate(c) for c in e)


def markup_in_values(e):
    if len(e) == 0 and e.text and any(ch in e.text for ch in "&<>"):
        return True
    return any(markup_in_values(c) for c in e)


def rcase(ctx, obj):
    """RCase: real instance + tables filled by the real converters"""
    utb = {}
    enc = H.enc_inst(ctx, obj, utb)
    tb = {}
    T = ctx.Types
    # the texts the writer will produce are what the reader's converters will be given
    for (eid, h), out in list(utb.items()):
        if out[0] == "ok" and isinstance(out[1], str):
            conv = ctx_conv_by_eid(ctx, eid)
            if conv is not None:
                tb[(eid, ("T", out[1]))] = H.outcome(conv.convert, out[1])
    return enc, tb, utb


_CONV = {}


def ctx_conv_by_eid(ctx, eid):
    if not _CONV:
        T = ctx.Types
        for cls in ctx.classes:
            for k, t in cls.spec.items():
                if isinstance(t, T.Element) and not isinstance(t, T.SubAggregate):
                    c = t.converter if isinstance(t, T.ListElement) else t
                    _CONV.setdefault(ctx.eid(t), c)
    return _CONV.get(eid)


# ---- typed encoding: real values, no handles (date-times as instants) ----
import datetime as _dt, decimal as _dec
_EPOCH = _dt.datetime(1970, 1, 1, tzinfo=_dt.timezone.utc)


def cZ(n):
    return "(%d)%%Z" % n


def enc_pyval(v):
    if v is None: return "PNone"
    if isinstance(v, bool): return "PBool %s" % C.cbool(v)
    if isinstance(v, int): return "PInt %s" % cZ(v)
    if isinstance(v, str): return "PStr %s" % C.ctext(v)
    if isinstance(v, _dec.Decimal):
        sign, digits, exp = v.as_tuple()
        if not isinstance(exp, int): raise ValueError("special decimal held by an instance")
        return "PDec (Fin %s %d %s)" % (C.cbool(bool(sign)), int("".join(map(str, digits)) or "0"), cZ(exp))
    if isinstance(v, _dt.datetime):
        d = v - _EPOCH
        return "PDT %s" % cZ((d.days * 86400 + d.seconds) * 10 ** 6 + d.microseconds)
    if isinstance(v, _dt.time):
        us = ((v.hour * 60 + v.minute) * 60 + v.second) * 10 ** 6 + v.microsecond - int(v.utcoffset().total_seconds()) * 10 ** 6
        return "PTime %s" % cZ(us % (86400 * 10 ** 6))
    raise ValueError("unencodable value %r" % (v,))


def enc_pinst(ctx, obj, udt=None, vals=None):
    T = ctx.Types
    cls = type(obj)
    fields = []
    for k, t in H.spec_no_list(ctx, cls):
        v = None if isinstance(t, T.Unsupported) else obj.__dict__.get(k)
        if v is None:
            fields.append("(%s,FNone _)" % H.cs(k))
        elif isinstance(v, ctx.Aggregate):
            fields.append("(%s,FSub _ %s)" % (H.cs(k), enc_pinst(ctx, v, udt, vals)))
        else:
            if udt is not None and type(t) in (T.DateTime, T.Time):
                udt[(type(t) is T.Time, enc_pyval(v))] = H.outcome(t.unconvert, v)
                if vals is not None: vals.setdefault((type(t) is T.Time, enc_pyval(v)), []).append(v)
            fields.append("(%s,FVal _ (%s))" % (H.cs(k), enc_pyval(v)))
    mems = []
    le = [t for k, t in cls.spec.items() if isinstance(t, T.ListElement)]
    for m in obj:
        if isinstance(m, ctx.Aggregate):
            mems.append("MAgg _ %s" % enc_pinst(ctx, m, udt, vals))
        elif isinstance(obj, ctx.ElementList):
            if udt is not None and le and type(le[0].converter) in (T.DateTime, T.Time) and m is not None:
                udt[(type(le[0].converter) is T.Time, enc_pyval(m))] = H.outcome(le[0].unconvert, m)
                if vals is not None: vals.setdefault((type(le[0].converter) is T.Time, enc_pyval(m)), []).append(m)
            mems.append("MVal _ %s" % ("None" if m is None else "(Some (%s))" % enc_pyval(m)))
        else:
            mems.append("MStr _ %s" % C.ctext(m))
    return "(Inst _ %s [%s] [%s])" % (H.cs(cls.__name__), ";".join(fields), ";".join(mems))


def dt_table_for_tree(ctx, e, tb):
    """(is_time, text) -> what the REAL DateTime/Time converter makes of it, for every date-time child met as from_etree walks"""
    T = ctx.Types
    cls = getattr(ctx.M, e.tag, None)
    if not (isinstance(cls, type) and issubclass(cls, ctx.Aggregate)):
        return
    for ch in e:
        t = cls.spec.get(ch.tag.lower())
        if t is None:
            continue
        conv = t.converter if isinstance(t, T.ListElement) else t
        if ch.text and type(conv) in (T.DateTime, T.Time):
            tb[(type(conv) is T.Time, ch.text)] = H.outcome(conv.convert, ch.text)
        elif not ch.text:
            dt_table_for_tree(ctx, ch, tb)


def enc_res_pyval(out):
    if out[0] == "ok":
        return "OK %s" % ("None" if out[1] is None else "(Some (%s))" % enc_pyval(out[1]))
    return "Err Reject" if out[0] == "reject" else "Err Crash"


def _is_utc(v):
    try:
        return v.tzinfo is not None and v.utcoffset() == _dt.timedelta(0) and v.tzname() == "UTC"
    except Exception:
        return False


def typed_cases(ctx, obj, tree, back, wtags, in_domain=None):
    """TTo: the typed model writes the real instance; TFrom: the typed model reads the tree the library wrote (date-times through tables
    filled by the real converters).  TFromM / TToM: the same with the date-time converters of the C09 engine (no table on the reading
    side; on the writing side a table only for values whose tzinfo is not UTC)"""
    out = []
    try:
        udt = {}
        vals = {}
        enc = enc_pinst(ctx, obj, udt, vals)
        utb = "[" + ";".join("(%s,%s,%s)" % (C.cbool(k[0]), k[1], H.enc_result(o, C.ctext)) for k, o in udt.items()) + "]"
        etree_enc = H.enc_etree(tree)
        out.append("TTo %s %s (OK %s)" % (utb, enc, etree_enc))
        zoned = {k: o for k, o in udt.items() if not all(_is_utc(v) for v in vals[k])}
        if all(all(_is_utc(v) for v in vals[k]) or not any(_is_utc(v) for v in vals[k]) for k in udt):   # an instant held in two zones at once: the table cannot tell them apart
            ztb = "[" + ";".join("(%s,%s,%s)" % (C.cbool(k[0]), k[1], H.enc_result(o, C.ctext)) for k, o in zoned.items()) + "]"
            out.append("TToM %s %s (OK %s)" % (ztb, enc, etree_enc))
        tb = {}
        dt_table_for_tree(ctx, tree, tb)
        ttb = "[" + ";".join("(%s,%s,%s)" % (C.cbool(k[0]), C.ctext(k[1]), enc_res_pyval(o)) for k, o in tb.items()) + "]"
        exp = H.enc_result(back, lambda i: "(%s,[%s])" % (enc_pinst(ctx, i), ";".join(H.cs(t) for t in wtags)))
        out.append("TFrom %s %s (%s)" % (ttb, etree_enc, exp))
        out.append("TFromM %s (%s)" % (etree_enc, exp))
        if in_domain is not None:      # the domain of the round-trip theorems, decided with the engines' converters alone
            out.append("TValidM %s %s" % (enc, C.cbool(in_domain)))
    except ValueError:
        pass
    return out


def run(rep, tier, rng):
    from ofxtools.Client import OFXClient
    from ofxtools.Parser import OFXTree
    shared_tree = OFXTree()
    ctx = H.Ctx()
    if ctx.d["problems"]:
        rep.broken.append("translator not complete: %s" % ctx.d["problems"][:3])
    client = OFXClient("https://example.invalid/ofx")
    per_class = 4 if tier == "thorough" else 1
    items, meta = [], []
    titems, tmeta = [], []
    yitems, ymeta = [], []
    dist = {}
    for cls in ctx.concrete:
        for _ in range(per_class):
            obj = H.gen_instance(ctx, cls, rng, depth=2, full=0.5)
            if obj is None:
                continue
            excluded = bool(classes_in(ctx, obj) & set(EXCLUDED))
            # ---- tree level: model vs implementation, and membership in the theorem's domain
            try:
                tree = obj.to_etree()
            except Exception as e:
                rep.failures.append(C.Failure("to_etree-raises:%s" % type(e).__name__, "%s: to_etree() of a valid instance raised %r" % (cls.__name__, e), {"cls": cls.__name__}))
                continue
            back, wtags = H.run_from_etree(ctx, tree)
            tree_ok = back[0] == "ok" and not wtags and H.inst_equal(ctx, obj, back[1])
            enc, tb, utb = rcase(ctx, obj)
            items.append("RCase %s %s %s %s %s" % (H.enc_conv_table(ctx, tb), H.enc_unconv_table(ctx, utb), enc, C.cbool(not excluded), C.cbool(tree_ok)))
            meta.append({"class": cls.__name__, "expected_in_domain": not excluded, "implementation_tree_roundtrip": tree_ok})
            if cls.__name__.lower() not in ("rmxz",):
                for tc in typed_cases(ctx, obj, tree, back, wtags, in_domain=not excluded):
                    yitems.append(tc); ymeta.append({"class": cls.__name__, "what": "typed " + tc[:5]})
            c1, o1 = H.case_to(ctx, obj); titems.append(c1); tmeta.append({"class": cls.__name__, "what": "to_etree"})
            c2, o2, _ = H.case_from(ctx, tree); titems.append(c2); tmeta.append({"class": cls.__name__, "what": "from_etree"})
            if not tree_ok:
                if "TAX1099INT_V100" in classes_in(ctx, obj):
                    pass      # recorded finding of C13
                else:
                    rep.failures.append(C.Failure("tree-roundtrip-differs", "%s: from_etree(to_etree(i)) is not i (%s, warnings %s)" % (cls.__name__, back[0] if back[0] != "ok" else "model differs", wtags),
                                                  {"cls": cls.__name__, "xml": ET.tostring(tree).decode()[:3000]}))
                    continue
            # ---- wire level: every form the library produces
            for form, close, versions in FORMS:
                for pretty in (False, True):
                    version = rng.choice(versions)
                    case = {"class": cls.__name__, "form": form, "pretty": pretty, "version": version}
                    try:
                        data = client.serialize(obj, version=version, prettyprint=pretty, close_elements=close, oldfileuid=rng.choice([None, "abc-1"]), newfileuid=rng.choice([None, "F00"]))
                    except Exception as e:
                        rep.failures.append(C.Failure("serialize-raises:%s" % type(e).__name__, "%s: serialize(%s) raised %r" % (cls.__name__, case, e), case))
                        continue
                    case["bytes"] = data.decode("utf-8", "replace")[:4000]
                    k = "%s:%s" % (form, "pretty" if pretty else "plain")
                    dist[k] = dist.get(k, 0) + 1
                    rep.count((cls.__name__, form, pretty, version, data), nontrivial=True, kind=k)
                    try:
                        with warnings.catch_warnings(record=True) as w:
                            warnings.simplefilter("always")
                            # pretty files are read with ONE long-lived OFXTree (an application reading many files through one reader), plain ones with a fresh one
                            t = shared_tree if pretty else OFXTree()
                            case["reader"] = "one OFXTree reused for every file" if pretty else "fresh OFXTree"
                            t.parse(io.BytesIO(data)); got = t.convert()
                        err = None
                    except Exception as e:
                        got, err = None, e
                    ok = err is None and H.inst_equal(ctx, obj, got) and int(t.header.version) == version
                    if ok:
                        continue
                    if "TAX1099INT_V100" in classes_in(ctx, obj):
                        continue
                    why = ("raised %r" % err) if err is not None else ("header version %s" % t.header.version if int(t.header.version) != version else "model differs")
                    if form == "sgml-unclosed" and has_empty_aggregate(tree):
                        key = "unclosed:empty-aggregate-written-as-bare-start-tag"
                    elif form == "sgml-unclosed" and markup_in_values(tree):
                        key = "unclosed:no-escaping"
                    else:
                        key = "wire-roundtrip-differs:%s" % form
                    rep.failures.append(C.Failure(key, "%s in form %s (pretty=%s, version %s): parse+convert of the written file %s" % (cls.__name__, form, pretty, version, why), case))
    rep.extra["wire_forms"] = dist
    for m in meta[:2]:
        rep.sample(m)
    rep.rule = ("every concrete class x %d valid instance(s) (strings over letters, digits, punctuation, & < > quotes and non-ASCII, trimmed, non-empty; decimals, aware date-times) x "
                "{XML, SGML closed, SGML unclosed} x {plain, pretty} x a random supported header version: OFXClient.serialize -> OFXTree.parse -> convert -> deep comparison with the "
                "original; and per instance: model write-then-read vs implementation, valid_b (theorem domain) expected true unless the instance holds one of %s. "
                "distinct by (class, form, pretty, version, bytes)" % (per_class, list(EXCLUDED)))
    bad = C.coq_bad_indices(PROP, "trip", IMPORTS, "rcase_ok S", "rcase", items, shard=100, prelude="Local Open Scope string_scope.")
    for i in bad[:30]:
        rep.disagreements.append(dict(meta[i], case=items[i][:1500]))
    bad = C.coq_bad_indices(PROP, "tree", IMPORTS, "ccase_ok S", "ccase", titems, shard=150, prelude="Local Open Scope string_scope.")
    for i in bad[:30]:
        rep.disagreements.append(dict(tmeta[i], case=titems[i][:1500]))
    bad = C.coq_bad_indices(PROP, "typed", TIMPORTS, "tcase_ok ety_table S", "tcase", yitems, shard=150, prelude="Local Open Scope string_scope.")
    for i in bad[:30]:
        rep.disagreements.append(dict(ymeta[i], case=yitems[i][:1500]))
    rep.extra["typed_model_cases"] = len(yitems)
    rep.evaluations += len(items) + len(titems) + len(yitems)


def replay(obj):
    print("replay: the instance is generated; rerun `bin/check C01` with the same VERIF_SEED. Recorded bytes:")
    print(obj["replay"].get("bytes", "")[:2000])
    return 2
