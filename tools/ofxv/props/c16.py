"""C16 - shortcuts and flat attribute access agree with the full path; misses are clean.

Anchors: models/base.py:540-549 (Aggregate.__getattr__), Types.py:157-167 (Element.__get__), the shortcut properties of
models/ofx.py, bank/msgsets.py, invest/msgsets.py, bank/stmt.py, bank/stmtend.py, invest/stmt.py, profile.py, signon.py, i18n.py."""
import copy, pickle, warnings, json, os, glob, itertools
from .. import common as C
from .. import schema_harness as H
from .. import translate_schema as TS
from .. import translate_lookup as TL

PROP = "C16"
COQ_EXTRA = ["theories/Model/LookupCases.vo", "theories/Gen/LookupGen.vo", "theories/Gen/SchemaS.vo"]
IMPORTS = ["Model.Schema", "Model.Convert", "Model.ConvertCases", "Model.Shortcuts", "Model.Lookup", "Model.LookupCases",
           "Gen.SchemaGen", "Gen.SchemaS", "Gen.LookupGen"]
OKFUN = "lcase_ok first_fetch_in_try S LT"
PARTIAL = [
    "what CPython's copy / pickle protocol needs beyond clean misses (object.__reduce_ex__, copyreg, list-subclass reconstruction, __dict__ state) is interpreter "
    "behaviour and is not modelled: the theorem is miss_is_attribute_error on populated and blank instances; hasattr, getattr with default, copy.copy, "
    "copy.deepcopy and pickle round trips are EXECUTED on every generated instance of every concrete class and deep-compared (differential testing)",
    "the *RS `statements` shortcuts staple TRNUID / CLTCOOKIE onto the statement objects they return (a write on read); the model represents the reads only. "
    "The property asks for 'exactly the objects found by walking the full path' (identity, order, multiplicity), which stapling does not change: the stapled names "
    "are outside the statement's spec and do not alter the model compared by C16 (notes/status/C16.md)",
    "theorems quantify over instances in which no scalar sits under a sub-aggregate attribute and every class is in the table (lk_wf; SubAggregate.convert "
    "guarantees it for everything built through the API; evaluated on every generated instance); dunder names NoneType answers (__bool__) are excluded from the miss theorem by hypothesis",
]
MANIFEST = {
    "engine": "Lookup",
    "text": "Theorems over EVERY class table, class-attribute table and instance (nested induction over the instance): a name that no class on the way defines "
            "raises AttributeError exactly, on populated and on blank instances (miss_is_attribute_error, miss_on_blank); if exactly one aggregate reachable through "
            "non-repeated sub-aggregates defines the name, flat access returns what that aggregate returns, in particular the value stored there (flat_access_unique); "
            "every simple alias equals the stored attribute it names (alias_is_path) and the message-set / OFX `statements` and `securities` shortcuts equal the path walk over "
            "the wrappers in document order, each once (statements_is_path_walk, securities_is_path_walk), the shortcut bodies being tied to the source by AST hash and the walk "
            "table checked by the kernel against the regenerated descriptors. The model (Model/Lookup.v, Model/Shortcuts.v) is tied to models/base.py and Types.py by "
            "evaluating getattr for every name defined anywhere below (plus undefined names) on instances of all concrete classes under every present/absent combination "
            "of optional sub-aggregates (up to a budget), populated and blank, against the implementation; the property itself (identity of returned objects, path walks, "
            "AttributeError on misses, hasattr / getattr-default / copy / deepcopy / pickle round trips) is evaluated on the implementation by an independent oracle.",
    "note": "Trusted: Coq kernel + vm_compute; translators of the class table and of the class-attribute table; hand transcriptions Model/Lookup.v and Model/Shortcuts.v "
            "(validated by correspondence; shortcut bodies pinned by AST hash). PARTIAL: the copy / pickle protocol itself is CPython behaviour, exercised not proved. "
            "Print Assumptions: closed under the global context.",
}

UNDEFINED = ["nosuchattr", "x", "zz_top", "__deepcopy__", "__copy__", "__setstate__", "__getnewargs_ex__", "__getnewargs__", "__reduce_foo__"]
MODEL_ONLY = ["__bool__", "count", "append", "to_etree", "spec", "__class__", "__reduce_ex__", "__getstate__", "__len__"]
SENTINEL = object()
SPLIT = {}        # index of the case -> (head, [query terms]) for pinpointing a disagreement


def translate():
    TS.generate()
    TL.generate()


# ------------------------------------------------------------------ walking real instances
def is_list_type(ctx, t):
    return isinstance(t, (ctx.Types.ListAggregate, ctx.Types.ListElement))


def sub_children(ctx, obj):
    """(attribute, child) for the non-repeated sub-aggregates an instance holds, in spec order (read from the dictionary, no getattr)"""
    T = ctx.Types
    out = []
    for k, t in type(obj).spec.items():
        if isinstance(t, T.SubAggregate) and not isinstance(t, T.ListAggregate):
            v = obj.__dict__.get(k)
            if isinstance(v, ctx.Aggregate):
                out.append((k, v))
    return out


def descendants(ctx, obj, path=()):
    """(path, node) of obj and of every aggregate below it through non-repeated sub-aggregates"""
    out = [(path, obj)]
    for k, v in sub_children(ctx, obj):
        out.extend(descendants(ctx, v, path + (k,)))
    return out


def all_nodes(ctx, obj, steps=()):
    """(steps, node) for every aggregate in the tree, list members included; steps as Coq pstep terms"""
    out = [(steps, obj)]
    for k, v in sub_children(ctx, obj):
        out.extend(all_nodes(ctx, v, steps + ("PF %s" % H.cs(k),)))
    for n, m in enumerate(obj):
        if isinstance(m, ctx.Aggregate):
            out.extend(all_nodes(ctx, m, steps + ("PM %d%%nat" % n,)))
    return out


def class_level(ctx, cls):
    """names type(obj) answers at class level (dir), spec attributes included"""
    k = "_dir_" + cls.__name__
    if k not in ctx.__dict__:
        # copyreg caches cls.__slotnames__ on a class the first time an instance is copied / pickled: an artefact of the runs below, not a name of the model
        ctx.__dict__[k] = frozenset(dir(cls)) - {"__slotnames__"}
    return ctx.__dict__[k]


def shortcut_names(ctx, cls):
    return sorted(class_level(ctx, cls) - class_level(ctx, ctx.Aggregate) - set(cls.spec))


PRELUDE = ("Local Open Scope string_scope.\n"
           "Definition hI := Inst hval. Definition hFN := FNone hval. Definition hFV := FVal hval. Definition hFS := FSub hval.\n"
           "Definition hMA := MAgg hval. Definition hMS := MStr hval. Definition hMV := MVal hval.\n")
_HOLES = (("Inst _", "hI"), ("FNone _", "hFN"), ("FVal _", "hFV"), ("FSub _", "hFS"), ("MAgg _", "hMA"), ("MStr _", "hMS"), ("MVal _", "hMV"))


def enc_inst(ctx, obj):
    """schema_harness.enc_inst with the implicit-argument holes filled in: thousands of `_` per case file make Coq's elaboration
    of the case list superlinear (minutes instead of seconds)"""
    s = H.enc_inst(ctx, obj)
    for a, b in _HOLES:
        s = s.replace(a, b)
    return s


def read(obj, name):
    try:
        with warnings.catch_warnings():
            warnings.simplefilter("ignore")
            return ("ok", getattr(obj, name))
    except AttributeError:
        return ("attr", "AttributeError")
    except Exception as e:
        return ("crash", type(e).__name__)


def is_scalar(v):
    import decimal, datetime
    return isinstance(v, (bool, int, str, decimal.Decimal, datetime.datetime, datetime.time))


def enc_obj(ctx, v, paths):
    if v is None:
        return "ENone"
    if isinstance(v, ctx.Aggregate):
        p = paths.get(id(v))
        return "(EAt [%s])" % ";".join(p) if p is not None else "(EInst %s)" % enc_inst(ctx, v)
    if type(v) is list and all(x is None or isinstance(x, ctx.Aggregate) or is_scalar(x) for x in v):
        return "(EList [%s])" % ";".join(enc_obj(ctx, x, paths) for x in v)
    if is_scalar(v):
        return "(EVal %d)" % ctx.handle(v)
    return "EOther"


def enc_outcome(ctx, out, paths):
    if out[0] == "ok":
        return "(OK %s)" % enc_obj(ctx, out[1], paths)
    return "(Err Reject)" if out[0] == "attr" else "(Err Crash)"


def query_names(ctx, obj, nodes):
    names = set()
    for _, n in nodes:
        names.update(type(n).spec)
        names.update(shortcut_names(ctx, type(n)))
    sc = set()
    for _, n in nodes:
        sc.update(shortcut_names(ctx, type(n)))
    plain = sorted(names - sc)
    return plain + UNDEFINED + MODEL_ONLY + sorted(sc)


def make_case(ctx, obj, blank=False):
    """-> (Coq lcase, [(name, outcome)])"""
    if blank:
        cls = obj
        inst = cls.__new__(cls)
        enc = "(hI %s [] [])" % H.cs(cls.__name__)
        nodes, paths = [((), inst)], {}
        names = sorted(cls.spec) + UNDEFINED + ["count", "__class__"] + shortcut_names(ctx, cls)
    else:
        inst = obj
        nodes = all_nodes(ctx, inst)
        paths = {}
        for st, n in nodes:
            paths.setdefault(id(n), st)
        names = query_names(ctx, inst, nodes)
        enc = None
    qs = [(n, read(inst, n)) for n in names]
    if enc is None:
        enc = enc_inst(ctx, inst)       # after the reads: the dictionary of spec attributes is not touched by them
    cn = sorted({type(n).__name__ for _, n in nodes} | {"CURRENCY", "ORIGCURRENCY"})
    nm = "[%s]" % ";".join("(%s,%d)" % (H.cs(c), ctx.handle(c)) for c in cn)
    head = "LCase %s %s %s" % (C.cbool(not blank), enc, nm)
    qstr = ["(%s,%s)" % (H.cs(n), enc_outcome(ctx, o, paths)) for n, o in qs]
    SPLIT["last"] = (head, qstr)
    return "%s [%s]" % (head, ";".join(qstr)), qs


# ------------------------------------------------------------------ instance <-> JSON (corpus / replay files)
def to_json(ctx, obj):
    T = ctx.Types
    kw, args = {}, []
    for k, t in type(obj).spec.items():
        if isinstance(t, T.Unsupported) or is_list_type(ctx, t):
            continue
        v = obj.__dict__.get(k)
        if v is None:
            continue
        kw[k] = to_json(ctx, v) if isinstance(v, ctx.Aggregate) else t.unconvert(v)
    le = [t for t in type(obj).spec.values() if isinstance(t, T.ListElement)]
    for m in obj:
        args.append(to_json(ctx, m) if isinstance(m, ctx.Aggregate) else (le[0].unconvert(m) if le else m))
    return {"c": type(obj).__name__, "kw": kw, "args": args}


def from_json(ctx, j):
    cls = ctx.byname[j["c"]]
    if j.get("blank"):
        return cls.__new__(cls)
    kw = {k: (from_json(ctx, v) if isinstance(v, dict) else v) for k, v in j.get("kw", {}).items()}
    args = [from_json(ctx, a) if isinstance(a, dict) else a for a in j.get("args", [])]
    with warnings.catch_warnings():
        warnings.simplefilter("ignore")
        return cls(*args, **kw)


# ------------------------------------------------------------------ the property, evaluated on the implementation
# shortcut -> explicit path, written from the property text (independent of the translator's table)
ALIASES = {
    ("STMTRS", "account"): "bankacctfrom", ("STMTRS", "transactions"): "banktranlist", ("STMTRS", "balance"): "ledgerbal",
    ("CCSTMTRS", "account"): "ccacctfrom", ("CCSTMTRS", "transactions"): "banktranlist", ("CCSTMTRS", "balance"): "ledgerbal",
    ("INVSTMTRS", "account"): "invacctfrom", ("INVSTMTRS", "transactions"): "invtranlist", ("INVSTMTRS", "positions"): "invposlist",
    ("INVSTMTRS", "balances"): "invbal",
    ("STMTTRNRS", "statement"): "stmtrs", ("CCSTMTTRNRS", "statement"): "ccstmtrs", ("CCSTMTENDTRNRS", "statement"): "ccstmtendrs",
    ("INVSTMTTRNRS", "statement"): "invstmtrs", ("PROFTRNRS", "profile"): "profrs",
}
# wrapper class -> attribute holding its statement (or closing statement)
WRAPPED = {
    "STMTTRNRQ": "stmtrq", "STMTENDTRNRQ": "stmtendrq", "CCSTMTTRNRQ": "ccstmtrq", "CCSTMTENDTRNRQ": "ccstmtendrq", "INVSTMTTRNRQ": "invstmtrq",
    "STMTTRNRS": "stmtrs", "STMTENDTRNRS": "stmtendrs", "CCSTMTTRNRS": "ccstmtrs", "CCSTMTENDTRNRS": "ccstmtendrs", "INVSTMTTRNRS": "invstmtrs",
}
STMT_MSGSETS = ["bankmsgsrqv1", "creditcardmsgsrqv1", "invstmtmsgsrqv1", "bankmsgsrsv1", "creditcardmsgsrsv1", "invstmtmsgsrsv1"]
STMT_MSGSET_CLASSES = [m.upper() for m in STMT_MSGSETS]


def walk_msgset(ctx, msgs):
    out = []
    for w in msgs:
        a = WRAPPED.get(type(w).__name__)
        if a is not None and w.__dict__.get(a) is not None:
            out.append(w.__dict__[a])
    return out


def walk_ofx_statements(ctx, ofx):
    out = []
    for m in STMT_MSGSETS:
        msgs = ofx.__dict__.get(m)
        if msgs is not None:
            out.extend(walk_msgset(ctx, msgs))
    return out


def walk_securities(ctx, msgs):
    out = []
    for child in msgs:
        if type(child).__name__ == "SECLIST":
            out.extend(list(child))
    return out


def same_objects(a, b):
    return type(a) is list and len(a) == len(b) and all(x is y for x, y in zip(a, b))


def expected_shortcuts(ctx, obj):
    """[(name, kind, expected)] for the shortcuts of type(obj) the property text determines on this instance; kind 'is' or 'list' or 'eq'"""
    cn = type(obj).__name__
    d = obj.__dict__
    out = []
    for (c, n), a in ALIASES.items():
        if c == cn:
            out.append((n, "is", d.get(a)))
    if cn == "SONRS" and d.get("fi") is not None:
        out.append(("org", "is", d["fi"].__dict__.get("org")))
        out.append(("fid", "is", d["fi"].__dict__.get("fid")))
    if has_origcurrency_mixin(type(obj)):
        cur = d.get("currency") if d.get("currency") is not None else d.get("origcurrency")
        out.append(("curtype", "eq", None if cur is None else type(cur).__name__))
        out.append(("cursym", "is", None if cur is None else cur.__dict__.get("cursym")))
        out.append(("currate", "is", None if cur is None else cur.__dict__.get("currate")))
    if cn in STMT_MSGSET_CLASSES:
        out.append(("statements", "list", walk_msgset(ctx, obj)))
    if cn == "SECLISTMSGSRSV1":
        out.append(("securities", "list", walk_securities(ctx, obj)))
    if cn == "OFX":
        out.append(("statements", "list", walk_ofx_statements(ctx, obj)))
        sl = d.get("seclistmsgsrsv1")
        out.append(("securities", "list", walk_securities(ctx, sl) if sl is not None else []))
        so = d.get("signonmsgsrqv1")
        if so is not None:
            out.append(("signon", "is", so.__dict__.get("sonrq")))
        elif d.get("signonmsgsrsv1") is not None:
            out.append(("signon", "is", d["signonmsgsrsv1"].__dict__.get("sonrs")))
    return out


def short(v):
    try:
        s = repr(v)
    except Exception as e:      # repr of (a bound method of) a blank instance reads unset attributes
        s = "<%s object; repr raises %s>" % (type(v).__name__, type(e).__name__)
    return s if len(s) < 160 else s[:157] + "..."


def owner_of(cls, name):
    """the class of the MRO whose body defines the name (the call site a failure key names): Origcurrency for curtype on INVBUY"""
    for b in cls.__mro__:
        if name in b.__dict__:
            return b.__name__
    return cls.__name__


def has_origcurrency_mixin(cls):
    return any(b.__name__ == "Origcurrency" for b in cls.__mro__)


class Oracle:
    """what the property text demands of one instance; failures carry a replay that rebuilds the instance"""
    def __init__(self, ctx, rep):
        self.ctx, self.rep = ctx, rep

    def fail(self, key, what, obj, blank=False, **more):
        ctx = self.ctx
        try:
            j = {"c": obj.__name__, "blank": True} if blank else to_json(ctx, obj)
        except Exception as e:
            j = {"unserialisable": repr(e)}
        self.rep.failures.append(C.Failure(key, what, dict(more, inst=j)))

    # ---- misses: a name nothing defines raises AttributeError, so hasattr / getattr-with-default work
    def misses(self, obj, blank=False):
        ctx = self.ctx
        if blank:
            cls = obj
            inst = cls.__new__(cls)
            defined = set(class_level(ctx, cls))
            label = "a blank %s (cls.__new__(cls): what copy / pickle build before restoring the state)" % cls.__name__
        else:
            inst = obj
            defined = set()
            for _, n in descendants(ctx, inst):
                defined |= class_level(ctx, type(n))
            label = "a %s" % type(inst).__name__
        for name in UNDEFINED:
            if name in defined:
                continue
            out = read(inst, name)
            if out[0] != "attr":
                got = "returns %s" % short(out[1]) if out[0] == "ok" else "raises %s" % out[1]
                self.fail("miss:%s%s" % ("returns-a-value" if out[0] == "ok" else "raises-" + out[1], ":blank-instance" if blank else ""),
                          "getattr(%s, %r) %s; nothing defines that name, AttributeError expected" % (label, name, got), obj, blank, check="miss", name=name)
            try:
                h = hasattr(inst, name)
                if h:
                    self.fail("hasattr:true-for-undefined-name" + (":blank-instance" if blank else ""), "hasattr(%s, %r) is True" % (label, name), obj, blank, check="hasattr", name=name)
            except Exception as e:
                self.fail("hasattr:raises-%s%s" % (type(e).__name__, ":blank-instance" if blank else ""),
                          "hasattr(%s, %r) raises %s" % (label, name, type(e).__name__), obj, blank, check="hasattr", name=name)
            try:
                g = getattr(inst, name, SENTINEL)
                if g is not SENTINEL:
                    self.fail("getattr-default:default-not-returned" + (":blank-instance" if blank else ""), "getattr(%s, %r, default) returns %s" % (label, name, short(g)), obj, blank, check="default", name=name)
            except Exception as e:
                self.fail("getattr-default:raises-%s%s" % (type(e).__name__, ":blank-instance" if blank else ""),
                          "getattr(%s, %r, default) raises %s" % (label, name, type(e).__name__), obj, blank, check="default", name=name)

    # ---- flat access: exactly one non-repeated descendant defines the name -> the very value stored there
    def flat(self, obj):
        ctx = self.ctx
        desc = descendants(ctx, obj)
        own = class_level(ctx, type(obj))
        cand = {}
        for path, n in desc[1:]:
            for k in class_level(ctx, type(n)) - class_level(ctx, ctx.Aggregate):
                cand.setdefault(k, []).append((path, n))
        n_checked = 0
        for name, definers in sorted(cand.items()):
            if name in own or len(definers) != 1:
                continue
            path, d = definers[0]
            t = type(d).spec.get(name)
            if t is None:
                # a shortcut of the only descendant defining the name (BUYSTOCK(...).curtype -> INVBUY.curtype): the explicit path from that descendant
                for n2, kind, want in expected_shortcuts(ctx, d):
                    if n2 != name or kind == "list":
                        continue
                    out = read(obj, name)
                    n_checked += 1
                    if not (out[0] == "ok" and ((kind == "is" and out[1] is want) or (kind == "eq" and out[1] == want))):
                        got = "raises %s" % out[1] if out[0] != "ok" else "returns %s" % short(out[1])
                        self.fail("flat-shortcut:%s.%s:%s" % (owner_of(type(d), name), name, "raises-" + out[1] if out[0] != "ok" else "differs-from-path"),
                                  "%s.%s %s; the only descendant defining it (%s at .%s) gives %s by the explicit path"
                                  % (type(obj).__name__, name, got, type(d).__name__, ".".join(path), short(want)), obj, check="flat", name=name, path=list(path))
                continue
            if is_list_type(ctx, t):
                continue        # a repeated child of the descendant: no "value stored there"
            stored = None if isinstance(t, ctx.Types.Unsupported) else d.__dict__.get(name)
            out = read(obj, name)
            n_checked += 1
            if out[0] != "ok":
                self.fail("flat:raises-%s" % out[1], "%s.%s raises %s; exactly one descendant (%s, at .%s) defines it and holds %s"
                          % (type(obj).__name__, name, out[1], type(d).__name__, ".".join(path), short(stored)), obj, check="flat", name=name, path=list(path))
            elif out[1] is not stored:
                self.fail("flat:wrong-object", "%s.%s returns %s, not the value %s stored in the only descendant defining it (%s at .%s)"
                          % (type(obj).__name__, name, short(out[1]), short(stored), type(d).__name__, ".".join(path)), obj, check="flat", name=name, path=list(path))
        return n_checked

    # ---- shortcuts equal the explicit path walk
    def shortcuts(self, obj):
        cn = type(obj).__name__
        n_checked = 0
        for name, kind, want in expected_shortcuts(self.ctx, obj):
            out = read(obj, name)
            n_checked += 1
            ok = out[0] == "ok" and ((kind == "is" and out[1] is want) or (kind == "eq" and out[1] == want) or (kind == "list" and same_objects(out[1], want)))
            if ok:
                continue
            if out[0] != "ok":
                what, detail = "raises-" + out[1], "raises %s" % out[1]
            elif kind == "list" and type(out[1]) is list:
                miss = [w for w in want if not any(w is g for g in out[1])]
                extra = [g for g in out[1] if not any(w is g for w in want)]
                if miss and not extra:
                    what = "drops-" + ("-".join(sorted({type(w).__name__ for w in miss})) if name == "statements" else "members")
                elif extra and not miss:
                    what = "adds-objects"
                elif not miss and not extra and len(out[1]) != len(want):
                    what = "repeats-objects"
                elif not miss and not extra:
                    what = "wrong-order"
                else:
                    what = "differs-from-path-walk"
                detail = "returns %d object(s) %s, the path walk finds %d: %s" % (len(out[1]), short([type(g).__name__ for g in out[1]]), len(want), short([type(w).__name__ for w in want]))
            else:
                what, detail = "differs-from-path", "returns %s, the path gives %s" % (short(out[1]), short(want))
            self.fail("shortcut:%s.%s:%s" % (owner_of(type(obj), name), name, what), "%s.%s %s" % (cn, name, detail), obj, check="shortcut", name=name)
        return n_checked

    # ---- copy, deepcopy, pickle reproduce an equal model
    def copies(self, obj):
        ctx = self.ctx
        for label, f in (("copy.copy", copy.copy), ("copy.deepcopy", copy.deepcopy), ("pickle", lambda o: pickle.loads(pickle.dumps(o)))):
            try:
                with warnings.catch_warnings():
                    warnings.simplefilter("ignore")
                    c = f(obj)
            except Exception as e:
                self.fail("%s:raises-%s" % (label, type(e).__name__), "%s of a %s raises %s: %s" % (label, type(obj).__name__, type(e).__name__, str(e)[:80]), obj, check=label)
                continue
            if not H.inst_equal(ctx, obj, c):
                self.fail("%s:not-equal" % label, "%s of a %s is not an equal model" % (label, type(obj).__name__), obj, check=label)
            elif label != "copy.copy" and c is obj:
                self.fail("%s:same-object" % label, "%s of a %s returned the object itself" % (label, type(obj).__name__), obj, check=label)


# ------------------------------------------------------------------ generators
def optional_subs(ctx, cls, kw):
    T = ctx.Types
    return [k for k in kw if isinstance(cls.spec.get(k), T.SubAggregate) and not is_list_type(ctx, cls.spec[k]) and not cls.spec[k].required]


def build(cls, args, kw):
    try:
        with warnings.catch_warnings():
            warnings.simplefilter("ignore")
            return cls(*args, **kw)
    except Exception:
        return None


def presence_variants(ctx, cls, rng, budget):
    """instances of cls under every combination (up to `budget`) of present / absent optional sub-aggregates, with and without list members"""
    out = []
    for _ in range(4):
        args, kw = H.gen_args(ctx, cls, rng, 2, full=1.0)
        if build(cls, args, kw) is not None:
            break
    else:
        o = H.gen_instance(ctx, cls, rng, depth=2, full=0.7)
        return [o] if o is not None else []
    opt = optional_subs(ctx, cls, kw)
    if 2 ** len(opt) <= budget:
        drops = [set(c) for r in range(len(opt) + 1) for c in itertools.combinations(opt, r)]
    else:
        drops = [set(), set(opt)] + [{k} for k in opt[:max(0, budget // 2 - 2)]]
        while len(drops) < budget:
            drops.append({k for k in opt if rng.random() < 0.5})
    seen = set()
    for dr in drops:
        key = frozenset(dr)
        if key in seen:
            continue
        seen.add(key)
        o = build(cls, args, {k: v for k, v in kw.items() if k not in dr})
        if o is not None:
            out.append(o)
    if args:
        o = build(cls, [], kw)
        if o is not None:
            out.append(o)
    return out


def currency_variants(ctx, rng):
    """every class carrying the Origcurrency mixin with ORIGCURRENCY, with CURRENCY and with neither; and every class holding such a class as a
    non-repeated sub-aggregate (BUYSTOCK -> INVBUY ...), wrapped around each of the three"""
    T = ctx.Types
    mix = [c for c in ctx.concrete if has_origcurrency_mixin(c)]
    out = []

    def three(cls):
        res = []
        for which in ("origcurrency", "currency", None):
            for _ in range(4):
                if which is None:
                    args, kw = H.gen_args(ctx, cls, rng, 1, full=0.4)
                    kw.pop("currency", None); kw.pop("origcurrency", None)
                    o = build(cls, args, kw)
                else:
                    o = H.gen_instance(ctx, cls, rng, depth=1, full=0.4, force=which)
                    if o is not None and (o.__dict__.get(which) is None or o.__dict__.get("currency" if which == "origcurrency" else "origcurrency") is not None):
                        o = None
                if o is not None:
                    res.append((which, o)); break
        return res
    for cls in mix:
        out.extend(o for _, o in three(cls))
    for w in ctx.concrete:
        for k, t in w.spec.items():
            if isinstance(t, T.SubAggregate) and not is_list_type(ctx, t) and t.__type__ in mix:
                for which, inner in three(t.__type__):
                    for _ in range(4):
                        args, kw = H.gen_args(ctx, w, rng, 1, full=0.3, force=k)
                        kw[k] = inner
                        o = build(w, args, kw)
                        if o is not None:
                            out.append(o); break
    return out


def gen_msgset(ctx, cls, rng, n):
    T = ctx.Types
    la = [t.__type__ for t in cls.spec.values() if isinstance(t, T.ListAggregate)]
    stmt = [c for c in la if c.__name__ in WRAPPED or c.__name__ == "SECLIST"]
    members = []
    for _ in range(n):
        mc = rng.choice(stmt) if (stmt and rng.random() < 0.75) else rng.choice(la)
        m = H.gen_instance(ctx, mc, rng, depth=rng.choice([1, 2]), full=rng.choice([0.0, 0.5, 1.0]))
        if m is not None:
            members.append(m)
    return build(cls, members, {})


def gen_ofx(ctx, rng, side):
    M = ctx.M
    kw = {}
    so = H.gen_instance(ctx, getattr(M, "SIGNONMSGS%sV1" % side), rng, depth=2, full=rng.choice([0.3, 1.0]))
    if so is None:
        return None
    kw["signonmsgs%sv1" % side.lower()] = so
    for base in ("BANKMSGS", "CREDITCARDMSGS", "INVSTMTMSGS", "SECLISTMSGS", "PROFMSGS"):
        if rng.random() < 0.75:
            ms = gen_msgset(ctx, getattr(M, "%s%sV1" % (base, side)), rng, rng.choice([0, 1, 2, 3, 4]))
            if ms is not None:
                kw["%s%sv1" % (base.lower(), side.lower())] = ms
    return build(M.OFX, [], kw)


# ------------------------------------------------------------------ deterministic interleaving stream (no random generator involved)
class Fixed:
    """hand-written minimal members with fixed values; every call builds FRESH objects (identity is what the oracle compares)"""
    def __init__(self, ctx):
        self.M = ctx.M
        self.n = 0

    def uid(self):
        self.n += 1
        return "T%04d" % self.n

    def status(self, code="0"):
        return self.M.STATUS(code=code, severity="INFO" if code == "0" else "ERROR")

    def bank(self):
        return self.M.BANKACCTFROM(bankid="111000614", acctid="A%d" % self.n, accttype="CHECKING")

    def cc(self):
        return self.M.CCACCTFROM(acctid="C%d" % self.n)

    def inv(self):
        return self.M.INVACCTFROM(brokerid="broker.example", acctid="I%d" % self.n)

    def bal(self):
        return self.M.LEDGERBAL(balamt="12.34", dtasof="20200102")

    def stmt(self, cn):
        M = self.M
        if cn == "STMTRS": return M.STMTRS(curdef="USD", bankacctfrom=self.bank(), ledgerbal=self.bal())
        if cn == "STMTENDRS": return M.STMTENDRS(curdef="USD", bankacctfrom=self.bank())
        if cn == "CCSTMTRS": return M.CCSTMTRS(curdef="USD", ccacctfrom=self.cc(), ledgerbal=self.bal())
        if cn == "CCSTMTENDRS": return M.CCSTMTENDRS(curdef="USD", ccacctfrom=self.cc())
        if cn == "INVSTMTRS": return M.INVSTMTRS(dtasof="20200102", curdef="USD", invacctfrom=self.inv())
        if cn == "STMTRQ": return M.STMTRQ(bankacctfrom=self.bank())
        if cn == "STMTENDRQ": return M.STMTENDRQ(bankacctfrom=self.bank())
        if cn == "CCSTMTRQ": return M.CCSTMTRQ(ccacctfrom=self.cc())
        if cn == "CCSTMTENDRQ": return M.CCSTMTENDRQ(ccacctfrom=self.cc())
        if cn == "INVSTMTRQ": return M.INVSTMTRQ(invacctfrom=self.inv(), incoo="N", incpos=M.INCPOS(include="N"), incbal="N")
        raise KeyError(cn)

    def wrapper(self, wcls, with_statement=True):
        """a *TRNRQ / *TRNRS of class wcls; response wrappers may come without statement (error-only)"""
        cls = getattr(self.M, wcls)
        attr = WRAPPED[wcls]
        kw = {"trnuid": self.uid()}
        if wcls.endswith("RS"):
            kw["status"] = self.status("0" if with_statement else "2000")
            kw["cltcookie"] = "ck%d" % self.n
        if with_statement:
            kw[attr] = self.stmt(attr.upper())
        return cls(**kw)

    def secinfo(self):
        self.n += 1
        return self.M.SECINFO(secid=self.M.SECID(uniqueid="%09d" % self.n, uniqueidtype="CUSIP"), secname="sec %d" % self.n)

    def security(self, k):
        M = self.M
        return [lambda: M.STOCKINFO(secinfo=self.secinfo()), lambda: M.OTHERINFO(secinfo=self.secinfo()),
                lambda: M.DEBTINFO(secinfo=self.secinfo(), parvalue="100", debttype="COUPON")][k % 3]()

    def signon(self, side):
        M = self.M
        if side == "RS":
            return M.SIGNONMSGSRSV1(sonrs=M.SONRS(status=self.status(), dtserver="20200102", language="ENG"))
        return M.SIGNONMSGSRQV1(sonrq=M.SONRQ(dtclient="20200102", userid="u", userpass="p", language="ENG", appid="QWIN", appver="2700"))


# s = statement wrapper, e = closing-statement wrapper, x / y = the same wrappers WITHOUT statement (error-only; response side)
PATTERNS_2 = ["", "s", "e", "se", "es", "esesse", "sse", "ees", "sss", "eee", "sesese"]
PATTERNS_2_ERR = ["x", "y", "xs", "sx", "ye", "exs", "esxye", "xyse", "eyxs", "xsyexs"]
PATTERNS_1 = ["", "s", "ss", "sss"]
PATTERNS_1_ERR = ["x", "xs", "sx", "sxs", "xxs", "sxsxs"]
MSGSET_KINDS = {   # message set -> (statement wrapper, closing-statement wrapper or None)
    "BANKMSGSRQV1": ("STMTTRNRQ", "STMTENDTRNRQ"), "CREDITCARDMSGSRQV1": ("CCSTMTTRNRQ", "CCSTMTENDTRNRQ"), "INVSTMTMSGSRQV1": ("INVSTMTTRNRQ", None),
    "BANKMSGSRSV1": ("STMTTRNRS", "STMTENDTRNRS"), "CREDITCARDMSGSRSV1": ("CCSTMTTRNRS", "CCSTMTENDTRNRS"), "INVSTMTMSGSRSV1": ("INVSTMTTRNRS", None),
}


def build_msgset(ctx, fx, cn, pattern):
    sw, ew = MSGSET_KINDS[cn]
    members = []
    for ch in pattern:
        members.append(fx.wrapper(sw if ch in "sx" else ew, with_statement=ch in "se"))
    return ctx.byname[cn](*members)


def msgset_patterns(cn):
    sw, ew = MSGSET_KINDS[cn]
    rs = cn.endswith("RSV1")
    if ew is None:
        return PATTERNS_1 + (PATTERNS_1_ERR if rs else [])
    return PATTERNS_2 + (PATTERNS_2_ERR if rs else [])


def reparse(ctx, obj):
    """the same model through a written and parsed document (whole OFX: header + body through OFXTree; a message set: its element tree)"""
    import io
    import xml.etree.ElementTree as ET
    with warnings.catch_warnings():
        warnings.simplefilter("ignore")
        tree = obj.to_etree()
        if type(obj).__name__ == "OFX":
            from ofxtools.Parser import OFXTree
            from ofxtools.header import make_header
            data = str(make_header(version=220)).encode("ascii") + ET.tostring(tree, short_empty_elements=False)
            p = OFXTree()
            p.parse(io.BytesIO(data))
            return p.convert()
        return ctx.Aggregate.from_etree(tree)


def interleaved_stream(ctx):
    """[(label, instance)] - systematic, independent of the random generators: every statements / securities shortcut over members that
    interleave the admissible kinds in several orders, each kind 0..3 times, with and without error-only wrappers; keyword route and parsed route"""
    fx = Fixed(ctx)
    out = []

    def both(label, make):
        o = make()
        out.append((label, o))
        try:
            out.append((label + " (parsed)", reparse(ctx, o)))
        except Exception:
            pass        # the library does not read back what it wrote for this shape: C01 / C13's subject, not C16's
    for cn in MSGSET_KINDS:
        for pat in msgset_patterns(cn):
            both("%s[%s]" % (cn, pat), lambda cn=cn, pat=pat: build_msgset(ctx, fx, cn, pat))
    M = ctx.M
    combos = [("RS", {"BANKMSGSRSV1": "es", "CREDITCARDMSGSRSV1": "se", "INVSTMTMSGSRSV1": "s"}),
              ("RS", {"BANKMSGSRSV1": "esxye", "INVSTMTMSGSRSV1": "xsxs"}),
              ("RS", {"CREDITCARDMSGSRSV1": "eyxs", "BANKMSGSRSV1": ""}),
              ("RS", {"INVSTMTMSGSRSV1": "ss", "CREDITCARDMSGSRSV1": "ees", "BANKMSGSRSV1": "sse"}),
              ("RS", {}),
              ("RQ", {"BANKMSGSRQV1": "es", "CREDITCARDMSGSRQV1": "se", "INVSTMTMSGSRQV1": "s"}),
              ("RQ", {"BANKMSGSRQV1": "esesse", "INVSTMTMSGSRQV1": "sss"}),
              ("RQ", {"CREDITCARDMSGSRQV1": "ees", "BANKMSGSRQV1": "sse"}),
              ("RQ", {})]
    for side, sets in combos:
        def mk(side=side, sets=sets):
            kw = {"signonmsgs%sv1" % side.lower(): fx.signon(side)}
            for cn, pat in sets.items():
                kw[cn.lower()] = build_msgset(ctx, fx, cn, pat)
            return M.OFX(**kw)
        both("OFX %s %s" % (side, sorted(sets.items())), mk)
    # securities: SECLISTs of 0..3 members interleaved with SECLISTTRNRS wrappers, alone and under OFX
    sec_patterns = [[], [2], [0], [1, 2], [2, None, 1], [None, 3, 0, 1], [0, 0], [3, None, None, 2, 1]]
    for pat in sec_patterns:
        def mksec(pat=pat):
            members, k = [], 0
            for n in pat:
                if n is None:
                    members.append(M.SECLISTTRNRS(trnuid=fx.uid(), status=fx.status()))
                else:
                    members.append(M.SECLIST(*[fx.security(k + i) for i in range(n)])); k += n
            return M.SECLISTMSGSRSV1(*members)
        both("SECLISTMSGSRSV1%s" % pat, mksec)
        both("OFX securities %s" % pat, lambda pat=pat, mksec=mksec: M.OFX(signonmsgsrsv1=fx.signon("RS"), seclistmsgsrsv1=mksec()))
    return out


def corpus_instances(ctx):
    out = []
    for p in sorted(glob.glob(os.path.join(C.VERIF, "corpus", PROP, "*.json"))):
        j = json.load(open(p))
        for ent in j.get("instances", []):
            try:
                out.append((os.path.basename(p), ent, from_json(ctx, ent) if not ent.get("blank") else ctx.byname[ent["c"]]))
            except Exception as e:
                raise RuntimeError("corpus file %s: cannot rebuild %r (%r)" % (p, ent.get("c"), e))
    return out


# ------------------------------------------------------------------ run
def run(rep, tier, rng):
    ctx = H.Ctx()
    SPLIT.clear()
    thorough = tier == "thorough"
    if ctx.d["problems"]:
        rep.broken.append("schema translator not complete: %s" % ctx.d["problems"][:3])
    tl = TL.extract()
    if tl["problems"]:
        rep.broken.append("lookup translator not complete (a shortcut body or the attribute protocol is not the modelled one): %s" % tl["problems"][:4])
    rep.extra["watched"] = {"Aggregate.__getattr__": tl["getattr_hash"], "known_form": tl["getattr_known"], "first_fetch_in_try": tl["fixed"]}
    orc = Oracle(ctx, rep)
    items, meta = [], []

    def take(obj, kind, blank=False):
        try:
            take1(obj, kind, blank)
        except Exception as e:
            msg = "harness error on a %s%s instance: %r" % ("blank " if blank else "", obj.__name__ if blank else type(obj).__name__, e)
            if len([b for b in rep.broken if b.startswith("harness error on")]) < 5:
                rep.broken.append(msg)

    def take1(obj, kind, blank=False):
        """one instance: property predicate on the implementation + one correspondence case"""
        if blank:
            orc.misses(obj, blank=True)
            term, qs = make_case(ctx, obj, blank=True)
            items.append(term); SPLIT[len(items) - 1] = SPLIT["last"]; meta.append({"class": obj.__name__, "blank": True, "queries": [(n, o[0] if o[0] != "ok" else short(o[1])) for n, o in qs][:12]})
            rep.count(("blank", obj.__name__), nontrivial=True, kind=kind)
            return
        orc.misses(obj)
        nf = orc.flat(obj)
        orc.copies(obj)
        term, qs = make_case(ctx, obj)            # plain names first, shortcuts last
        ns = orc.shortcuts(obj)
        items.append(term); SPLIT[len(items) - 1] = SPLIT["last"]
        meta.append({"class": type(obj).__name__, "instance": to_json_safe(ctx, obj), "queries": [(n, o[0] if o[0] != "ok" else short(o[1])) for n, o in qs if o[0] != "attr"][:40]})
        rep.count((type(obj).__name__, term), nontrivial=(nf + ns > 0 or len(descendants(ctx, obj)) > 1), kind=kind)

    # corpus first
    for fname, ent, obj in corpus_instances(ctx):
        take(obj, "corpus", blank=bool(ent.get("blank")))
    # systematic interleavings of the members every statements / securities shortcut walks (no random generator involved)
    try:
        stream = interleaved_stream(ctx)
    except Exception as e:
        stream = []
        rep.broken.append("the systematic interleaving stream could not be built: %r" % (e,))
    for label, obj in stream:
        take(obj, "interleaved")
    rep.extra["interleaved_instances"] = len(stream)
    # every concrete class: blank instance, presence variants
    budget = 32 if thorough else 8
    rounds = 5 if thorough else 1
    for cls in ctx.concrete:
        take(cls, "blank", blank=True)
        for _ in range(rounds):
            for obj in presence_variants(ctx, cls, rng, budget):
                take(obj, "presence-variant")
    # the currency shortcuts: every mixin class (and every class wrapping one) with ORIGCURRENCY, with CURRENCY, with neither
    for _ in range(3 if thorough else 1):
        for obj in currency_variants(ctx, rng):
            take(obj, "currency-variant")
    # message sets and whole OFX trees: wrappers of every kind, with and without (closing) statements, in random order
    n_ms = 80 if thorough else 8
    for cn in STMT_MSGSET_CLASSES + ["SECLISTMSGSRSV1"]:
        for k in range(n_ms):
            obj = gen_msgset(ctx, ctx.byname[cn], rng, k % 6)
            if obj is not None:
                take(obj, "message-set")
    for k in range(300 if thorough else 24):
        obj = gen_ofx(ctx, rng, "RQ" if k % 2 else "RS")
        if obj is not None:
            take(obj, "ofx-tree")
    for m in meta[:2] + meta[-2:]:
        rep.sample({k: v for k, v in m.items() if k != "instance"})
    rep.rule = ("corpus; every concrete class: the blank instance and instances under every combination (budget %d) of present/absent optional sub-aggregates, with and "
                "without list members; message sets with 0-5 wrappers of every kind in random order; whole OFX trees (request and response side). Per instance: getattr "
                "for every name defined anywhere below + %d undefined names + %d class-level names vs Model.Lookup.getattr_m (errors compared strictly); independently: "
                "misses / hasattr / getattr-default, flat access (identity), shortcuts vs explicit path walk (identity, order, multiplicity), copy / deepcopy / pickle "
                "round trips. non-trivial = has descendants or a checked flat/shortcut name; distinct by encoded instance" % (budget, len(UNDEFINED), len(MODEL_ONLY)))
    bad = eval_cases(items)
    if bad:
        pin_items, pin_meta = [], []
        for i in bad[:6]:
            head, qs = SPLIT[i]
            for q in qs:
                pin_items.append("%s [%s]" % (head, q)); pin_meta.append((i, q))
        try:
            pbad = C.coq_bad_indices(PROP, "pin", IMPORTS, OKFUN, "lcase", pin_items, shard=max(1, -(-len(pin_items) // C.NCPU)), prelude=PRELUDE)
        except Exception:
            pbad = []
        where = {}
        for k in pbad:
            i, q = pin_meta[k]
            where.setdefault(i, []).append(q[:200])
        for i in bad[:30]:
            rep.disagreements.append(dict(meta[i], differing_queries=where.get(i, ["(instance outside lk_wf, or not pinpointed)"])[:8]))


def eval_cases(items):
    """model vs implementation inside coqc; cases dealt to the shards largest first so that the shards weigh the same"""
    n = len(items)
    if not n:
        return []
    nsh = min(C.NCPU, n)
    size = -(-n // nsh)
    order = sorted(range(n), key=lambda i: -len(items[i]))
    pos = {}
    for rank, i in enumerate(order):
        pos[(rank % nsh) * size + rank // nsh] = i
    filler = 'LCase false (hI "STATUS" [] []) [] []'
    laid = [items[pos[p]] if p in pos else filler for p in range(nsh * size)]
    bad = C.coq_bad_indices(PROP, "lookup", IMPORTS, OKFUN, "lcase", laid, shard=size, prelude=PRELUDE)
    return sorted(pos[p] for p in bad if p in pos)


def to_json_safe(ctx, obj):
    try:
        return to_json(ctx, obj)
    except Exception as e:
        return {"unserialisable": repr(e)}


def replay(obj):
    C.use_repo()
    ctx = H.Ctx()
    r = obj["replay"]
    j = r["inst"]
    rep = C.Report(PROP, "replay", 0)
    orc = Oracle(ctx, rep)
    if j.get("blank"):
        orc.misses(ctx.byname[j["c"]], blank=True)
    else:
        inst = from_json(ctx, j)
        orc.misses(inst); orc.flat(inst); orc.copies(inst); orc.shortcuts(inst)
    keys = sorted({f.key for f in rep.failures})
    hit = obj.get("key") in keys if obj.get("key") else bool(keys)
    print("replay: %s %s -> failures %s" % (j.get("c"), "(blank)" if j.get("blank") else "", keys))
    if hit:
        for f in rep.failures:
            if f.key == obj.get("key") or not obj.get("key"):
                print("  " + f.what); break
        print("VIOLATION property=C16 replay=(this file)")
    return 1 if hit else 0
