"""C05 - the header parser hands over exactly the body, decoded as the header declares
(ofxtools/header.py:251-321 parse_header, the three regexes, OFXHeaderV1.codecs / codec; observed also through
Parser.OFXTree.parse).  Engine `Header`; harness pieces shared with C12."""
import io, itertools
from .. import common as C
from . import c12 as K

PROP = "C05"
COQ_EXTRA = K.COQ_EXTRA
PARTIAL = [
    "codecs are Python runtime: the model's executable latin_1 / cp1252 (generated table) / strict UTF-8 decoders are proved to satisfy the hypotheses the "
    "theorems need (Props/C05/codecs_satisfy_hypotheses.v); that they ARE Python's codecs is checked by the correspondence run (CDecode cases), not proved",
    "parse_header_exact_v2 returns body ++ trailing whitespace and proves strip(...) = body (the v2 branch does not strip; DESIGN.md section 9)",
    "BytesIO semantics (readline / tell / seek / read) are transcribed, not proved about CPython",
    "layouts: whitespace = space, tab, CR, LF; leading blank lines <= 7 and header within nine physical lines (the scanner's documented limits)",
]
MANIFEST = {
    "engine": "Header",
    "text": "Theorems about a byte-level Gallina transcription of parse_header (readline, tell/seek, the eight-line blank skip, decoding of the scanned lines, "
            "header reconstruction, body slice + decode + strip) composed with the recognisers and constructors of C12: for every valid v1 header, every layout "
            "(at most 7 leading blank lines; CRLF / LF / CR / blanks / nothing between fields with the header within nine physical lines; blanks after colons; "
            "COMPRESSION present or not; any whitespace gap incl. none before the body) and every body from '<' to '>' encodable in the declared charset, "
            "parse_header returns the header's fields and exactly the body; likewise for v2 with either quote style of the XML declaration and optional line breaks; "
            "the codec used is the one the header declares. The model is the REPAIRED function (fixes/C05-1); the function as it was is kept and its two defects are "
            "pinned by vm_compute witnesses. Correspondence: the layout product x charsets x bodies with characters that differ between cp1252, latin-1 and UTF-8, "
            "compared by vm_compute inside coqc with the implementation; the property predicate is evaluated on the implementation, also through OFXTree.parse.",
    "note": "Trusted: Coq kernel + vm_compute; the hand transcription Model/Header.v incl. its executable codecs (validated by the correspondence run only); "
            "the translator. Print Assumptions: closed under the global context.",
}
CODECS = {"ISO-8859-1": "latin_1", "1252": "cp1252", "NONE": "utf_8"}       # the property's own table (OFX spec / Python codec names)

BODIES = [
    "<OFX></OFX>",
    "<OFX><A><B>café</B></A></OFX>",
    "<OFX>\n<A><B>€ 12,50 Ÿ</B></A>\n</OFX>",
    "<OFX><A><B> x </B></A>\r\n</OFX>",
    "<OFX><A>\r\n<B>\u0085\u0080\u009f</B>\r\n</A></OFX>",
    "<OFX><A><B>漢字 \U0001f4a9</B></A></OFX>",
    "<OFX><A><B>" + "".join(chr(c) for c in range(0xa1, 0xb0)) + "</B></A></OFX>",
    "<OFX>\n<A>\n<B>1\n<C>2\n</A>\n<D>ü\n</OFX>",
    "<>",
    # non-ASCII characters whose latin-1 / cp1252 bytes are also well-formed UTF-8 (C3 A9, C2 A3, C3 BC): the declared codec must still be used
    "<OFX><A><B>Ã© Â£ Ã¼</B></A></OFX>",
    "<OFX><A><B>Ã€Â¿</B></A></OFX>",
    # text that is not in Unicode normal form C (decomposed accents, compatibility singletons): the file's characters, not their composition
    "<OFX><A><B>Cafe\u0301 \u212b \u2126 e\u0301\u0323 \ufb01 \u1e9b\u0323</B></A></OFX>",
    "<OFX><A><B>\u0041\u030a\u1100\u1161\u11a8 \u03a9\u0301</B></A></OFX>",
]


def encodable(body, codec):
    try:
        return body.encode(codec)
    except UnicodeEncodeError:
        return None


def v1_file(fields, lead, sep, blank, gap, body_bytes, trail=b""):
    return K.render_v1(fields, sep=sep, blank=blank, tail=gap, lead=lead).encode("ascii") + body_bytes + trail


def xml_decl(qv, qe, qs):
    """XML declaration with each pseudo-attribute quoted independently (None = attribute absent)."""
    parts = [' %s=%s%s%s' % (n, q, v, q) for n, v, q in (("version", "1.0", qv), ("encoding", "UTF-8", qe), ("standalone", "no", qs)) if q]
    return "<?xml" + ("".join(parts) or " ") + "?>"


def v2_file(fields, quotes, lead, a, b, body_bytes, trail=b""):
    return (lead + K.render_v2(fields, xml=xml_decl(*quotes), a=a, b=b)).encode("ascii") + body_bytes + trail


DENSE = "é€\U0001d11eü漢"          # 2+3+4+2+3 = 14 bytes of UTF-8, no ASCII: any byte offset inside it is (mostly) mid-character


def build_large(prm):
    """a large version-1 / version-2 file from a small recipe (replay files stay small):
    prm = {kind, charset, blank_lines, eol, pad, size, old, new}; -> (bytes, expected fields, expected body)."""
    kind, charset = prm["kind"], prm["charset"]
    codec = "utf_8" if kind == "v2" else CODECS[charset]
    unit = DENSE if codec == "utf_8" else ("é£Ã©ÿ" if codec == "latin_1" else "é€Ã©Ÿ")
    gap = prm["eol"] * prm["blank_lines"]
    pad = prm["pad"]
    if prm.get("target"):
        # choose the ASCII pad so that byte offset `target`, counted from the end of the NEWFILEUID value (where the v1 branch seeks),
        # falls strictly inside a multi-byte character: block / buffer sizes are powers of two
        ub = unit.encode(codec)
        starts, o = set(), 0
        for ch in unit:
            starts.add(o); o += len(ch.encode(codec))
        pad = next((q for q in range(len(ub) + 1) if (prm["target"] - len(gap) - len("<OFX><A><B>") - q) % len(ub) not in starts), prm["pad"])
    inner = "x" * pad + unit * (prm["size"] // len(unit.encode(codec)) + 1)
    body = "<OFX><A><B>" + inner + "</B></A>" + prm["eol"] + "</OFX>"
    if kind == "v1":
        f = K.valid_v1_fields(102, "NONE", prm["old"], prm["new"], "USASCII", charset)
        data = K.render_v1(f, sep=prm["eol"] or "\r\n", tail=gap).encode("ascii") + body.encode(codec)
        want = ("v1", 100, "OFXSGML", 102, "NONE", "USASCII", charset, "NONE", prm["old"], prm["new"])
    else:
        data = K.render_v2(K.valid_v2_fields(203, "NONE", prm["old"], prm["new"]), a=prm["eol"], b=gap).encode("ascii") + body.encode(codec)
        want = ("v2", 200, 203, "NONE", prm["old"], prm["new"])
    return data, want, body


def large_predicate(H, prm, fails):
    data, want, body = build_large(prm)
    out = K.call(H, lambda b: H.parse_header(io.BytesIO(b)), data)
    kind = prm["kind"]
    what = None
    if out[0] != "ok":
        key, what = "parse_header:%s:large-body:%s" % (kind, out[1]), "raised %s" % out[1]
    elif K.fields_of(H, out[1][0]) != want:
        key, what = "parse_header:%s:large-body:fields-differ" % kind, "returned fields %r" % (K.fields_of(H, out[1][0]),)
    elif out[1][1].strip() != body:
        got = out[1][1].strip()
        k = next((i for i, (a, b) in enumerate(zip(got, body)) if a != b), min(len(got), len(body)))
        key, what = "parse_header:%s:large-body:body-differs" % kind, "returned a body of %d characters that differs from the %d expected at character %d" % (len(got), len(body), k)
    if what:
        fails.append(C.Failure(key, "parse_header on a %d-byte %s file (CHARSET %s, %d blank line(s) before the body, %d-byte ASCII pad) %s"
                               % (len(data), kind, prm["charset"], prm["blank_lines"], prm["pad"], what)
                               + ("" if not prm.get("target") else " [a character straddles byte offset %d from the end of the header]" % prm["target"]), {"large": prm}))
    return len(data), out[0]


def translate():
    return K.translate()


def run(rep, tier, rng):
    H = K.hmod()
    import ofxtools.Parser as P
    thorough = tier == "thorough"
    fails = rep.failures
    cases = []
    checked = set()

    def fail(key, what, data, want_fields, body):
        fails.append(C.Failure(key, what, {"case": K.jsonable(("ph", data)), "expect_fields": K.jsonable(want_fields), "expect_body": body}))

    def predicate(kind, data, want_fields, body, layout):
        """the property on the implementation: fields as in the file, body text exactly (compared after strip, section 9)."""
        if data in checked:
            return
        checked.add(data)
        out = K.call(H, lambda b: H.parse_header(io.BytesIO(b)), data)
        if out[0] == "crash":
            fail("parse_header:%s:%s-on-tolerated-layout" % (kind, out[1]), "parse_header raised %s on a %s file, layout %r, body %r" % (out[1], kind, layout, body[:40]), data, want_fields, body)
            return
        if out[0] == "reject":
            fail("parse_header:%s:tolerated-layout-refused" % kind, "parse_header refused a %s file, layout %r" % (kind, layout), data, want_fields, body)
            return
        h, msg = out[1]
        if K.fields_of(H, h) != want_fields:
            fail("parse_header:%s:fields-differ" % kind, "parse_header returned fields %r for %r, layout %r" % (K.fields_of(H, h), want_fields, layout), data, want_fields, body)
        if msg.strip() != body:
            if msg == body[1:] or msg.strip() == body[1:]:
                fail("parse_header:%s:first-body-character-lost" % kind, "parse_header returned %r... for body %r..., layout %r" % (msg[:12], body[:12], layout), data, want_fields, body)
            else:
                fail("parse_header:%s:body-differs" % kind, "parse_header returned body %r for %r, layout %r" % (msg[:60], body[:60], layout), data, want_fields, body)

    def tree_predicate(kind, data, want_fields, body, layout):
        """the same through OFXTree.parse (header attribute + the text reaching the tree builder)."""
        if "<B>" not in body or "\n" in body:
            return
        tree = P.OFXTree()
        out = K.call(H, lambda b: tree.parse(io.BytesIO(b)), data)
        want_leaf = body[body.index("<B>") + 3: body.index("</B>")]
        if out[0] != "ok":
            fail("OFXTree.parse:%s:%s" % (kind, out[1]), "OFXTree.parse raised %s on a %s file, layout %r" % (out[1], kind, layout), data, want_fields, body)
            return
        leaf = tree.getroot().find(".//B")
        got = None if leaf is None else leaf.text
        if K.fields_of(H, tree.header) != want_fields or got is None or got.strip() != want_leaf.strip():
            fail("OFXTree.parse:%s:content-differs" % kind, "OFXTree.parse gave header %r, <B> = %r (expected %r), layout %r" % (K.fields_of(H, tree.header), got, want_leaf, layout), data, want_fields, body)

    # ---------------- corpus first (inputs that failed before fixes/C05-1 stay watched) ----------------
    import glob, json, os
    for pth in sorted(glob.glob(os.path.join(C.VERIF, "corpus", PROP, "*.json"))):
        r = json.load(open(pth)).get("replay", {})
        if r.get("large"):
            nbytes, verdict = large_predicate(H, r["large"], fails)
            rep.count(("large", tuple(sorted(r["large"].items()))), nontrivial=(verdict == "ok"), kind="large:%s:%s" % (r["large"]["kind"], verdict))
        if r.get("case"):
            case = K.unjson(r["case"])
            cases.append(case)
            if "expect_body" in r:
                want = K.unjson(r["expect_fields"])
                predicate(want[0], case[1], want, r["expect_body"], {"corpus": os.path.basename(pth)})
                tree_predicate(want[0], case[1], want, r["expect_body"], {"corpus": os.path.basename(pth)})

    # ---------------- version 1: fields x layout x charset x body ----------------
    leads = ["", "\n", "\r\n", "\r\n\n", " \n", "\r\r\n", "\n" * 7, "  "]
    seps = ["\r\n", "\n", "\r", "", " ", "\t", "\r\n ", "  "]
    blanks = ["", " ", "  ", "\t"]
    gaps = ["", "\n", "\r\n", "\r\n\r\n", "\r", " ", "\n\n\n", "\r\n" * 6, " \r\n\t"]
    trails = [b"", b"\r\n", b"\n\n ", b""]
    layouts1 = list(itertools.product(leads, seps, blanks, gaps, (True, False)))
    rng.shuffle(layouts1)
    # the full separator x gap table always (the product the property's why_tests_cant names), the rest sampled
    core = [("", s, "", g, True) for s in seps[:5] for g in gaps[:6]] + [("", "\r\n", "", "", False), ("\n", "\n", " ", "", True)]
    n1 = len(layouts1) if thorough else 260
    for (lead, sep, blank, gap, comp) in core + layouts1[:n1]:
        charset = rng.choice(list(CODECS))
        codec = CODECS[charset]
        ok_bodies = [(b, encodable(b, codec)) for b in BODIES]
        ok_bodies = [(b, e) for b, e in ok_bodies if e is not None]
        picks = ok_bodies if thorough and rng.random() < 0.2 else rng.sample(ok_bodies, 2)
        for body, bb in picks:
            ver = rng.choice(K.SPEC_V1_VERSIONS + [rng.randrange(100, 200)])
            sec, enc = rng.choice(K.SPEC_SECURITY), rng.choice(K.SPEC["ENCODING"])
            old, new = rng.choice(["NONE", K.rand_uid(rng)]), K.rand_uid(rng)
            f = K.valid_v1_fields(ver, sec, old, new, enc, charset)
            if not comp:
                f = [x for x in f if x[0] != "COMPRESSION"]
            data = v1_file(f, lead, sep, blank, gap, bb, rng.choice(trails))
            want = ("v1", 100, "OFXSGML", ver, sec, enc, charset, "NONE", old, new)
            layout = {"lead": lead, "sep": sep, "blank": blank, "gap": gap, "compression": comp, "charset": charset}
            cases.append(("ph", data))
            predicate("v1", data, want, body, layout)
            tree_predicate("v1", data, want, body, layout)

    # ---------------- version 2 ----------------
    quote_sets = list(itertools.product(['"', "'", None], repeat=3))
    layouts2 = list(itertools.product(quote_sets, ["", "\n", "\n\n", " \r\n"], ["", "\n", "\r\n", " ", "\r\n\r\n"], ["", "\n", "\r\n", "  ", "\r\n\r\n", "\n \n"]))
    rng.shuffle(layouts2)
    n2 = len(layouts2) if thorough else 90
    # every combination of quote styles / absent pseudo-attributes always, the line-break product sampled
    core2 = [(q, "", rng.choice(["", "\r\n"]), rng.choice(["", "\n"])) for q in quote_sets]
    for (quote, lead, a, b) in core2 + layouts2[:n2]:
        for body in (BODIES if thorough else rng.sample(BODIES, 2)):
            bb = body.encode("utf_8")
            ver, sec = rng.choice(K.SPEC_V2_VERSIONS), rng.choice(K.SPEC_SECURITY)
            old, new = rng.choice(["NONE", K.rand_uid(rng)]), K.rand_uid(rng)
            data = v2_file(K.valid_v2_fields(ver, sec, old, new), quote, lead, a, b, bb, rng.choice(trails))
            want = ("v2", 200, ver, sec, old, new)
            layout = {"quotes(version,encoding,standalone)": quote, "lead": lead, "xml/ofx": a, "ofx/body": b}
            cases.append(("ph", data))
            predicate("v2", data, want, body, layout)
            tree_predicate("v2", data, want, body, layout)

    # ---------------- large files (implementation only: literals of this size are not given to vm_compute) ----------------
    # multi-byte characters everywhere in a body of 64 KiB .. 300 KiB; the ASCII pad and the number of blank lines before the body
    # shift every character boundary through all residues, so that any fixed block / buffer boundary falls inside a character
    n_large = 0
    plan = []
    for k in range(14 if not thorough else 14 * 12):
        plan.append({"kind": "v1", "charset": "NONE", "blank_lines": rng.randrange(0, 41) if k >= 14 else (k * 3) % 41, "eol": rng.choice(["\n", "\r\n"]),
                     "pad": k % 14, "size": rng.choice([66000, 70000, 131100, 140000, 200000, 300000]) if (thorough or k % 5 == 0) else 66000,
                     "old": "NONE", "new": K.rand_uid(rng)})
    for k in range(4 if not thorough else 40):
        plan.append({"kind": rng.choice(["v1", "v1", "v2"]), "charset": rng.choice(["ISO-8859-1", "1252", "NONE"]), "blank_lines": rng.randrange(0, 41),
                     "eol": rng.choice(["\n", "\r\n"]), "pad": rng.randrange(14), "size": rng.choice([66000, 131100, 300000]), "old": K.rand_uid(rng), "new": "NONE"})
    # power-of-two boundaries up to 4 MiB (where block sizes live): one file just over each of 1, 2 and 4 MiB whose pad puts a character across
    # exactly that offset; a file of that size also has >= 8 multiples of every smaller power of two (8 KiB .. 512 KiB), which a dense body
    # straddles for every alignment.  Thorough: every power of two from 8 KiB, several blank-line counts.
    targets = [1 << 20, 1 << 21, 1 << 22] if not thorough else [1 << k for k in range(13, 23)] * 3
    for t in targets:
        plan.append({"kind": "v1", "charset": "NONE", "blank_lines": rng.randrange(0, 41), "eol": rng.choice(["\n", "\r\n"]), "pad": 0, "target": t,
                     "size": t + 3000, "old": "NONE", "new": K.rand_uid(rng)})
    for prm in plan:
        if prm["kind"] == "v2":
            prm["charset"] = "NONE"
        nbytes, verdict = large_predicate(H, prm, fails)
        n_large += 1
        rep.count(("large", tuple(sorted(prm.items()))), nontrivial=(verdict == "ok"), kind="large:%s:%s" % (prm["kind"], verdict))
    rep.extra["large_files"] = n_large

    # ---------------- the codec is the declared one ----------------
    import codecs as _c
    for charset, codec in CODECS.items():
        out = K.call(H, H.OFXHeaderV1, 102, charset=charset)
        got = None
        if out[0] == "ok":
            g = K.call(H, lambda h: h.codec, out[1])
            got = g[1] if g[0] == "ok" else None
        try:
            same = got is not None and _c.lookup(got).name == _c.lookup(codec).name
        except LookupError:
            same = False
        if not same:
            fails.append(C.Failure("codec:%s-not-%s" % (charset, codec), "OFXHeaderV1(charset=%r).codec is %r, expected %s" % (charset, got, codec),
                                   {"case": K.jsonable(("ctor1", 102, None, None, None, None, charset, None, None, None)), "expect_codec": codec}))
    try:
        v2same = _c.lookup(H.OFXHeaderV2.codec).name == "utf-8"
    except LookupError:
        v2same = False
    if not v2same:
        fails.append(C.Failure("codec:v2-not-utf_8", "OFXHeaderV2.codec is %r" % (H.OFXHeaderV2.codec,), {"case": None}))

    # ---------------- malformed stream (model vs implementation only) ----------------
    n_mal = 3000 if thorough else 500
    for _ in range(n_mal):
        r = rng.random()
        charset = rng.choice(list(CODECS))
        f = K.valid_v1_fields(rng.choice([102, 160, 1000, 0]), rng.choice(["NONE", "TYPE1", "X"]), "NONE", K.rand_uid(rng), "USASCII", rng.choice([charset, "UTF-8"]))
        if r < 0.45:
            lead = rng.choice(["", "\n" * 8, "\n" * 9, " \n" * 8, "\r\n" * 7 + "\r", "\x0b\n", "\x1c\n", "\xa0\n"])
            sep = rng.choice(["\r\n", "\n\n", "\r\n\r\n", "\n", "", "\r"])
            gap = rng.choice(["", "\n", "\r\n\r\n"])
            body = rng.choice([b"<OFX>\xe9\x80\x81</OFX>", b"<OFX></OFX>", b"", b"\xff", b"<OFX>\xc3\xa9</OFX>", b"\xa0<OFX>\x85</OFX>\xa0", b"<OFX>\xc3</OFX>"])
            data = K.render_v1(f, sep=sep, blank=rng.choice(["", " "]), tail=gap, lead=lead).encode("latin_1") + body
        elif r < 0.6:
            data = bytes(rng.choice(b"OFXHEADER:10\n\r <?xml>\xe9\x80") for _ in range(rng.randrange(0, 40)))
        elif r < 0.8:
            # non-ASCII inside the header itself
            s = K.render_v1(f)
            k = rng.randrange(len(s))
            data = s[:k].encode("ascii") + rng.choice([b"\xe9", b"\x80", b"\xc3\xa9", b"\xa0"]) + s[k:].encode("ascii") + b"<OFX></OFX>"
        else:
            f2 = K.valid_v2_fields(rng.choice([200, 203, 204]), "NONE", "NONE", K.rand_uid(rng))
            body = rng.choice([b"<OFX>\xc3\xa9</OFX>", b"<OFX>\xe9</OFX>", b"<OFX>\xed\xa0\x80</OFX>", b"<OFX>\xf0\x9f\x92\xa9\xf4\x90\x80\x80</OFX>", b"<OFX>\xc0\xaf</OFX>", b"<OFX>\xe0\x9f\xbf</OFX>", b""])
            data = v2_file(f2, (rng.choice(['"', "'", None]), rng.choice(['"', "'", None]), rng.choice(['"', "'"])), rng.choice(["", "\n", " "]), rng.choice(["", "\n"]), rng.choice(["", "\n"]), body)
            if rng.random() < 0.3:
                k = rng.randrange(len(data))
                data = data[:k] + data[k + 1:]
        cases.append(("ph", data))
    # the executable codecs against Python's
    for _ in range(2000 if thorough else 300):
        cd = rng.randrange(3)
        if rng.random() < 0.5:
            s = "".join(rng.choice(["a", "<", "é", "€", "Ÿ", "\u0080", "߿", "ࠀ", "￿", "\U00010000", "\U0010ffff", "퟿", ""]) for _ in range(rng.randrange(0, 6)))
            b = s.encode("utf_8")
            if rng.random() < 0.3 and b:
                k = rng.randrange(len(b)); b = b[:k] + b[k + 1:]
        else:
            b = bytes(rng.choice([0x41, 0x80, 0x81, 0x8d, 0x8f, 0x90, 0x9d, 0x9f, 0xa0, 0xbf, 0xc0, 0xc1, 0xc2, 0xdf, 0xe0, 0xed, 0xef, 0xf0, 0xf4, 0xf5, 0xff]) for _ in range(rng.randrange(0, 5)))
        cases.append(("decode", cd, b))
    if thorough:
        for cd in range(3):
            for x in range(256):
                cases.append(("decode", cd, bytes([x])))
                cases.append(("decode", cd, bytes([x, 0x80])))
                cases.append(("decode", cd, bytes([x, 0xbf, 0x80, 0x80])))

    rep.rule = ("structured stream: valid v1 headers (versions, security, encodings, charsets, COMPRESSION present/absent, UIDs) x leading blank lines x field separators "
                "(CRLF, LF, CR, nothing, blanks) x blanks after colons x header/body gap (none .. six blank lines) x bodies encodable in the declared charset with characters that "
                "differ between cp1252, latin-1 and UTF-8, and valid v2 headers x quote style x line breaks around the declarations; each file parsed by parse_header and by "
                "OFXTree.parse. malformed stream: 8+ leading blank lines, blank lines between fields, bytes undecodable in the declared charset, non-ASCII inside the header, "
                "invalid UTF-8; codec tables vs Python. large stream (implementation against the expected header and body only): files of 64 KiB - 4 MiB whose "
                "bodies are dense in multi-byte characters, ASCII pad 0..13 and 0..40 blank lines shifting every character boundary. "
                "non-trivial = parse_header returned a header and a body; distinct by file bytes")
    K.correspond(rep, H, cases, "parse_header", PROP)


def replay(obj):
    H = K.hmod()
    r = obj["replay"]
    if r.get("large"):
        fl = []
        n, verdict = large_predicate(H, r["large"], fl)
        print("replay large file %r (%d bytes) -> %s%s" % (r["large"], n, verdict, "" if not fl else ": " + fl[0].what))
        if fl:
            print("VIOLATION property=%s replay=(this file)" % PROP)
        return 1 if fl else 0
    if not r.get("case"):
        print("nothing to replay")
        return 0
    case = K.unjson(r["case"])
    out = K.run_impl(H, case)
    print("replay %s -> %r" % (repr(case)[:300], out))
    if "expect_body" in r:
        bad = out[0] != "ok" or tuple(out[1]) != tuple(K.unjson(r["expect_fields"])) or out[2].strip() != r["expect_body"]
    elif "expect_codec" in r:
        import codecs as _c
        h = H.OFXHeaderV1(102, charset=case[6])
        bad = _c.lookup(h.codec).name != _c.lookup(r["expect_codec"]).name
    else:
        bad = out[0] != "ok"
    if bad:
        print("VIOLATION property=%s replay=(this file)" % PROP)
    return 1 if bad else 0
