"""C18 - ofxget settings obey CLI > user file > FI db > OFX Home > defaults, and persist
(ofxtools/scripts/ofxget.py: merge_config, merge_from_ofxhome, read_config, CONFIGURABLE, convert_list, write_config,
mk_server_cfg, arg2config, DEFAULTS, NULL_ARGS; ofxtools/config/__init__.py; ofxtools/ofxhome.py (oracle); config/fi.cfg).

The implementation is driven in worker subprocesses (fresh interpreter, XDG_CONFIG_HOME pointing at a per-worker scratch
directory under build/, the module re-executed for every simulated run so that its module-level USERCFG/LIBCFG reads
happen as in a new process), with a generated FI database, user file, command line and fake OFX Home."""
import os, sys, json, subprocess, string, shutil, time, configparser, glob
from concurrent.futures import ThreadPoolExecutor
from .. import common as C
from .. import translate_ofxget as TR

PROP = "C18"
COQ_EXTRA = ["theories/Model/OfxgetCfgCases.vo", "theories/Gen/OfxgetGen.vo"]
PARTIAL = [
    "str.lower() (optionxform, boolean words) and int() are modelled on ASCII; repr() of code points >= 256 is taken as printable; "
    "urlparse's scheme test is modelled without its netloc validation; the user file's encoding (locale, UTF-8 here) is runtime: "
    "theorems and generated files are ASCII",
    "configparser's reader/writer (CPython 3.12) is transcribed into the model, not taken from the stdlib source on each run; "
    "the correspondence run compares file texts and re-read values on every case",
    "write_read_same_effective is stated for clean values (one line, no surrounding blanks; account ids without , ' \\ ) and under the "
    "explicit hypothesis reset_free (known finding write_config:reset-not-persisted); ofxhome.lookup is assumed to answer the same "
    "on both runs",
]
MANIFEST = {
    "engine": "OfxgetCfg",
    "text": "Gallina model of ofxget's settings machinery (merge_config, read_config, merge_from_ofxhome, write_config/mk_server_cfg/arg2config and the "
            "configparser reader/writer they rely on) over the option tables regenerated from the live DEFAULTS/CONFIGURABLE/NULL_ARGS on every run. "
            "Theorems: per-option first-setter precedence over every content of the five sources; write-then-read gives the same effective value for every "
            "CONFIGURABLE option over the stated value domain; the password key can never be written; a dry run leaves the file alone; one default CLIENTUID "
            "over any sequence of write runs. The model is tied to the implementation by running both on the same generated configurations "
            "(all 2^5 source subsets per option, value generators per type, 1..5 write/read runs) and comparing merged mappings and file texts.",
    "note": "Trusted: Coq kernel + vm_compute; hand transcription Model/OfxgetCfg.v validated by the correspondence run only; table translator; "
            "ofxhome.lookup / OFXClient.uuid are oracles.",
}

TOOLS = os.path.dirname(os.path.dirname(os.path.dirname(os.path.abspath(__file__))))
NWORK = min(12, C.NCPU)


def translate():
    return TR.gen()


# ===================================================================== worker (runs in a subprocess)
def _enc(v):
    if v is None or isinstance(v, (bool, int, str)):
        return v
    if isinstance(v, list) and all(isinstance(x, str) for x in v):
        return v
    return {"other": repr(v)}


def _errclass(e):
    return ["reject" if isinstance(e, (ValueError, TypeError)) else "crash", type(e).__name__, str(e)[:200]]


class Worker:
    """the implementation side; lives in the subprocess"""

    def __init__(self):
        import io, importlib, warnings
        from pathlib import Path
        warnings.simplefilter("ignore")
        self.io, self.importlib, self.Path = io, importlib, Path
        self.scratch = os.environ["XDG_CONFIG_HOME"]
        import ofxtools.config as cfgmod
        self.cfgmod = cfgmod
        self.real_configdir = cfgmod.CONFIGDIR
        self.fidir = Path(self.scratch) / "fidb"
        self.fidir.mkdir(parents=True, exist_ok=True)
        (self.fidir / "fi.cfg").write_text("")
        cfgmod.CONFIGDIR = self.fidir
        import ofxtools.scripts.ofxget as G
        import ofxtools.ofxhome as OH
        import ofxtools.Client as CL
        from ofxtools.utils import classproperty
        self.G, self.OH, self.CL, self.classproperty = G, OH, CL, classproperty
        self.userpath = Path(self.scratch) / "ofxtools" / "ofxget.cfg"
        self.userpath.parent.mkdir(parents=True, exist_ok=True)
        # the module-level statements that build the configuration state (CONFIGPATH, USERCONFIGPATH, USERCFG, LIBCFG and their
        # .read calls), cut out of the live source: re-executing them is what a new process does to that state
        import ast
        names = {"CONFIGPATH", "USERCONFIGPATH", "USERCFG", "LIBCFG"}
        stmts = []
        for n in ast.parse(open(G.__file__, encoding="utf-8").read()).body:
            if isinstance(n, ast.Assign) and any(isinstance(t, ast.Name) and t.id in names for t in n.targets):
                stmts.append(n)
            elif (isinstance(n, ast.Expr) and isinstance(n.value, ast.Call) and isinstance(n.value.func, ast.Attribute)
                  and isinstance(n.value.func.value, ast.Name) and n.value.func.value.id in names):
                stmts.append(n)
        self.boot_code = compile(ast.Module(body=stmts, type_ignores=[]), G.__file__, "exec") if len(stmts) == 6 else None
        self.nboot = 0

    # -- files
    def put(self, path, text):
        if text is None:
            try:
                os.remove(path)
            except FileNotFoundError:
                pass
        else:
            with open(path, "w", encoding="utf-8", newline="") as f:
                f.write(text)

    def get(self, path):
        try:
            with open(path, "rb") as f:
                return f.read().decode("utf-8", "surrogateescape")
        except FileNotFoundError:
            return None

    # -- oracles
    def set_uuid(self, stream):
        it = iter(stream)
        self.uuid_taken = []

        def nxt(cls):
            u = next(it)
            self.uuid_taken.append(u)
            return u
        self.CL.OFXClient.uuid = self.classproperty(classmethod(nxt))

    def set_lookup(self, table):
        OH = self.OH
        self.lookups = []

        def lookup(id):
            self.lookups.append(id)
            rec = table.get(id)
            if rec is None:
                return None
            return OH.OFXServer(id=id, name="Fake FI %s" % id, url=rec.get("url"), org=rec.get("org"), fid=rec.get("fid"),
                                brokerid=rec.get("brokerid"))
        OH.lookup = lookup

    def new_process(self, realfi):
        """what starting ofxget afresh does: the module body runs again (CONFIGPATH, USERCFG.read, LIBCFG.read, tables)"""
        self.cfgmod.CONFIGDIR = self.real_configdir if realfi else self.fidir
        self.nboot += 1
        if self.boot_code is None or self.nboot % 50 == 1:
            self.importlib.reload(self.G)          # the whole module body
        else:
            exec(self.boot_code, self.G.__dict__)  # its configuration statements

    def one_run(self, run, table, realfi):
        G = self.G
        out = {"argv": run["argv"]}
        self.set_lookup(table)
        self.set_uuid(run["uuids"])
        boot = None
        try:
            self.new_process(realfi)
        except BaseException as e:
            boot = e
        cap = self.io.StringIO()
        old = sys.stdout, sys.stderr
        sys.stdout = sys.stderr = cap
        try:
            try:
                ns = G.make_argparser().parse_args(run["argv"])
            except SystemExit as e:
                out["harness_error"] = "argparse rejected argv: " + cap.getvalue()[-300:]
                return out
            out["cli"] = {k: _enc(v) for k, v in vars(ns).items() if v is not None}
            out["uuid"] = [u for u in run["uuids"] if u not in self.uuid_taken][0]
            merged = None
            if boot is not None:
                out["eff"] = {"err": _errclass(boot)}
            else:
                try:
                    merged = G.merge_config(ns, G.USERCFG)
                    out["eff"] = {"ok": {k: _enc(merged[k]) for k in merged}}
                    out["nmaps"] = len(merged.maps)
                except BaseException as e:
                    out["eff"] = {"err": _errclass(e)}
            out["wout"] = 0
            if merged is not None and merged["write"]:
                try:
                    G.write_config(merged)
                    out["wout"] = 1
                except BaseException as e:
                    out["wout"] = 2
                    out["wexc"] = _errclass(e)
        finally:
            sys.stdout, sys.stderr = old
        out["lookups"] = list(self.lookups)
        out["file"] = self.get(self.userpath)
        return out

    def case_cfg(self, case):
        realfi = bool(case.get("realfi"))
        if not realfi:
            self.put(self.fidir / "fi.cfg", case["fi"])
        self.put(self.userpath, case["user"])
        return {"runs": [self.one_run(r, case.get("oh") or {}, realfi) for r in case["runs"]]}


def worker_main(handler=None):
    """stdin: one JSON case per line; stdout: one JSON outcome per line"""
    real_out = os.fdopen(os.dup(1), "w", encoding="utf-8")
    w = Worker()
    for line in sys.stdin:
        case = json.loads(line)
        try:
            res = (handler or Worker.case_cfg)(w, case)
        except BaseException as e:        # harness trouble, not an outcome
            import traceback
            res = {"harness_error": traceback.format_exc()[-1500:]}
        real_out.write(json.dumps(res) + "\n")
        real_out.flush()


def run_workers(cases, entry="from ofxv.props import c18; c18.worker_main()", tag="c18", nwork=NWORK):
    """distribute the cases over worker subprocesses; results in the order of the cases"""
    base = os.path.join(C.BUILD, "ofxget", "%s-%d" % (tag, os.getpid()))
    shutil.rmtree(base, ignore_errors=True)
    n = max(1, min(nwork, (len(cases) + 49) // 50))
    chunks = [cases[i::n] for i in range(n)]

    def one(i):
        d = os.path.join(base, "w%d" % i)
        os.makedirs(d)
        env = dict(os.environ, XDG_CONFIG_HOME=d, XDG_DATA_HOME=d, XDG_CACHE_HOME=d, HOME=d, PYTHONPATH=C.REPO + os.pathsep + TOOLS,
                   PYTHONHASHSEED="0", PYTHONDONTWRITEBYTECODE="1", PYTHONUTF8="1")
        inp = "".join(json.dumps(c) + "\n" for c in chunks[i])
        p = subprocess.run([C.PY, "-c", "import sys; sys.path.insert(0, %r); %s" % (TOOLS, entry)], input=inp, env=env, cwd=d,
                           stdout=subprocess.PIPE, stderr=subprocess.PIPE, text=True, timeout=900)
        lines = [l for l in p.stdout.splitlines() if l.strip()]
        if p.returncode != 0 or len(lines) != len(chunks[i]):
            raise RuntimeError("worker %d failed (rc %s, %d/%d answers): %s" % (i, p.returncode, len(lines), len(chunks[i]), p.stderr[-1500:]))
        return [json.loads(l) for l in lines]
    try:
        with ThreadPoolExecutor(n) as ex:
            parts = list(ex.map(one, range(n)))
    finally:
        shutil.rmtree(base, ignore_errors=True)
    res = [None] * len(cases)
    for i, part in enumerate(parts):
        for j, r in enumerate(part):
            res[i + j * n] = r
    return res


# ===================================================================== Coq encoding
def ctxt(s):
    if all(32 <= ord(c) < 127 and c != '"' for c in s):
        return '(T "%s")' % s
    return C.ctext(s)


def cpy(v):
    if v is None:
        return "PNone"
    if isinstance(v, bool):
        return "(PBool %s)" % C.cbool(v)
    if isinstance(v, int):
        return "(PInt %s)" % C.cZ(v)
    if isinstance(v, str):
        return "(PStr %s)" % ctxt(v)
    if isinstance(v, list):
        return "(PList %s)" % C.clist([ctxt(x) for x in v])
    raise ValueError("cannot encode %r" % (v,))


def camap(d):
    return C.clist(["(%s,%s)" % (ctxt(k), cpy(v)) for k, v in d.items()])


def encodable(d):
    return all(not isinstance(v, dict) for v in d.values())


def coq_run(r, defaults):
    if "ok" in r["eff"]:
        eff = r["eff"]["ok"]
        diff = {k: v for k, v in eff.items() if k not in defaults or type(defaults[k]) is not type(v) or defaults[k] != v}
        ceff = "(OK %s)" % camap(diff)
    else:
        ceff = "(Err %s)" % ("Reject" if r["eff"]["err"][0] == "reject" else "Crash")
    return "(CRun %s %s %s %d %s)" % (camap(r["cli"]), ctxt(r["uuid"]), ceff, r["wout"], C.copt(r["file"], ctxt))


def coq_oh(table):
    items = []
    for id_, rec in table.items():
        if rec is None:
            continue
        items.append("(%s, Build_ohrec %s %s %s %s)" % (ctxt(id_), C.copt(rec.get("url"), ctxt), C.copt(rec.get("org"), ctxt),
                                                          C.copt(rec.get("fid"), ctxt), C.copt(rec.get("brokerid"), ctxt)))
    return C.clist(items)


def coq_case(case, res, defaults):
    return "CCase %s %s %s %s" % (ctxt(case["fi"]), C.copt(case["user"], ctxt), coq_oh(case.get("oh") or {}),
                                  C.clist([coq_run(r, defaults) for r in res["runs"]]))


# ===================================================================== command lines
# option -> how the `stmt` sub-command takes it
STR_FLAGS = {"url": "--url", "ofxhome": "--ofxhome", "org": "--org", "fid": "--fid", "appid": "--appid", "appver": "--appver",
             "language": "--language", "bankid": "--bankid", "brokerid": "--brokerid", "useragent": "--useragent", "user": "--user",
             "clientuid": "--clientuid", "password": "--password", "dtstart": "--start", "dtend": "--end", "dtasof": "--asof",
             "dtacctup": "--dtacctup"}
INT_FLAGS = {"version": "--version"}
TRUE_FLAGS = {"unclosedelements": "--unclosedelements", "pretty": "--pretty", "nonewfileuid": "--nonewfileuid", "skipprofile": "--skipprofile",
              "dryrun": "--dryrun", "write": "--write", "all": "--all", "savepass": "--savepass", "nokeyring": "--nokeyring",
              "incoo": "--open-orders"}
FALSE_FLAGS = {"inctran": "--no-transactions", "incbal": "--no-balances", "incpos": "--no-positions"}
LIST_FLAGS = {"checking": "--checking", "savings": "--savings", "moneymrkt": "--moneymrkt", "creditline": "--creditline",
              "creditcard": "--creditcard", "investment": "--investment"}


def argv_of(cmd, server, cli):
    """command line that sets exactly the options of `cli` (a dict option -> value)"""
    av = [cmd]
    if server is not None:
        av.append(server)
    for k, v in cli.items():
        if k in STR_FLAGS:
            av.append("%s=%s" % (STR_FLAGS[k], v))
        elif k in INT_FLAGS:
            av.append("%s=%d" % (INT_FLAGS[k], v))
        elif k in TRUE_FLAGS:
            assert v is True, (k, v)
            av.append(TRUE_FLAGS[k])
        elif k in FALSE_FLAGS:
            assert v is False, (k, v)
            av.append(FALSE_FLAGS[k])
        elif k in LIST_FLAGS:
            for x in v:
                av.append("%s=%s" % (LIST_FLAGS[k], x))
        else:
            raise ValueError("no flag for %r" % k)
    return av


# ===================================================================== value generators
URL_CHARS = string.ascii_letters + string.digits + "-._~:/?#[]@!$&'()*+,;=%"
ID_CHARS = string.ascii_letters + string.digits + "._-"
NAME_CHARS = string.ascii_letters + string.digits + " ._@&/+-"
BOOL_WORDS = {True: ["true", "yes", "on", "1", "True", "YES", "On"], False: ["false", "no", "off", "0", "False", "NO", "Off"]}


def g_url(rng, pct=True):
    chars = URL_CHARS if pct else URL_CHARS.replace("%", "")
    tail = "".join(rng.choice(chars) for _ in range(rng.randrange(0, 14)))
    return rng.choice(["https://", "http://"]) + rng.choice(["ofx.", "www.", ""]) + "".join(rng.choice(string.ascii_lowercase) for _ in range(rng.randrange(2, 7))) + ".com/" + tail


def g_name(rng):
    n = rng.randrange(1, 10)
    s = "".join(rng.choice(NAME_CHARS) for _ in range(n)).strip()
    return s or "x"


def g_id(rng):
    return "".join(rng.choice(ID_CHARS) for _ in range(rng.randrange(1, 12)))


def g_list(rng, maxlen=6):
    n = rng.choice([1, 1, 2, 3, rng.randrange(1, maxlen + 1)])
    return [g_id(rng) for _ in range(n)]


def g_value(rng, opt, ty, pct=True):
    if ty == "TStr":
        if opt == "url":
            return g_url(rng, pct)
        if opt == "ofxhome":
            return str(rng.randrange(400, 460))
        if opt == "clientuid":
            return "".join(rng.choice("0123456789ABCDEF-") for _ in range(rng.randrange(8, 36)))
        return g_name(rng)
    if ty == "TInt":
        return rng.choice([102, 103, 151, 160, 200, 201, 202, 203, 210, 211, 220, 0, 7, 1000000])
    if ty == "TBool":
        return rng.random() < 0.5
    if ty == "TList":
        return g_list(rng)
    raise ValueError(ty)


def file_text_of(rng, v, plain=False):
    """a configuration-file spelling of a typed value (what a user would type)"""
    if isinstance(v, bool):
        return ("true" if v else "false") if plain else rng.choice(BOOL_WORDS[v])
    if isinstance(v, int):
        return str(v) if plain else rng.choice([str(v), " %d" % v, "+%d" % v if v >= 0 else str(v)])
    if isinstance(v, list):
        return ", ".join(v) if plain else rng.choice([", ", ",", " , "]).join(v)
    return v


def mk_file(sections, rng=None, style=0):
    """sections: list of (name, [(key, text)]) -> file text in the layout RawConfigParser.write uses (style 0) or a hand-written one"""
    out = []
    for name, items in sections:
        out.append("[%s]\n" % name)
        for k, v in items:
            if style == 0:
                out.append("%s = %s\n" % (k, v))
            else:
                d = rng.choice([" = ", "=", ": ", " : ", ":", "= "])
                out.append("%s%s%s%s\n" % (rng.choice([k, k.upper(), k.capitalize()]), d, v, rng.choice(["", " ", "\t"])))
        out.append("\n" if style == 0 else rng.choice(["\n", "", "# a comment\n\n", "; note\n"]))
    return "".join(out)


# ===================================================================== the property, evaluated on the implementation
def norm(v):
    return "" if v is None else v


def same(a, b):
    a, b = norm(a), norm(b)
    return type(a) is type(b) and a == b


def parse_plain(text):
    """independent look at a user file: section -> {key: raw value}, through the stdlib's raw parser"""
    cp = configparser.RawConfigParser(strict=False, interpolation=None)
    cp.read_string(text or "")
    d = {"DEFAULT": dict(cp.defaults())}
    for s in cp.sections():
        d[s] = dict(cp._sections[s])
    return d


class Oracle:
    """what the property text demands of one case, given how the case was built (spec) - nothing more"""

    def __init__(self, tables):
        self.defaults = dict(tables["defaults"])
        self.conf = dict(tables["configurable"])
        self.ohkeys = [k for k, _ in tables["ofxhome_keys"]]

    def expected_effective(self, spec, cli):
        """spec: option -> {"user": typed, "fi": typed}; cli: option -> typed; spec["__oh__"]: id -> record"""
        def first(o, with_oh):
            if o in cli:
                return cli[o], "cli"
            s = spec.get(o, {})
            if "user" in s:
                return s["user"], "user"
            if "fi" in s:
                return s["fi"], "fi"
            if with_oh and o in self.ohkeys:
                id_, _ = first("ofxhome", False)
                rec = spec.get("__oh__", {}).get(id_) if id_ else None
                if rec is not None and rec.get(o) is not None:
                    return rec[o], "ofxhome"
            return self.defaults[o], "default"
        return {o: first(o, True) for o in self.defaults}


def typed_of_raw(raw, ty):
    """what a file value means for an option of that type (None when it means nothing)"""
    try:
        if ty == "TInt":
            return int(raw)
        if ty == "TBool":
            return {"1": True, "yes": True, "true": True, "on": True, "0": False, "no": False, "false": False, "off": False}[raw.lower()]
        if ty == "TList":
            return [x.strip() for x in raw.split(",")]
        return raw
    except (ValueError, KeyError):
        return None


def classify_persist(o, ty, v1, v2, cli, before, after, server, fi_secs=None, defaults=None):
    """key of the defect class a persistence mismatch belongs to"""
    if o not in cli and o in before.get("DEFAULT", {}) and server not in before and server not in (fi_secs or {}):
        return "read_config:default-section-ignored-without-server-section"
    if ty == "TList" and isinstance(v1, list) and any((not x) or x != x.strip() or any(c in x for c in ",'\\\"\n\r") for x in v1):
        return "write_list:unquoted-ids"
    sec_b = (before.get(server) or {})
    sec_a = (after.get(server) or {})
    if o in cli and sec_a.get(o) == sec_b.get(o):
        # the command-line value was not stored.  The recorded finding is: it is empty, or it equals what the FI database / the
        # built-in defaults give for this nickname (not stored by design), while the user's own file holds something else.
        lib_raw = (fi_secs or {}).get(server, {}).get(o)
        lib_val = typed_of_raw(lib_raw, ty) if lib_raw is not None else (defaults or {}).get(o)
        is_null = v1 in (None, "", [])
        stale_in_user_file = o in sec_b or o in before.get("DEFAULT", {})
        if is_null or (same(v1, lib_val) and stale_in_user_file):
            return "write_config:reset-not-persisted"
        return "write_config:value-in-effect-not-stored"
    return "persist:%s:value-changed" % ty


# ===================================================================== case generation
def build_sources(rng, tables, opts, subset_for, pct=True, style=0, with_udef=False):
    """choose typed values per option and source; -> (spec, cli, user_items, fi_items, udef_items)"""
    conf = dict(tables["configurable"])
    spec, cli, user_items, fi_items, udef_items = {}, {}, [], [], []
    for o in opts:
        ty = conf.get(o)
        bits = subset_for(o)
        s = {}
        if "cli" in bits:
            v = cli_value(rng, o, tables, pct)
            if v is not None:
                cli[o] = v
        if ty is not None:
            if "user" in bits:
                s["user"] = g_value(rng, o, ty, pct)
                user_items.append((o, file_text_of(rng, s["user"], plain=(style == 0))))
            if "fi" in bits:
                s["fi"] = g_value(rng, o, ty, pct)
                fi_items.append((o, file_text_of(rng, s["fi"], plain=(style == 0))))
            if with_udef and "udef" in bits:
                s["udef"] = g_value(rng, o, ty, pct)
                udef_items.append((o, file_text_of(rng, s["udef"], plain=(style == 0))))
        spec[o] = s
    return spec, cli, user_items, fi_items, udef_items


def cli_value(rng, o, tables, pct=True):
    defaults = dict(tables["defaults"])
    if o in TRUE_FLAGS:
        return True
    if o in FALSE_FLAGS:
        return False
    if o in INT_FLAGS:
        return g_value(rng, o, "TInt")
    if o in LIST_FLAGS:
        return g_list(rng)
    if o in STR_FLAGS:
        if o in ("dtstart", "dtend", "dtasof", "dtacctup"):
            return "%04d%02d%02d" % (rng.randrange(1990, 2030), rng.randrange(1, 13), rng.randrange(1, 29))
        if o == "password":
            return "pw-" + g_id(rng)
        return g_value(rng, o, "TStr", pct)
    return None


def distinct_values(spec, cli, o):
    vals = [cli.get(o)] + [spec.get(o, {}).get(k) for k in ("user", "fi", "udef")]
    vals = [json.dumps(v) for v in vals if v is not None]
    return len(set(vals)) == len(vals)


def gen_sweep(rng, tables, reps):
    """stream A: for every option ofxget takes from several places, all 2^5 subsets of
    {command line, user section, FI db section, OFX Home, user [DEFAULT]} set it (others unset)."""
    conf = dict(tables["configurable"])
    cases = []
    sweep_opts = list(conf) + ["dtstart", "inctran", "incoo", "all", "password", "dryrun", "savepass"]
    srcs = ["cli", "user", "fi", "oh", "udef"]
    for o in sweep_opts:
        for mask in range(32):
            bits = {srcs[i] for i in range(5) if mask >> i & 1}
            for rep in range(reps):
                for _try in range(8):
                    spec, cli, ui, fi_, ud = build_sources(rng, tables, [o], lambda _o: bits, with_udef=True, style=rng.choice([0, 0, 1]))
                    if distinct_values(spec, cli, o) or conf.get(o) == "TBool" or o not in conf:
                        break
                oh = {}
                if "oh" in bits:
                    # an OFX Home id configured somewhere above, and a record for it
                    id_ = str(rng.randrange(400, 460))
                    rec = {"url": g_url(rng), "org": g_name(rng), "fid": g_id(rng), "brokerid": g_name(rng)}
                    if rng.random() < 0.25:
                        rec[rng.choice(list(rec))] = None
                    oh[id_] = rec
                    if o != "ofxhome":
                        where = rng.choice(["cli", "user", "fi"])
                        if where == "cli":
                            cli["ofxhome"] = id_
                        elif where == "user":
                            ui.append(("ofxhome", id_)); spec.setdefault("ofxhome", {})["user"] = id_
                        else:
                            fi_.append(("ofxhome", id_)); spec.setdefault("ofxhome", {})["fi"] = id_
                    else:
                        # the swept option is the id itself: make the table answer for whichever id wins
                        for v in [cli.get("ofxhome")] + [spec[o].get(k) for k in ("user", "fi", "udef")]:
                            if v:
                                oh[v] = rec
                # make the run observable: a URL from somewhere, or a dry run
                extra_cli = dict(cli)
                if o not in ("url", "dryrun"):
                    if rng.random() < 0.5:
                        extra_cli["dryrun"] = True
                    else:
                        fi_.append(("url", "https://fi.example.com/ofx")); spec.setdefault("url", {})["fi"] = "https://fi.example.com/ofx"
                elif o == "url" and rng.random() < 0.6:
                    extra_cli["dryrun"] = True
                server = "srv"
                st = rng.choice([0, 0, 1])
                user_secs = ([("DEFAULT", ud)] if ud else []) + ([(server, ui)] if (ui or rng.random() < 0.3) else [])
                case = {"fi": mk_file([("NAMES", [("1", "x")]), (server, fi_)] if (fi_ or rng.random() < 0.5) else [("other", [("url", "http://o")])], rng, st),
                        "user": mk_file(user_secs, rng, st) if (user_secs or rng.random() < 0.5) else None,
                        "oh": oh,
                        "runs": [{"argv": argv_of("stmt", server, extra_cli), "uuids": ["U-A", "U-B"]}],
                        "_spec": spec, "_cli": [extra_cli], "_server": server, "_opt": o, "_bits": sorted(bits), "_kind": "sweep"}
                case["_spec"]["__oh__"] = oh
                cases.append(case)
    return cases


def base_fi(server, items, rng=None, style=0, extra=()):
    return mk_file([("NAMES", [("1", "x")])] + list(extra) + [(server, items)], rng, style)


def gen_persist(rng, tables, nvals):
    """stream C: for every CONFIGURABLE option and values of its domain: `--opt v --write`, then a run without it"""
    conf = dict(tables["configurable"])
    defaults = dict(tables["defaults"])
    cases = []
    for o, ty in conf.items():
        vals = []
        if ty == "TBool":
            vals = [True] if o in TRUE_FLAGS else []
        elif ty == "TInt":
            vals = [102, 103, 160, 200, 211, 220, 0, 1, 99999999999999999999, rng.randrange(10 ** 6)]
        elif ty == "TList":
            vals = [[g_id(rng)], g_list(rng), [g_id(rng) for _ in range(rng.randrange(7, 21))], ["1", "2", "3"], ["a b", "c.d-e_f"]]
        elif o == "url":
            vals = ["https://ofx.example.com/%7Euser/ofx?x=1&y=%20", "http://h/" + URL_CHARS] + [g_url(rng) for _ in range(nvals)]
        else:
            vals = [g_value(rng, o, ty) for _ in range(nvals)] + (["100%", "a=b:c", "#x;y", "[z]"] if o not in ("ofxhome", "clientuid") else [])
        for v in vals[:max(nvals, 4)] if ty != "TList" else vals:
            if v == defaults[o]:
                continue
            state = rng.randrange(4)
            server = rng.choice(["srv", "my bank", "chase-alt", "x.y"])
            fi_items = [] if o == "url" else [("url", "https://fi.example.com/ofx")]
            if rng.random() < 0.4 and o != "org":
                fi_items.append(("org", "FIORG"))
            fi = base_fi(server, fi_items) if (fi_items or rng.random() < 0.5) else mk_file([("NAMES", [("1", "x")])])
            others = [(k, file_text_of(rng, g_value(rng, k, conf[k]), plain=True)) for k in rng.sample(list(conf), 3) if k not in (o, "ofxhome", "url", "unclosedelements")]
            if state == 0:
                user = None
            elif state == 1:
                user = mk_file([("DEFAULT", [("clientuid", "11111111-2222-3333-4444-555555555555")]), ("elsewhere", [("url", "http://e/"), ("user", "eve")])])
            elif state == 2:
                user = mk_file([(server, others)])
            else:
                user = mk_file([("elsewhere", [("user", "eve")]), (server, others), ("DEFAULT", [("clientuid", "AAAA-BBBB")])])
            cli_w = {o: v, "write": True}
            if rng.random() < 0.3:
                cli_w["password"] = "pw-" + g_id(rng) + "-secret"
            cli_p = {"dryrun": True} if rng.random() < 0.3 else {}
            cases.append({"fi": fi, "user": user, "oh": {},
                          "runs": [{"argv": argv_of("stmt", server, cli_w), "uuids": ["GEN-UUID-1a", "GEN-UUID-1b"]},
                                   {"argv": argv_of("stmt", server, cli_p), "uuids": ["GEN-UUID-2a", "GEN-UUID-2b"]}],
                          "_cli": [cli_w, cli_p], "_server": server, "_opt": o, "_kind": "persist"})
    return cases


def gen_random(rng, tables, n):
    """stream B: several options at once from random sources, sequences of 1..5 runs on the same file"""
    conf = dict(tables["configurable"])
    cases = []
    all_opts = list(conf)
    cli_only = ["dtstart", "dtend", "dtasof", "inctran", "incbal", "incpos", "incoo", "all", "password", "savepass", "nokeyring", "dtacctup"]
    for _ in range(n):
        server = rng.choice(["srv", "srv", "bank one", "a-b.c"])
        opts = rng.sample(all_opts, rng.randrange(1, 9))
        srcs = ["cli", "user", "fi"]

        def subset(o):
            return {s for s in srcs if rng.random() < 0.45}
        style = rng.choice([0, 0, 1])
        spec, cli, ui, fi_, _ud = build_sources(rng, tables, opts, subset, style=style)
        oh = {}
        if rng.random() < 0.35:
            id_ = str(rng.randrange(400, 460))
            oh[id_] = {"url": g_url(rng), "org": g_name(rng), "fid": g_id(rng), "brokerid": g_name(rng) if rng.random() < 0.7 else None}
            if "ofxhome" not in spec or not spec["ofxhome"]:
                where = rng.choice(["cli", "user", "fi"])
                if "ofxhome" in cli:
                    oh[cli["ofxhome"]] = oh[id_]
                elif where == "cli":
                    cli["ofxhome"] = id_
                elif where == "user":
                    ui.append(("ofxhome", id_)); spec.setdefault("ofxhome", {})["user"] = id_
                else:
                    fi_.append(("ofxhome", id_)); spec.setdefault("ofxhome", {})["fi"] = id_
            else:
                for v in [cli.get("ofxhome"), spec["ofxhome"].get("user"), spec["ofxhome"].get("fi")]:
                    if v:
                        oh[v] = oh[id_]
        if "url" not in spec or not (spec["url"] or "url" in cli):
            if rng.random() < 0.8:
                fi_.append(("url", "https://fi.example.com/ofx")); spec.setdefault("url", {})["fi"] = "https://fi.example.com/ofx"
        spec["__oh__"] = oh
        for o in rng.sample(cli_only, rng.randrange(0, 3)):
            v = cli_value(rng, o, tables)
            if v is not None:
                cli[o] = v
        udef = [("clientuid", "DEF-" + g_id(rng))] if rng.random() < 0.3 else []
        user_secs = ([("DEFAULT", udef)] if udef else []) + ([(server, ui)] if (ui or rng.random() < 0.3) else [])
        user = mk_file(user_secs, rng, style) if (user_secs or rng.random() < 0.5) else None
        fi = base_fi(server, fi_, rng, style) if (fi_ or rng.random() < 0.6) else mk_file([("NAMES", [("1", "x")])])
        nruns = rng.randrange(1, 6)
        runs, clis = [], []
        first = dict(cli)
        if rng.random() < 0.6:
            first["write"] = True
        if rng.random() < 0.25:
            first["dryrun"] = True
        clis.append(first)
        while len(clis) < nruns:
            prev = clis[-1]
            if prev.get("write") and rng.random() < 0.7:
                nxt = {"dryrun": True} if rng.random() < 0.3 else {}        # a run "without those command-line options"
            else:
                nxt = {}
                for o in rng.sample(all_opts, rng.randrange(0, 4)):
                    v = cli_value(rng, o, tables)
                    if v is not None:
                        nxt[o] = v
                if rng.random() < 0.7:
                    nxt["write"] = True
                if rng.random() < 0.2:
                    nxt["dryrun"] = True
            clis.append(nxt)
        for i, c in enumerate(clis):
            runs.append({"argv": argv_of("stmt", server, c), "uuids": ["GEN-UUID-%da" % i, "GEN-UUID-%db" % i]})
        if udef:
            spec.setdefault("clientuid", {})
            if "user" not in spec["clientuid"] and "fi" not in spec["clientuid"]:
                spec["clientuid"]["udef"] = udef[0][1]
        cases.append({"fi": fi, "user": user, "oh": oh, "runs": runs, "_spec": spec, "_cli": clis, "_server": server, "_kind": "random"})
    return cases


def gen_reset(rng, tables, n):
    """finding 21: the user's file holds opt = v; `--opt <default> --write`; then a plain run"""
    conf = dict(tables["configurable"])
    defaults = dict(tables["defaults"])
    cases = []
    picks = [("version", 102, 203), ("version", 211, 203), ("user", "alice", ""), ("org", "OLDORG", ""), ("checking", ["111"], [])]
    for (o, old, new) in picks[:n]:
        server = "srv"
        user = mk_file([(server, [("url", "http://u.example.com/"), (o, file_text_of(rng, old, plain=True))])])
        cli_w = {"write": True}
        if o in LIST_FLAGS:
            continue          # argparse cannot express an empty list
        cli_w[o] = new
        cases.append({"fi": mk_file([("NAMES", [("1", "x")])]), "user": user, "oh": {},
                      "runs": [{"argv": argv_of("stmt", server, cli_w), "uuids": ["GEN-UUID-1a", "GEN-UUID-1b"]},
                               {"argv": argv_of("stmt", server, {}), "uuids": ["GEN-UUID-2a", "GEN-UUID-2b"]}],
                      "_cli": [cli_w, {}], "_server": server, "_opt": o, "_kind": "reset"})
    # the same against the FI database's value instead of the built-in default
    user = mk_file([("srv", [("version", "203")])])
    fi = base_fi("srv", [("url", "https://fi.example.com/ofx"), ("version", "102")])
    cli_w = {"version": 102, "write": True}
    cases.append({"fi": fi, "user": user, "oh": {},
                  "runs": [{"argv": argv_of("stmt", "srv", cli_w), "uuids": ["GEN-UUID-1a", "GEN-UUID-1b"]},
                           {"argv": argv_of("stmt", "srv", {}), "uuids": ["GEN-UUID-2a", "GEN-UUID-2b"]}],
                  "_cli": [cli_w, {}], "_server": "srv", "_opt": "version", "_kind": "reset"})
    return cases


def gen_udefault(rng, tables):
    """options in the user's [DEFAULT] section and a nickname that has no section yet"""
    cases = []
    for o, v in (("user", "bob"), ("version", "102"), ("appid", "QWIN")):
        user = mk_file([("DEFAULT", [(o, v)])])
        cli_w = {"url": "https://h.example.com/ofx", "write": True}
        cases.append({"fi": mk_file([("NAMES", [("1", "x")])]), "user": user, "oh": {},
                      "runs": [{"argv": argv_of("stmt", "srv", cli_w), "uuids": ["GEN-UUID-1a", "GEN-UUID-1b"]},
                               {"argv": argv_of("stmt", "srv", {}), "uuids": ["GEN-UUID-2a", "GEN-UUID-2b"]}],
                      "_cli": [cli_w, {}], "_server": "srv", "_opt": o, "_kind": "udefault"})
    return cases


def gen_listq(rng, tables):
    """account ids that would need quoting in the file"""
    cases = []
    for ids in (["3, 4"], ["a'b"], ["x\\y"], ["12", "3,4", "5"], [" 7"], ['q"r\'s']):
        o = rng.choice(list(LIST_FLAGS))
        cli_w = {o: ids, "write": True}
        cases.append({"fi": base_fi("srv", [("url", "https://fi.example.com/ofx")]), "user": None, "oh": {},
                      "runs": [{"argv": argv_of("stmt", "srv", cli_w), "uuids": ["GEN-UUID-1a", "GEN-UUID-1b"]},
                               {"argv": argv_of("stmt", "srv", {}), "uuids": ["GEN-UUID-2a", "GEN-UUID-2b"]},
                               {"argv": argv_of("stmt", "srv", {"write": True}), "uuids": ["GEN-UUID-3a", "GEN-UUID-3b"]},
                               {"argv": argv_of("stmt", "srv", {}), "uuids": ["GEN-UUID-4a", "GEN-UUID-4b"]}],
                      "_cli": [cli_w, {}, {"write": True}, {}], "_server": "srv", "_opt": o, "_kind": "listq"})
    return cases


WILD_STR = [" lead", "trail ", "\ttab", "in\nline", "cr\rhere", "", "%", "%%", "%(url)s", "a%41", "=x", ":y", "[sec]", "#hash", ";semi", "é", "x\xa0",
            "\u2003em", "UPPER", "'q'", '"dq"', "back\\slash", "a,b", "[", "]", "[]", "x]", "0", "None"]
WILD_SERVERS = ["DEFAULT", "NAMES", "a]b", "[x", "x y", " lead", "trail ", "https://ofx.example.com/ofx", "http://h/%7E", "ftp:x", "mailto:me",
                "1http://x", "a:b", ":x", "h-t.p+s://x", "srv\n", "é", "srv"]


def gen_wild(rng, tables, n):
    """out-of-domain values and nicknames: model against implementation only"""
    conf = dict(tables["configurable"])
    cases = []
    for i in range(n):
        server = rng.choice(WILD_SERVERS) if rng.random() < 0.5 else "srv"
        cli = {}
        for o in rng.sample(list(conf), rng.randrange(1, 4)):
            ty = conf[o]
            if ty == "TStr":
                cli[o] = rng.choice(WILD_STR)
            elif ty == "TList":
                cli[o] = [rng.choice([w for w in WILD_STR if all(ord(ch) < 256 for ch in w)] + ["1", "22"]) for _ in range(rng.randrange(1, 4))]
            elif ty == "TInt":
                cli[o] = rng.choice([0, -5, 203, 10 ** 30])
            elif o in TRUE_FLAGS:
                cli[o] = True
        if rng.random() < 0.8:
            cli["write"] = True
        if rng.random() < 0.15:
            cli["dryrun"] = True
        if rng.random() < 0.1:
            cli["clientuid"] = rng.choice(["", "GEN-UUID-0b", "CLI-UID"])
        ui = [(o, rng.choice(WILD_STR)) for o in rng.sample(list(conf), rng.randrange(0, 3)) if conf[o] in ("TStr", "TList")]
        ui = [(k, v) for k, v in ui if "\n" not in v and "\r" not in v]
        user = None if rng.random() < 0.3 else mk_file(([("DEFAULT", [("clientuid", rng.choice(["D-UID", "", "%x"]))])] if rng.random() < 0.3 else []) + [(server if "\n" not in server else "srv", ui)])
        fi_items = [("url", "https://fi.example.com/ofx")] if rng.random() < 0.7 else []
        fi_server = server if ("\n" not in server and server != "NAMES") else "srv"
        fi = base_fi(fi_server, fi_items) if fi_server != "DEFAULT" or rng.random() < 0.5 else mk_file([("NAMES", [("1", "x")])])
        clis = [cli, {}] + ([{"write": True}, {}] if rng.random() < 0.3 else [])
        argvs = []
        for j, c in enumerate(clis):
            av = argv_of("stmt", server, c)
            if c.get("clientuid") == "" and rng.random() < 0.5:
                av = [a for a in av if not a.startswith("--clientuid")] + ["--clientuid"]     # UuidAction draws from OFXClient.uuid
            argvs.append(av)
        cases.append({"fi": fi, "user": user, "oh": {}, "runs": [{"argv": av, "uuids": ["GEN-UUID-%da" % j, "GEN-UUID-%db" % j]} for j, av in enumerate(argvs)],
                      "_cli": clis, "_server": server, "_kind": "wild"})
    return cases


JUNK_LINES = ["no delimiter here", "= novalue", ": x", "[unterminated", "[]", "[a] trailing", "   indented = 1", "\tcont", "  more text", "", "   ", "# c", "; c", "  # indented comment",
              "key = v", "KEY: V2", "key = again", "url = http://a/b", "url: http://c", "version = 2x", "version = 1_0_2", "version = -7", "pretty = maybe", "pretty = YES",
              "checking = 1, 2,,3", "checking =", "user = bob # not a comment", "[DEFAULT]", "[srv]", "[srv]", "[other]", "clientuid = Z", "x = 1\r", "rem = 1", "a = b = c", "[s] = 1",
              "unclosedelements = on", "nonewfileuid = 0", "skipprofile = off", "ofxhome = 424", "org = O\tR\tG  "]


def gen_malformed(rng, tables, n):
    """hand-edited / damaged files: model of the reader against configparser"""
    cases = []
    for i in range(n):
        def junk_file(k):
            lines = []
            if rng.random() < 0.8:
                lines.append("[srv]")
            lines += [rng.choice(JUNK_LINES) for _ in range(rng.randrange(0, k))]
            nl = rng.choice(["\n", "\n", "\n", "\r\n", "\r"])
            return nl.join(lines) + (nl if rng.random() < 0.8 else "")
        which = rng.randrange(3)
        fi = junk_file(5) if which == 0 else base_fi("srv", [("url", "https://fi.example.com/ofx")])
        user = junk_file(7) if which != 0 else rng.choice([None, mk_file([("srv", [("user", "u")])])])
        cli = {"write": True} if rng.random() < 0.6 else {}
        if rng.random() < 0.5:
            cli["user"] = "cliuser"
        if rng.random() < 0.3:
            cli["dryrun"] = True
        clis = [cli, {}]
        cases.append({"fi": fi, "user": user, "oh": {"424": {"url": "https://oh.example.com/", "org": "OH", "fid": "1", "brokerid": None}},
                      "runs": [{"argv": argv_of("stmt", "srv", c), "uuids": ["GEN-UUID-%da" % j, "GEN-UUID-%db" % j]} for j, c in enumerate(clis)],
                      "_cli": clis, "_server": "srv", "_kind": "malformed"})
    return cases


def real_sections(tables):
    """the bundled fi.cfg cut into sections by line (not by configparser): nickname -> text of its section"""
    text = open(tables["fi_path"], encoding="utf-8").read()
    lines = text.split("\n")
    starts = [i for i, l in enumerate(lines) if l.startswith("[")]
    secs = {}
    for a, b in zip(starts, starts[1:] + [len(lines)]):
        name = lines[a].strip()[1:-1]
        secs[name] = "\n".join(lines[a:b]) + "\n"
    return secs


def gen_libdefault(rng, tables, n_real):
    """what --write persisted is what the next run resolves, where the FI database disagrees with the built-in default:
    every nickname whose FI section (bundled fi.cfg, or a generated one) sets an option with a non-empty built-in default
    (version; the flags cannot be switched off on the command line) to another value; the command line gives the built-in
    default, or the FI database's own value; --write; then a run without the option."""
    conf = dict(tables["configurable"])
    defaults = dict(tables["defaults"])
    cases = []

    def history(fi, server, realfi, o, v, user=None):
        cli_w = {o: v, "write": True}
        cases.append(dict({"fi": fi, "user": user, "oh": {},
                           "runs": [{"argv": argv_of("stmt", server, cli_w), "uuids": ["GEN-UUID-1a", "GEN-UUID-1b"]},
                                    {"argv": argv_of("stmt", server, {}), "uuids": ["GEN-UUID-2a", "GEN-UUID-2b"]}],
                           "_cli": [cli_w, {}], "_server": server, "_opt": o, "_kind": "libdefault"}, **({"realfi": True} if realfi else {})))
    # generated FI databases
    for lib_version in (102, 103, 151, 160, 200, 211, 220):
        fi = base_fi("srv", [("url", "https://fi.example.com/ofx"), ("version", str(lib_version))])
        history(fi, "srv", False, "version", defaults["version"])
        history(fi, "srv", False, "version", lib_version)
        history(fi, "srv", False, "version", defaults["version"], user=mk_file([("srv", [("user", "porky")])]))
    # the bundled FI database
    secs = real_sections(tables)
    cands = []
    for name, text in secs.items():
        if name == "NAMES" or not text.isascii():
            continue
        kv = {}
        for l in text.split("\n")[1:]:
            if "=" in l and not l.lstrip().startswith(("#", ";")):
                k, v = l.split("=", 1)
                kv[k.strip().lower()] = v.strip()
        if "url" not in kv:
            continue
        for o, raw in kv.items():
            ty = conf.get(o)
            if ty in ("TInt",) and defaults.get(o) not in (None, "", []) and typed_of_raw(raw, ty) not in (None, defaults[o]):
                cands.append((name, o, typed_of_raw(raw, ty)))
    for name, o, libv in (cands if n_real is None else rng.sample(cands, min(n_real, len(cands)))):
        history(secs[name], name, True, o, defaults[o])
        if rng.random() < 0.3:
            history(secs[name], name, True, o, libv)
    return cases


def gen_emptycli(rng, tables):
    """a string option given on the command line with the EMPTY value (--org "", used to blank what a file or OFX Home supplies)
    while lower-ranking places set it: the command line still wins, the value in effect is ''"""
    conf = dict(tables["configurable"])
    ohkeys = [k for k, _ in tables["ofxhome_keys"]]
    cases = []
    for o, ty in conf.items():
        if ty != "TStr" or o not in STR_FLAGS or o == "clientuid":      # `--clientuid ""` asks for a random id (UuidAction), by design
            continue
        lower = ["user", "fi"] + (["oh"] if o in ohkeys else [])
        for mask in range(1, 2 ** len(lower)):
            bits = {lower[i] for i in range(len(lower)) if mask >> i & 1}
            spec, ui, fi_, oh = {o: {}}, [], [], {}
            if "user" in bits:
                spec[o]["user"] = g_value(rng, o, ty); ui.append((o, spec[o]["user"]))
            if "fi" in bits:
                spec[o]["fi"] = g_value(rng, o, ty); fi_.append((o, spec[o]["fi"]))
            if "oh" in bits:
                id_ = str(rng.randrange(400, 460))
                oh[id_] = {"url": g_url(rng), "org": g_name(rng), "fid": g_id(rng), "brokerid": g_name(rng)}
                fi_.append(("ofxhome", id_)); spec.setdefault("ofxhome", {})["fi"] = id_
            if o != "url":
                fi_.append(("url", "https://fi.example.com/ofx")); spec.setdefault("url", {})["fi"] = "https://fi.example.com/ofx"
            spec["__oh__"] = oh
            cli = {o: "", "dryrun": True}
            cases.append({"fi": base_fi("srv", fi_), "user": mk_file([("srv", ui)]) if ui else None, "oh": oh,
                          "runs": [{"argv": argv_of("stmt", "srv", cli), "uuids": ["U-A", "U-B"]}],
                          "_spec": spec, "_cli": [cli], "_server": "srv", "_opt": o, "_bits": sorted(bits), "_kind": "emptycli"})
    return cases


INLINE_STR = ["pa ;ss", "a # b", "x #y", "#lead", ";lead", "x;y", "x#y", "ACME Bank ; retail", "id #42", "a  #  b ; c"]
INLINE_IDS = [["12 #a", "34"], ["5 ;6"], ["7", "8 # joint", "9"], ["#1"], ["a;b", "c #d"]]


def gen_inlinec(rng, tables):
    """values that look like they carry an inline comment (" #x", " ;x", "#lead"): configparser's default has no inline comments, the
    whole text is the value - in the user's file, in the FI database, and after --write"""
    conf = dict(tables["configurable"])
    cases = []
    uu = lambda i: ["GEN-UUID-%da" % i, "GEN-UUID-%db" % i]
    str_opts = [o for o, ty in conf.items() if ty == "TStr" and o in STR_FLAGS and o not in ("clientuid", "ofxhome", "url")]
    list_opts = [o for o, ty in conf.items() if ty == "TList"]
    # precedence: the value sits in the user's file or in the FI database
    for i, v in enumerate(INLINE_STR + INLINE_IDS):
        for where in ("user", "fi"):
            o = rng.choice(list_opts if isinstance(v, list) else str_opts)
            text = ", ".join(v) if isinstance(v, list) else v
            fi_ = [("url", "https://fi.example.com/ofx")] + ([(o, text)] if where == "fi" else [])
            ui = [(o, text)] if where == "user" else []
            spec = {o: {where: v}, "url": {"fi": "https://fi.example.com/ofx"}, "__oh__": {}}
            cli = {"dryrun": True} if rng.random() < 0.5 else {}
            cases.append({"fi": base_fi("srv", fi_), "user": mk_file([("srv", ui)]) if ui else None, "oh": {},
                          "runs": [{"argv": argv_of("stmt", "srv", cli), "uuids": uu(0)}],
                          "_spec": spec, "_cli": [cli], "_server": "srv", "_opt": o, "_kind": "inlinec"})
    # persistence: the value comes from the command line and is saved
    for v in INLINE_STR + INLINE_IDS:
        o = rng.choice(list_opts if isinstance(v, list) else str_opts)
        cli_w = {o: v, "write": True}
        clis = [cli_w, {}, {"write": True}, {}]
        cases.append({"fi": base_fi("srv", [("url", "https://fi.example.com/ofx")]), "user": None, "oh": {},
                      "runs": [{"argv": argv_of("stmt", "srv", c), "uuids": uu(j)} for j, c in enumerate(clis)],
                      "_cli": clis, "_server": "srv", "_opt": o, "_kind": "inlinec"})
    cli_w = {"url": "https://ofx.example.com/ofx #frag ;x", "write": True}
    cases.append({"fi": mk_file([("NAMES", [("1", "x")])]), "user": None, "oh": {},
                  "runs": [{"argv": argv_of("stmt", "srv", c), "uuids": uu(j)} for j, c in enumerate([cli_w, {}])],
                  "_cli": [cli_w, {}], "_server": "srv", "_opt": "url", "_kind": "inlinec"})
    return cases


def recase(rng, name):
    """the same nickname in another letter case (None when it has no letters)"""
    for cand in (name.upper(), name.capitalize(), name.swapcase(), name.lower()):
        if cand != name:
            return cand
    return None


def gen_casenick(rng, tables, n_real):
    """nicknames that differ ONLY IN CASE from a section that exists (generated FI database, bundled fi.cfg, the user's own file):
    section names are case-sensitive, so such a section is somebody else's.  Precedence with decoy sections, and
    "what --write persisted is what the next run resolves"."""
    conf = dict(tables["configurable"])
    cases = []
    uu = lambda i: ["GEN-UUID-%da" % i, "GEN-UUID-%db" % i]
    decoy = [("url", "https://decoy.example.com/ofx"), ("version", "160"), ("org", "DECOY"), ("fid", "666"), ("user", "decoy"),
             ("checking", "666, 667"), ("pretty", "true"), ("bankid", "000000666")]
    settings = {"url": "https://ofx.example.com/mine", "version": 102, "org": "MINE", "fid": "42", "user": "porky", "checking": ["1", "2"],
                "savings": ["3"], "bankid": "111000614", "pretty": True}
    # --- persistence: generated FI database / user file holding the other-case section
    for nick, other in (("SRV", "srv"), ("Srv", "srv"), ("srv", "SRV"), ("My Bank", "my bank")):
        for where in ("fi", "user", "both"):
            fi = base_fi(other, decoy) if where in ("fi", "both") else mk_file([("NAMES", [("1", "x")])])
            user = mk_file([(other, decoy)]) if where in ("user", "both") else None
            opts = rng.sample(list(settings), rng.randrange(3, len(settings) + 1))
            if "url" not in opts:
                opts.append("url")
            cli_w = {o: settings[o] for o in opts}
            cli_w["write"] = True
            clis = [cli_w, {}, {"write": True}, {}]
            cases.append({"fi": fi, "user": user, "oh": {}, "runs": [{"argv": argv_of("stmt", nick, c), "uuids": uu(i)} for i, c in enumerate(clis)],
                          "_cli": clis, "_server": nick, "_kind": "casenick"})
    # --- persistence: nicknames of the bundled fi.cfg in another case ('Amex' vs [amex])
    secs = real_sections(tables)
    names = [n for n in secs if n != "NAMES" and secs[n].isascii() and recase(rng, n) and recase(rng, n) not in secs and "url" in secs[n]]
    pick = names if n_real is None else rng.sample(names, min(n_real, len(names)))
    for name in (["amex"] if "amex" in secs else []) + pick:
        nick = "Amex" if name == "amex" else recase(rng, name)
        cli_w = {"url": settings["url"], "version": 102, "user": "porky", "checking": ["1", "2"], "write": True}
        clis = [cli_w, {}]
        cases.append({"fi": secs[name], "realfi": True, "user": None, "oh": {},
                      "runs": [{"argv": argv_of("stmt", nick, c), "uuids": uu(i)} for i, c in enumerate(clis)],
                      "_cli": clis, "_server": nick, "_kind": "casenick"})
    # --- precedence: the nickname's own sections among decoys in another case, decoys first
    for nick, other in (("SRV", "srv"), ("Amex", "amex"), ("srv", "Srv")):
        for mask in range(8):
            spec, ui, fi_ = {}, [], []
            for o in ("org", "fid", "version", "user", "checking", "bankid"):
                ty = conf[o]
                s = {}
                if mask & 1 and rng.random() < 0.8:
                    s["user"] = g_value(rng, o, ty)
                    ui.append((o, file_text_of(rng, s["user"], plain=True)))
                if mask & 2 and rng.random() < 0.8:
                    s["fi"] = g_value(rng, o, ty)
                    fi_.append((o, file_text_of(rng, s["fi"], plain=True)))
                spec[o] = s
            cli = {"dryrun": True}
            if mask & 4:
                cli["org"] = "CLIORG"
            spec["__oh__"] = {}
            fi_secs = [("NAMES", [("1", "x")]), (other, decoy)] + ([(nick, fi_)] if fi_ else [])
            user_secs = [(other, [(k, v + "9" if k in ("org", "fid", "user") else v) for k, v in decoy])] + ([(nick, ui)] if ui else [])
            cases.append({"fi": mk_file(fi_secs), "user": mk_file(user_secs), "oh": {},
                          "runs": [{"argv": argv_of("stmt", nick, cli), "uuids": uu(0)}],
                          "_spec": spec, "_cli": [cli], "_server": nick, "_kind": "casenick"})
    return cases


def gen_realfi(rng, tables, n):
    """the bundled fi.cfg: real nicknames, the section text cut out by line (not by configparser) for the model"""
    secs = real_sections(tables)
    names = [s for s in secs if s != "NAMES" and secs[s].isascii()]
    rich = [s for s in names if secs[s].count("\n") > 4]
    conf = dict(tables["configurable"])
    cases = []
    for i in range(n):
        server = rng.choice(rich if rng.random() < 0.7 else names)
        cli = {}
        for o in rng.sample(["org", "fid", "version", "user", "bankid", "brokerid", "url", "checking", "pretty"], rng.randrange(0, 4)):
            v = cli_value(rng, o, tables)
            if v is not None:
                cli[o] = v
        ui = [(o, file_text_of(rng, g_value(rng, o, conf[o]), plain=True)) for o in rng.sample(["org", "fid", "version", "user", "appid", "savings"], rng.randrange(0, 3))]
        user = mk_file([(server, ui)]) if ui or rng.random() < 0.3 else None
        cli["dryrun" if rng.random() < 0.5 else "write"] = True
        m_ofxhome = [l.split("=", 1)[1].strip() for l in secs[server].split("\n") if l.startswith("ofxhome")]
        oh = {}
        if m_ofxhome and rng.random() < 0.8:
            oh[m_ofxhome[0]] = {"url": "https://oh.example.com/" + server, "org": "OH-ORG", "fid": "OH-FID", "brokerid": rng.choice([None, "oh.example.com"])}
        clis = [cli, {"dryrun": True}]
        cases.append({"fi": secs[server], "realfi": True, "user": user, "oh": oh,
                      "runs": [{"argv": argv_of("stmt", server, c), "uuids": ["GEN-UUID-%da" % j, "GEN-UUID-%db" % j]} for j, c in enumerate(clis)],
                      "_cli": clis, "_server": server, "_kind": "realfi"})
    return cases


# ===================================================================== evaluation of one case
IMPORTS = ["Base.Digits", "Base.OfxgetBase", "Gen.OfxgetGen", "Model.OfxgetCfg", "Model.OfxgetCfgCases"]


def public(case):
    return {k: v for k, v in case.items() if not k.startswith("_")}


def check_property(case, res, orc, fail):
    """the property statement, evaluated on what the implementation did (res); independent of the Coq model"""
    kind = case.get("_kind", "corpus")
    runs = res["runs"]
    clis = case.get("_cli")
    server = case.get("_server")
    conf = orc.conf
    rp = dict({k: v for k, v in case.items() if k.startswith("_")}, case=public(case))
    # 0. the command line reached merge_config as intended
    if clis:
        for i, (r, c) in enumerate(zip(runs, clis)):
            if "cli" not in r:
                continue
            want = dict(c)
            if want.get("clientuid") == "" and any(a.startswith("--clientuid") for a in r["argv"]):
                want.pop("clientuid")
            got = {k: v for k, v in r["cli"].items() if k not in ("server", "verbose", "request", "clientuid") or k in want}
            if got != want:
                fail("argparse:namespace-differs-from-command-line", "run %d: argv %r gave %r, meant %r" % (i, r["argv"], got, want), dict(rp, run=i))
    # 1. precedence on the first run (the files are as generated)
    spec = case.get("_spec")
    if spec is not None and kind in ("sweep", "random", "casenick", "emptycli", "inlinec") and "eff" in runs[0]:
        r, cli = runs[0], clis[0]
        exp = orc.expected_effective(spec, dict(cli, server=server))
        exp_url = exp["url"][0]
        expect_error = (not exp_url) and not cli.get("dryrun")
        uncertain = {o for o, s in spec.items() if o != "__oh__" and "udef" in s and o not in cli and "user" not in s}
        if "ofxhome" in uncertain:
            uncertain |= set(orc.ohkeys)
        if "err" in r["eff"]:
            exc = r["eff"]["err"][1]
            if exc.startswith("Interpolation"):
                fail("config:percent-in-file-value-unreadable", "a '%%' in a configured value makes ofxget fail at start: %s: %s" % (exc, r["eff"]["err"][2]), dict(rp, run=0))
            elif not expect_error and "url" not in uncertain:
                fail("merge_config:unexpected-error", "merge_config raised %s (%s) where every option has a value" % (exc, r["eff"]["err"][2]), dict(rp, run=0))
        else:
            eff = r["eff"]["ok"]
            if expect_error and "url" not in uncertain and not eff.get("url"):
                fail("merge_config:missing-url-accepted", "no URL from any source and no dry run, yet merge_config returned", dict(rp, run=0))
            for o, (want, src) in exp.items():
                if o in uncertain or o not in eff:
                    continue
                if not same(eff[o], want):
                    fail("merge_config:precedence:%s-value-not-in-effect" % src,
                         "option %r: effective %r, but the highest-ranking source that sets it is %s with %r" % (o, eff[o], src, want),
                         dict(rp, run=0, option=o, expected=want, source=src, observed=eff[o]))
    # 2. persistence, password, dry run, default CLIENTUID over the sequence
    first_uid = None
    files = [case["user"]] + [r.get("file") for r in runs]
    for i, r in enumerate(runs):
        if "eff" not in r or "ok" not in r["eff"]:
            continue
        eff = r["eff"]["ok"]
        before, after = files[i], files[i + 1]
        if not eff.get("write"):
            if before != after:
                fail("write_config:wrote-without-write", "run %d changed ofxget.cfg without --write" % i, dict(rp, run=i))
            continue
        if eff.get("dryrun"):
            if before != after:
                fail("write_config:dry-run-wrote", "run %d (--dryrun --write) changed ofxget.cfg" % i, dict(rp, run=i, before=before, after=after))
            continue
        if kind in ("wild", "malformed", "corpus"):
            continue
        if r["wout"] != 1:
            exc = (r.get("wexc") or ["", "", ""])
            if exc[1].startswith("Interpolation"):
                fail("config:percent-in-file-value-unreadable", "run %d: --write failed reading a configured value containing '%%': %s: %s" % (i, exc[1], exc[2]), dict(rp, run=i))
            elif "interpolation" in exc[2]:
                fail("write_config:percent-in-value-raises", "run %d: --write raised %s: %s" % (i, exc[1], exc[2]), dict(rp, run=i))
            else:
                fail("write_config:raised", "run %d: --write raised %s: %s" % (i, exc[1], exc[2]), dict(rp, run=i))
            continue
        pw = eff.get("password")
        aft = parse_plain(after)
        if pw and (pw in (after or "") or any("password" in sec for sec in aft.values())):
            fail("write_config:password-stored", "run %d stored the password in ofxget.cfg" % i, dict(rp, run=i, file=after))
        uid = aft.get("DEFAULT", {}).get("clientuid")
        if not uid:
            fail("write_config:no-default-clientuid", "run %d: no [DEFAULT] clientuid after --write" % i, dict(rp, run=i, file=after))
        elif first_uid is None:
            first_uid = uid
            b = parse_plain(before).get("DEFAULT", {}).get("clientuid")
            if b and b != uid:
                fail("write_config:default-clientuid-replaced", "run %d replaced the existing default CLIENTUID %r by %r" % (i, b, uid), dict(rp, run=i))
        elif uid != first_uid:
            fail("write_config:default-clientuid-changed", "default CLIENTUID %r after run %d, %r before" % (uid, i, first_uid), dict(rp, run=i))
        # the next run, if it gives none of the persistable options on its command line
        if i + 1 < len(runs) and clis is not None and not any(o in conf for o in clis[i + 1]) and "eff" in runs[i + 1]:
            nx = runs[i + 1]
            if "err" in nx["eff"]:
                fail("persist:next-run-fails", "after run %d's --write the next run fails: %s" % (i, nx["eff"]["err"]), dict(rp, run=i))
                continue
            eff2 = nx["eff"]["ok"]
            bef = parse_plain(before)
            for o, ty in conf.items():
                v1, v2 = eff.get(o), eff2.get(o)
                if same(v1, v2):
                    continue
                if o == "clientuid" and not norm(v1) and v2 == uid:
                    continue                  # the generated default CLIENTUID takes effect from the next run on
                key = classify_persist(o, ty, v1, v2, clis[i], bef, aft, server, parse_plain(case["fi"]), orc.defaults)
                fail(key, "option %r: %r in effect when run %d wrote the settings, %r on the next run without it on the command line" % (o, v1, i, v2),
                     dict(rp, run=i, option=o, written=v1, reread=v2, file=after))


def evaluate(cases, rep, tables, shard=150):
    """run the implementation on the cases, compare with the model, evaluate the property; -> disagreement indices"""
    orc = Oracle(tables)
    defaults = dict(tables["defaults"])
    res = run_workers([public(c) for c in cases])
    items, kept = [], []
    for c, r in zip(cases, res):
        herr = r.get("harness_error") or next((x["harness_error"] for x in r.get("runs", []) if "harness_error" in x), None)
        if herr:
            rep.broken.append("harness: case could not be run: %s" % herr[-300:])
            continue
        check_property(c, r, orc, lambda key, what, replay: rep.failures.append(C.Failure(key, what, replay)))
        ok_all = all("ok" in x["eff"] for x in r["runs"])
        rep.count(public(c), nontrivial=ok_all, kind="%s:%s" % (c.get("_kind", "corpus"), "ok" if ok_all else "error"))
        if not all(encodable(x["cli"]) and ("ok" not in x["eff"] or encodable(x["eff"]["ok"])) for x in r["runs"]):
            rep.broken.append("harness: value outside the model's vocabulary in %r" % (public(c),))
            continue
        items.append(coq_case(c, r, defaults)); kept.append((c, r))
    bad = C.coq_bad_indices(PROP, "cfg", IMPORTS, "ccase_ok", "ccase", items, shard=shard)
    for i in bad[:40]:
        c, r = kept[i]
        rep.disagreements.append({"case": public(c), "kind": c.get("_kind"), "implementation": r})
    return kept, bad


def load_corpus():
    out = []
    for p in sorted(glob.glob(os.path.join(C.VERIF, "corpus", PROP, "*.json"))):
        obj = json.load(open(p))
        case = obj.get("case") or obj.get("replay", {}).get("case")
        if case:
            case = dict(case); case.setdefault("_kind", "corpus"); case["_corpus"] = os.path.basename(p)
            for k in ("_cli", "_server", "_spec", "_kind"):
                if k in obj:
                    case[k] = obj[k]
            out.append(case)
    return out


def run(rep, tier, rng):
    tables = TR.load(strict=False)[1]
    thorough = tier == "thorough"
    cases = load_corpus()
    cases += gen_sweep(rng, tables, 3 if thorough else 1)
    cases += gen_persist(rng, tables, 12 if thorough else 4)
    cases += gen_random(rng, tables, 4000 if thorough else 400)
    cases += gen_reset(rng, tables, 5)
    cases += gen_listq(rng, tables)
    cases += gen_udefault(rng, tables)
    cases += gen_libdefault(rng, tables, None if thorough else 20)
    cases += gen_casenick(rng, tables, 200 if thorough else 12)
    cases += gen_emptycli(rng, tables)
    cases += gen_inlinec(rng, tables)
    cases += gen_wild(rng, tables, 3000 if thorough else 300)
    cases += gen_malformed(rng, tables, 3000 if thorough else 300)
    cases += gen_realfi(rng, tables, 400 if thorough else 40)
    kept, bad = evaluate(cases, rep, tables)
    for k in (0, len(kept) // 3, 2 * len(kept) // 3, len(kept) - 1):
        if 0 <= k < len(kept):
            rep.sample({"case": public(kept[k][0]), "implementation": {"runs": [{kk: vv for kk, vv in x.items() if kk in ("cli", "wout", "file")} for x in kept[k][1]["runs"]]}})
    rep.extra["exhaustive_part"] = "source subsets: all 2^5 subsets of {command line, user section, FI db section, OFX Home, user [DEFAULT]} for each of the %d CONFIGURABLE options and 7 command-line-only ones" % len(tables["configurable"])
    rep.rule = ("corpus first; sweep: every option x all 32 subsets of the five places a value can come from, distinct values per place; persist: every CONFIGURABLE option x values of its domain "
                "(URLs over all URL-legal characters incl. %, account lists of 1..20 ids, integers, flags) written with --write and re-read by a second run; random: 1..5 runs on one file with "
                "several options from random places; reset / list-quoting / [DEFAULT] probes (known findings); libdefault: nicknames whose FI section (bundled fi.cfg and generated) disagrees with a built-in default, the command line gives the built-in default or the FI value, --write, then a run without it; inlinec: values containing ' #', ' ;', '#lead' (inline-comment look-alikes) in the user file, the FI database and saved by --write, strings and account lists; emptycli: every string option given as '' on the command line while user file / FI database / OFX Home set it; casenick: nicknames differing only in letter case from a section of the generated / bundled FI database or of the user's file (precedence among decoy sections, and write-then-rerun); wild: out-of-domain values and nicknames (DEFAULT, URL as nickname, blanks, quotes, newlines); "
                "malformed: damaged user / FI files; realfi: nicknames of the bundled fi.cfg. Each run = fresh module state, real argparse, merge_config, write_config when --write. "
                "non-trivial = every run of the case produced a merged mapping; distinct by full case content")


def replay(obj):
    """bin/check C18 --replay FILE: rerun the stored case on the implementation and re-evaluate the property"""
    C.use_repo()
    tables = TR.load(strict=False)[1]
    r = obj.get("replay") or obj
    case = dict(r["case"])
    for k in ("_cli", "_server", "_spec", "_kind"):
        if k in r:
            case[k] = r[k]
    rep = C.Report(PROP, "replay", 0)
    kept, bad = evaluate([case], rep, tables)
    for c, res in kept:
        print(json.dumps(res, indent=1)[:4000])
    status = 0
    for f in rep.failures:
        print("VIOLATION property=C18 key=%s: %s" % (f.key, f.what)); status = 1
    if bad:
        print("model and implementation disagree on this case"); status = 1
    return status
