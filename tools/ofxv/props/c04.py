"""C04 - every constraint a model class declares is enforced at every way of building it."""
import copy, warnings, decimal
import xml.etree.ElementTree as ET
from .. import common as C
from .. import schema_harness as H
from .. import translate_schema as TS
from . import c01 as P01

PROP = "C04"
COQ_EXTRA = ["theories/Model/ConvertCases.vo", "theories/Gen/SchemaS.vo", "theories/Model/TypedCases.vo", "theories/Gen/TypedGen.vo"]
IMPORTS = ["Model.Schema", "Model.Convert", "Model.ConvertCases", "Gen.SchemaGen", "Gen.SchemaS"]
PARTIAL = ["enumerated value sets, maximum string length and maximum integer digits are enforced inside the element converters (C10's model): the generic theorem is "
           "'whatever the converter refuses, both construction routes refuse' (converter_error_rejected, correspondence fed with the real converters' verdicts); "
           "typed_limit_violation_rejected_kw / _tree and typed_at_limit_accepted state the limit clauses for the CONCRETE converters (conv_typed over the regenerated element-type table, "
           "composition with C10's T_limits_strict / T_bad_text_rejected_on_read), and the value-limit mutants are also run through the typed model; Decimal scale and date-time "
           "texts are C10's / C09's own obligations and are not restated here",
           "the sixteen validate_args hooks are modelled by hand (pinned by AST hash); construct_ok_iff states them as the boolean run_hook"]
MANIFEST = {
    "engine": "Schema",
    "text": "Theorems over EVERY class table and converter oracle: acceptance by the constructor is characterised exactly (construct_ok_iff: hooks, at-most-one and "
            "exactly-one groups, required children, sub-aggregate classes, list member types, residual keywords, converter verdicts); every instance the keyword "
            "route returns satisfies the declarative reading of its class (construct_sound) and every instance from_etree returns does so AT EVERY DEPTH "
            "(from_etree_sound_deep, induction over the document); each violation stated on the input is rejected (missing required, two of a group, none of a required "
            "group, unknown keyword, foreign list member, wrong sub-aggregate class, converter refusal, children out of sequence or duplicated). The hypothesis on groups is a "
            "kernel-evaluated fact about the regenerated table. Model tied to models/base.py by a mutation stream over all concrete classes x constraint kinds x both routes; "
            "an independent validator (proved to reflect the declarative predicate) is run over every instance the real constructors return. Through the front door: "
            "file_limit_violation_rejected_v1/_v2 (a file whose document violates a declared limit is split, parsed and refused: header engine + tokenizer + typed limit "
            "clause) and a stream of response files through OFXTree.parse + convert and ofxget's extract_acctinfos / extract_signoninfos.",
    "note": "Trusted: Coq kernel + vm_compute; translator; hand transcription Model/Convert.v (validated by correspondence); element converters opaque here (C10). "
            "Print Assumptions: closed under the global context.",
}


def translate():
    TS.generate()


# ------------------------------------------------------------------ independent validator (python), every depth
def validate(ctx, obj, path=""):
    """-> list of clause names violated by a REAL instance (the property's 'independent validator')"""
    T = ctx.Types
    cls = type(obj)
    bad = []
    spec = cls.spec
    for k, t in spec.items():
        if isinstance(t, (T.Unsupported, T.ListAggregate, T.ListElement)):
            continue
        v = obj.__dict__.get(k)
        if v is None and getattr(t, "required", False):
            bad.append("%s%s.%s:required-absent" % (path, cls.__name__, k))
        if isinstance(t, T.SubAggregate) and v is not None:
            if not isinstance(v, t.__type__):
                bad.append("%s%s.%s:wrong-class" % (path, cls.__name__, k))
            else:
                bad += validate(ctx, v, path + cls.__name__ + ".")
    declared_o, declared_r = [], []
    for b in cls.__mro__:
        for g in b.__dict__.get("optionalMutexes", []) or []:
            if list(g) not in declared_o: declared_o.append(list(g))
        for g in b.__dict__.get("requiredMutexes", []) or []:
            if list(g) not in declared_r: declared_r.append(list(g))
    present = lambda m: m in spec and not isinstance(spec[m], (T.ListAggregate, T.ListElement, T.Unsupported)) and obj.__dict__.get(m) is not None
    for g in declared_o:
        if sum(present(m) for m in g) > 1:
            bad.append("%s%s:two-of-group[%s]" % (path, cls.__name__, ",".join(g)))
    for g in declared_r:
        if sum(present(m) for m in g) != 1:
            bad.append("%s%s:not-exactly-one-of[%s]" % (path, cls.__name__, ",".join(g)))
    la = [k for k, t in spec.items() if isinstance(t, T.ListAggregate)]
    for m in obj:
        if isinstance(obj, ctx.ElementList):
            if isinstance(m, ctx.Aggregate):
                bad.append("%s%s:aggregate-in-element-list" % (path, cls.__name__))
        elif not isinstance(m, ctx.Aggregate):
            bad.append("%s%s:non-aggregate-list-member" % (path, cls.__name__))
        elif type(m).__name__.lower() not in la:
            bad.append("%s%s:foreign-list-member" % (path, cls.__name__))
        else:
            bad += validate(ctx, m, path + cls.__name__ + ".")
    return bad


# ------------------------------------------------------------------ mutations
def over_limit_text(ctx, t, rng):
    """-> (kind, violating text, boundary text) for a converter with a declared limit, else None"""
    T = ctx.Types
    if type(t) is T.String and t.length is not None:
        n = t.length
        v = rng.random()
        if v > 0.85:                # decomposed sequences: the limit counts code points of the VALUE (2n here), whatever they would compose to
            return ("over-long", "e\u0301" * n, "y" * n)
        if n >= 3 and v < 0.3:      # a bare ampersand in the value (no entity: the value is the text)
            return ("over-long", "R&D" + "x" * (n - 2), "R&D" + "y" * (n - 3))
        if n >= 2 and v < 0.6:      # an entity: the VALUE is one character per entity; at the limit the raw text is longer than n
            return ("over-long", "&amp;" + "x" * n, "&amp;" + "y" * (n - 1))
        return ("over-long", "x" * (n + 1), "y" * n)
    if type(t) is T.Integer and t.length is not None:
        if rng.random() < 0.5:
            return ("over-limit-negative", str(-(10 ** t.length)), str(-(10 ** t.length - 1)))
        return ("over-limit", str(10 ** t.length), str(10 ** t.length - 1))
    if type(t) is T.OneOf:
        return ("foreign-token", "NOT_A_TOKEN_", rng.choice(list(t.valid)))
    if type(t) is T.Bool:
        return ("foreign-token", "T", "Y")
    return None


def tree_mutants(ctx, cls, tree, rng):
    """-> list of (mutation name, expect 'reject'|'accept', mutated tree)"""
    T = ctx.Types
    spec = cls.spec
    out = []
    kids = list(tree)
    names = [k.tag.lower() for k in kids]
    wire = {"FROM": "frm", "YIELD": "yld"}
    attr_of = lambda tag: wire.get(tag, tag.lower()) if cls.__name__ in ("MAIL", "MFINFO", "STOCKINFO") else tag.lower()
    # omit a required child
    for i, k in enumerate(kids):
        t = spec.get(attr_of(k.tag))
        if t is not None and getattr(t, "required", False) and not isinstance(t, (T.ListAggregate, T.ListElement)):
            m = copy.deepcopy(tree); m.remove(m[i]); out.append(("omit-required", "reject", m)); break
    nonlist = [i for i, k in enumerate(kids) if spec.get(attr_of(k.tag)) is not None and not isinstance(spec[attr_of(k.tag)], (T.ListAggregate, T.ListElement, T.Unsupported))]
    if nonlist:
        i = rng.choice(nonlist)
        renamed = cls.__name__ in ("MAIL", "MFINFO", "STOCKINFO") and kids[i].tag in wire
        m = copy.deepcopy(tree); m.insert(i + 1, copy.deepcopy(m[i])); out.append(("duplicate-renamed-child" if renamed else "duplicate-child", "reject", m))
    adj = [i for i in nonlist if i + 1 in nonlist]
    if adj:
        i = rng.choice(adj)
        m = copy.deepcopy(tree); a, b = m[i], m[i + 1]; m.remove(a); m.insert(i + 1, a); out.append(("swap-children", "reject", m))
    # repeated children and the sequence: a list child moved behind a later non-repeated element, or split around it
    islist = lambda i: isinstance(spec.get(attr_of(kids[i].tag)), (T.ListAggregate, T.ListElement))
    order = list(spec)
    lists = [i for i in range(len(kids)) if islist(i)]
    later = [j for j in nonlist if lists and j > lists[-1]]
    if lists and later:
        i, j = rng.choice(lists), rng.choice(later)
        m = copy.deepcopy(tree); x = m[i]; m.remove(x); m.insert(j, x); out.append(("list-child-after-later-element", "reject", m))
        if len(later) >= 2:
            a, b = later[0], later[1]
            m = copy.deepcopy(tree); ea, eb, x = m[a], m[b], copy.deepcopy(m[lists[0]])
            # ... B, list child, A ...: two later elements swapped with a list child between them
            m.remove(ea); m.remove(eb); m.insert(a, eb); m.insert(a + 1, x); m.insert(a + 2, ea); out.append(("later-elements-swapped-around-list-child", "reject", m))
    if cls.__name__ in ctx.hooked and len(lists) >= 2:
        m = copy.deepcopy(tree); m.insert(lists[-1] + 1, copy.deepcopy(m[lists[0]])); out.append(("hook:list-child-repeated-apart", "model", m))
    # value limits on a data child
    leafs = [i for i in nonlist if kids[i].text and not isinstance(spec[attr_of(kids[i].tag)], T.SubAggregate)]
    rng.shuffle(leafs)
    for i in leafs:
        r = over_limit_text(ctx, spec[attr_of(kids[i].tag)], rng)
        if r:
            kind, viol, bound = r
            m = copy.deepcopy(tree); m[i].text = viol; out.append((kind, "reject", m))
            m = copy.deepcopy(tree); m[i].text = bound; out.append(("boundary-" + kind, "accept", m))
            break
    # groups: a second member / no member
    for kind, groups in (("opt", cls.optionalMutexes), ("req", cls.requiredMutexes)):
        for g in groups:
            live = [x for x in g if x in spec and not isinstance(spec[x], (T.ListAggregate, T.ListElement, T.Unsupported))]
            if len(live) < 2 or len(live) != len(g):
                continue
            have = [x for x in live if x in names]
            if len(have) == 1:
                other = rng.choice([x for x in live if x not in have])
                t = spec[other]
                if isinstance(t, T.SubAggregate):
                    sub = H.gen_instance(ctx, t.__type__, rng, 1, 0.2)
                    if sub is None: continue
                    new = sub.to_etree()
                else:
                    new = ET.Element(other.upper()); new.text = t.unconvert(H.gen_value(ctx, t, rng))
                order = list(spec)
                m = copy.deepcopy(tree)
                pos = 0
                for j, k in enumerate(m):
                    a = attr_of(k.tag)
                    if a in order and order.index(a) < order.index(other): pos = j + 1
                m.insert(pos, new); out.append(("two-of-group", "reject", m))
                if kind == "req":
                    m = copy.deepcopy(tree); m.remove(m[names.index(have[0])]); out.append(("none-of-required-group", "reject", m))
    return out


def kw_mutants(ctx, cls, args, kw, rng):
    T = ctx.Types
    spec = cls.spec
    out = []
    req = [k for k in kw if getattr(spec.get(k), "required", False)]
    if req:
        k = rng.choice(req); m = dict(kw); del m[k]; out.append(("omit-required", "reject", args, m))
        m = dict(kw); m[k] = None; out.append(("required-none", "reject", args, m))
    m = dict(kw); m["nosuchattr"] = "1"; out.append(("unknown-keyword", "reject", args, m))
    # foreign list member / str member
    if not issubclass(cls, ctx.ElementList):
        la = [t.__type__ for k, t in spec.items() if isinstance(t, T.ListAggregate)]
        foreign = H.gen_instance(ctx, ctx.byname["STATUS"], rng, 1)
        if foreign is not None and type(foreign) not in la:
            out.append(("foreign-list-member", "reject", list(args) + [foreign], kw))
        out.append(("str-list-member", "reject", list(args) + ["x"], kw))
    for k, v in kw.items():
        t = spec.get(k)
        if isinstance(t, T.SubAggregate) and not isinstance(t, T.ListAggregate):
            other = H.gen_instance(ctx, ctx.byname["BAL" if t.__type__.__name__ != "BAL" else "STATUS"], rng, 1)
            if other is not None and not isinstance(other, t.__type__):
                m = dict(kw); m[k] = other; out.append(("wrong-subaggregate-class", "reject", args, m)); break
    for k, v in kw.items():
        t = spec.get(k)
        if isinstance(t, T.Element) and not isinstance(t, T.SubAggregate):
            r = over_limit_text(ctx, t, rng)
            if r:
                kind, viol, bound = r
                m = dict(kw); m[k] = viol; out.append((kind, "reject", args, m))
                m = dict(kw); m[k] = bound; out.append(("boundary-" + kind, "accept", args, m))
                break
    # classes with a validate_args hook of their own: rearrangements of the members and of the optional keywords, verdict = the model's
    if cls.__name__ in ctx.hooked:
        if len(args) >= 2:
            a2 = list(args); a2.append(copy.deepcopy(a2[0])); out.append(("hook:member-repeated-apart", "model", a2, kw))
            a2 = list(args); rng.shuffle(a2); out.append(("hook:members-shuffled", "model", a2, kw))
            a2 = list(args); a2.insert(0, copy.deepcopy(a2[-1])); out.append(("hook:last-member-repeated-first", "model", a2, kw))
        # one member of every class the list admits, then a repeat of the first placed apart from it
        pool = []
        for k, t in spec.items():
            if isinstance(t, T.ListAggregate):
                j = H.gen_instance(ctx, t.__type__, rng, 1, 0.3)
                if j is not None:
                    pool.append(j)
        if len(pool) >= 2:
            out.append(("hook:one-member-of-each-class", "model", list(pool), kw))
            out.append(("hook:member-class-repeated-apart", "model", list(pool) + [copy.deepcopy(pool[0])], kw))
            out.append(("hook:member-class-repeated-apart", "model", [pool[0], pool[1], copy.deepcopy(pool[0])], kw))
            out.append(("hook:member-class-repeated-adjacent", "model", [pool[0], copy.deepcopy(pool[0])] + pool[1:], kw))
        if args:
            out.append(("hook:no-members", "model", [], kw))
            out.append(("hook:one-member", "model", [args[0]], kw))
        opt = [k for k, t in spec.items() if not getattr(t, "required", False) and not isinstance(t, (T.ListAggregate, T.ListElement, T.Unsupported))]
        for k in rng.sample(opt, min(3, len(opt))):
            m = dict(kw)
            if m.get(k) is not None:
                del m[k]; out.append(("hook:optional-dropped", "model", args, m))
            else:
                t = spec[k]
                v = H.gen_instance(ctx, t.__type__, rng, 1, 0.2) if isinstance(t, T.SubAggregate) else H.gen_value(ctx, t, rng)
                if v is not None:
                    m[k] = v; out.append(("hook:optional-added", "model", args, m))
    for kind, groups in (("opt", cls.optionalMutexes), ("req", cls.requiredMutexes)):
        for g in groups:
            live = [x for x in g if x in spec and not isinstance(spec[x], (T.ListAggregate, T.ListElement, T.Unsupported))]
            if len(live) < 2 or len(live) != len(g):
                continue
            # directed: a numeric member given as a native zero together with another member of its group, whatever the instance had
            import decimal as _dec0
            for num in [x for x in live if type(spec[x]) in (T.Decimal, T.Integer)]:
                o2 = rng.choice([x for x in live if x != num]); t2 = spec[o2]
                v2 = H.gen_instance(ctx, t2.__type__, rng, 1, 0.2) if isinstance(t2, T.SubAggregate) else H.gen_value(ctx, t2, rng)
                if v2 is None: continue
                m = {k: x for k, x in kw.items() if k not in live}
                m[num] = rng.choice([_dec0.Decimal("0"), _dec0.Decimal("0.00"), _dec0.Decimal("-0")]) if type(spec[num]) is T.Decimal else 0
                m[o2] = v2; out.append(("two-of-group-numeric-native-zero", "reject", args, m))
            have = [x for x in live if kw.get(x) is not None]
            if len(have) == 1:
                other = rng.choice([x for x in live if x not in have]); t = spec[other]
                v = H.gen_instance(ctx, t.__type__, rng, 1, 0.2) if isinstance(t, T.SubAggregate) else H.gen_value(ctx, t, rng)
                if v is None: continue
                m = dict(kw); m[other] = v; out.append(("two-of-group", "reject", args, m))
                if type(spec[have[0]]) in (T.String, T.NagString):      # a member that is blank text is still a member (only "" converts to None)
                    m = dict(kw); m[other] = v; m[have[0]] = rng.choice([" ", "\t", "\u00a0", "\u3000", " \n "]); out.append(("two-of-group-one-blank", "reject", args, m))
                # a member holding a native zero / False is still a member (seeded C04-14 counted falsy native values as absent)
                import decimal as _dec
                zeros = {T.Decimal: [_dec.Decimal("0"), _dec.Decimal("0.00"), _dec.Decimal("-0")], T.Integer: [0], T.Bool: [False]}
                for who in (have[0], other):
                    if type(spec[who]) in zeros:
                        m = dict(kw); m[other] = v; m[who] = rng.choice(zeros[type(spec[who])])
                        out.append(("two-of-group-one-native-zero", "reject", args, m))
                if kind == "req":
                    m = dict(kw); del m[have[0]]; out.append(("none-of-required-group", "reject", args, m))
                    # fixed finding (2370ade): the keyword route counted "" as a present member, which then converts to None
                    if not isinstance(spec[have[0]], T.SubAggregate) and type(spec[have[0]]) in (T.String, T.NagString, T.OneOf, T.Integer):
                        m = dict(kw); m[have[0]] = ""; out.append(("empty-string-group-member", "reject", args, m))
    return out


V2_HEAD = ('<?xml version="1.0" encoding="UTF-8" standalone="no"?>\r\n<?OFX OFXHEADER="200" VERSION="220" SECURITY="NONE" OLDFILEUID="NONE" NEWFILEUID="NONE"?>\r\n')
V1_HEAD = "OFXHEADER:100\r\nDATA:OFXSGML\r\nVERSION:160\r\nSECURITY:NONE\r\nENCODING:UNICODE\r\nCHARSET:NONE\r\nCOMPRESSION:NONE\r\nOLDFILEUID:NONE\r\nNEWFILEUID:NONE\r\n\r\n"


def front_doors(ctx, rep, tier):
    """the same constraints through the doors an APPLICATION uses: a whole response FILE (signon + account-information or profile message set)
    read by OFXTree.parse + convert and by ofxget's extract_acctinfos / extract_signoninfos.  A file in which one declared limit is violated must
    be refused by every door; the same file with the value exactly at its limit must be accepted with the value held.  Afterwards (some of the
    conversions above failed half-way) a violated limit is still refused by a direct conversion: nothing the doors do may switch the checks off.
    Own PRNG stream."""
    import io, os, random
    from ofxtools.Parser import OFXTree
    from ofxtools.scripts import ofxget
    M = ctx.M
    T = ctx.Types
    frng = random.Random("c04-doors-%s" % os.environ.get("VERIF_SEED", "20260101"))
    ok_status = lambda: M.STATUS(code=0, severity="INFO")

    def sonrs():
        return M.SIGNONMSGSRSV1(sonrs=M.SONRS(status=ok_status(), dtserver="20240102030405.678", language="ENG"))

    def bounded_leaves(e, out):
        cls = ctx.byname.get(e.tag)
        if cls is None:
            return
        for k in e:
            t = cls.spec.get(k.tag.lower())
            if e.tag == "STATUS" and k.tag in ("CODE", "SEVERITY"):
                continue        # ofxget's doors refuse a response whose status is not 0 for that reason: not a limit question
            if len(k) == 0 and k.text and t is not None and type(t) in (T.String, T.Integer, T.OneOf, T.Bool) and not (type(t) is T.String and t.length is None) \
               and not (type(t) is T.Integer and t.length is None):
                out.append((k, t))
            elif len(k):
                bounded_leaves(k, out)

    n_files = 0
    n = 24 if tier == "thorough" else 8
    for i in range(n):
        kind = "acctinfo" if i % 2 == 0 else "profile"
        body = H.gen_instance(ctx, ctx.byname["ACCTINFORS" if kind == "acctinfo" else "PROFRS"], frng, depth=3, full=0.8)
        if body is None:
            continue
        try:
            if kind == "acctinfo":
                ofx = M.OFX(signonmsgsrsv1=sonrs(), signupmsgsrsv1=M.SIGNUPMSGSRSV1(M.ACCTINFOTRNRS(trnuid="1", status=ok_status(), acctinfors=body)))
                extract = lambda b: list(ofxget.extract_acctinfos(io.BytesIO(b)))
                door2 = "ofxget.extract_acctinfos"
            else:
                ofx = M.OFX(signonmsgsrsv1=sonrs(), profmsgsrsv1=M.PROFMSGSRSV1(M.PROFTRNRS(trnuid="1", status=ok_status(), profrs=body)))
                extract = lambda b: list(ofxget.extract_signoninfos(io.BytesIO(b)))
                door2 = "ofxget.extract_signoninfos"
            tree = ofx.to_etree()
        except Exception as e:
            continue

        def parse_convert(b):
            t = OFXTree(); t.parse(io.BytesIO(b)); return t.convert()
        doors = [("OFXTree.parse+convert", parse_convert), (door2, extract)]
        clean = ET.tostring(tree, encoding="unicode", short_empty_elements=False)
        for head in (V2_HEAD, V1_HEAD):
            for name, door in doors:
                out = H.outcome(lambda: door((head + clean).encode("utf-8")))
                n_files += 1
                if out[0] != "ok":
                    rep.failures.append(C.Failure("door:%s:valid-file-rejected" % name, "%s refuses a valid %s response file: %s" % (name, kind, out[1]),
                                                  {"route": "door", "door": name, "file": (head + clean)[:6000]}))
        leaves = []
        bounded_leaves(tree, leaves)
        frng.shuffle(leaves)
        strs = [x for x in leaves if type(x[1]) is T.String]
        rest = [x for x in leaves if type(x[1]) is not T.String]
        k = 3 if tier == "thorough" else 2
        for leaf, t in strs[:k] + rest[:k - 1]:
            r = over_limit_text(ctx, t, frng)
            if not r:
                continue
            mk, viol, bound = r
            old = leaf.text
            for text, expect in ((viol, "reject"), (bound, "accept")):
                leaf.text = text.replace("&amp;", "&")      # the mutants are tree-level (wire) texts; ET.tostring escapes the ampersand again
                doc = ET.tostring(tree, encoding="unicode", short_empty_elements=False)
                head = frng.choice([V2_HEAD, V1_HEAD])
                data = (head + doc).encode("utf-8")
                for name, door in doors:
                    out = H.outcome(lambda: door(data))
                    n_files += 1
                    case = {"route": "door", "door": name, "leaf": leaf.tag, "mutation": mk if expect == "reject" else "boundary-" + mk, "file": (head + doc)[:6000]}
                    rep.count((name, data), nontrivial=True, kind="door:%s:%s:%s" % (name.split(".")[-1], case["mutation"], out[0]))
                    if expect == "reject" and out[0] == "ok":
                        rep.failures.append(C.Failure("door:%s:%s:accepted" % (name, mk), "%s accepts a %s response file whose <%s> violates its declared limit (%s): %r"
                                                      % (name, kind, leaf.tag, mk, text[:60]), case))
                    elif expect == "accept" and out[0] != "ok":
                        rep.failures.append(C.Failure("door:%s:boundary-%s:rejected" % (name, mk), "%s refuses a %s response file whose <%s> is exactly at its limit: %s" % (name, kind, leaf.tag, out[1]), case))
            leaf.text = old
    # the checks are still on after all that (a door that lowers a class-level switch and fails half-way must not leave it down)
    for what, fn in (("String(3).convert('abcd')", lambda: T.String(3).convert("abcd")), ("String(3).unconvert('abcd')", lambda: T.String(3).unconvert("abcd")),
                     ("STATUS(code=0, severity='INFO', message='x'*256)", lambda: M.STATUS(code=0, severity="INFO", message="x" * 256))):
        out = H.outcome(fn)
        if out[0] == "ok":
            rep.failures.append(C.Failure("door:limits-switched-off-afterwards", "after the response files above were read through the application's doors, %s is accepted" % what,
                                          {"route": "door", "after": "front doors", "call": what}))
    rep.extra["front_door_files"] = n_files



def run(rep, tier, rng):
    ctx = H.Ctx()
    if ctx.d["problems"]:
        rep.broken.append("translator not complete: %s" % ctx.d["problems"][:3])
    per_class = 4 if tier == "thorough" else 1
    items, meta = [], []
    titems, tmeta = [], []
    stats = {}

    def check_instance(inst, origin, replay):
        """independent validator over a returned instance + the model's validator on the same instance"""
        bad = validate(ctx, inst)
        items.append("CSat %s %s" % (H.enc_inst(ctx, inst), C.cbool(not bad))); meta.append({"what": "validator", "origin": origin})
        for b in bad[:3]:
            clause = b.split(":", 1)[1].split("[")[0]
            key = "instance-violates:%s:%s" % (origin, clause)
            rep.failures.append(C.Failure(key, "an instance built by %s violates its class declarations: %s" % (origin, b), replay))

    for cls in ctx.concrete:
        for _ in range(per_class):
            args, kw = H.gen_args(ctx, cls, rng, 2)
            base = H.outcome(lambda: cls(*args, **kw))
            if base[0] != "ok":
                continue
            obj = base[1]
            check_instance(obj, "kw:valid", {"route": "kw", "cls": cls.__name__})
            # ---------------- keyword route
            c, out = H.case_cons(ctx, cls, args, kw); items.append(c); meta.append({"what": "construct", "cls": cls.__name__, "mutation": "none"})
            rep.count(c, kind="kw:none:" + out[0])
            for name, expect, a2, k2 in kw_mutants(ctx, cls, args, kw, rng):
                c, out = H.case_cons(ctx, cls, a2, k2); items.append(c)
                desc = {"route": "kw", "cls": cls.__name__, "mutation": name, "kwargs": {k: repr(v)[:60] for k, v in k2.items()}, "args": [repr(a)[:60] for a in a2]}
                meta.append(dict(desc, what="construct", impl_ok=(out[0] == "ok")))
                rep.count(c, kind="kw:%s:%s" % (name, out[0]))
                stats[name] = stats.get(name, 0) + 1
                if expect == "reject" and out[0] == "ok":
                    if name == "empty-string-group-member":      # fixed finding (2370ade), watched under its own key
                        clauses = validate(ctx, out[1])
                        rep.failures.append(C.Failure("kw:empty-string-counts-as-group-member", "%s(%s=''): the keyword route counts '' as a present group member, the value converts to None and the instance has none of its required group (%s)" % (cls.__name__, [k for k, v in k2.items() if v == ''][0], clauses[:1]), desc))
                        continue
                    rep.failures.append(C.Failure("kw:%s:accepted" % name, "%s: keyword construction with mutation %s is accepted instead of rejected" % (cls.__name__, name), desc))
                elif expect == "accept" and out[0] != "ok":
                    rep.failures.append(C.Failure("kw:%s:rejected" % name, "%s: a value exactly at its limit (%s) is rejected: %s" % (cls.__name__, name, out[1]), desc))
                if out[0] == "ok":
                    check_instance(out[1], "kw:" + name, desc)
            # ---------------- tree route
            try:
                tree = obj.to_etree()
            except Exception:
                continue
            c, out, _ = H.case_from(ctx, tree); items.append(c); meta.append({"what": "from_etree", "cls": cls.__name__, "mutation": "none"})
            rep.count(c, kind="tree:none:" + out[0])
            if out[0] != "ok":
                continue      # the reader rejects the writer's output: C01/C13
            for name, expect, m in tree_mutants(ctx, cls, tree, rng):
                c, out, wt = H.case_from(ctx, m); items.append(c)
                if name.split("boundary-")[-1] in ("over-long", "over-limit", "over-limit-negative", "foreign-token"):
                    # the same document through the TYPED model (concrete converters of the C10 engine, no converter table): the limit clauses
                    # typed_limit_violation_rejected_tree / typed_at_limit_accepted are about this composition
                    try:
                        tb = {}
                        P01.dt_table_for_tree(ctx, m, tb)
                        ttb = "[" + ";".join("(%s,%s,%s)" % (C.cbool(k[0]), C.ctext(k[1]), P01.enc_res_pyval(o)) for k, o in tb.items()) + "]"
                        exp = H.enc_result(out, lambda i: "(%s,[%s])" % (P01.enc_pinst(ctx, i), ";".join(H.cs(t) for t in wt)))
                        titems.append("TFrom %s %s (%s)" % (ttb, H.enc_etree(m), exp)); tmeta.append({"what": "typed from_etree", "cls": cls.__name__, "mutation": name, "xml": ET.tostring(m).decode()[:3000]})
                        rep.count(titems[-1], kind="typed-tree:%s:%s" % (name, out[0]))
                    except ValueError:
                        pass
                desc = {"route": "tree", "cls": cls.__name__, "mutation": name, "xml": ET.tostring(m).decode()[:3000]}
                meta.append(dict(desc, what="from_etree", impl_ok=(out[0] == "ok")))
                rep.count(c, kind="tree:%s:%s" % (name, out[0]))
                stats[name] = stats.get(name, 0) + 1
                if expect == "reject" and out[0] == "ok":
                    rep.failures.append(C.Failure("tree:%s:accepted" % name, "%s: document with mutation %s is converted instead of rejected" % (cls.__name__, name), desc))
                elif expect == "accept" and out[0] != "ok":
                    rep.failures.append(C.Failure("tree:%s:rejected" % name, "%s: a value exactly at its limit (%s) is rejected: %s" % (cls.__name__, name, out[1]), desc))
                if out[0] == "ok":
                    check_instance(out[1], "tree:" + name, desc)
    # the classes whose groom renames a child (wire tag <-> attribute name): the renamed child present and repeated (watched: fixed finding)
    for r in ctx.d["raw"]:
        if not r.get("rename") or r["name"] not in ctx.byname:
            continue
        wire_tag, py_tag = r["rename"]
        cls = ctx.byname[r["name"]]
        obj = H.gen_instance(ctx, cls, rng, depth=1, full=0.5, force=py_tag.lower())
        if obj is None or obj.__dict__.get(py_tag.lower()) is None:
            continue
        tree = obj.to_etree()
        idx = [k for k, ch in enumerate(tree) if ch.tag == wire_tag]
        if not idx:
            continue
        for gap in (0, 1):
            m = copy.deepcopy(tree); m.insert(min(idx[0] + 1 + gap, len(m)), copy.deepcopy(m[idx[0]]))
            c, out, _ = H.case_from(ctx, m); items.append(c)
            desc = {"route": "tree", "cls": cls.__name__, "mutation": "duplicate-renamed-child", "xml": ET.tostring(m).decode()[:3000]}
            meta.append(dict(desc, what="from_etree", impl_ok=(out[0] == "ok")))
            rep.count(c, kind="tree:duplicate-renamed-child:%s" % out[0])
            stats["duplicate-renamed-child"] = stats.get("duplicate-renamed-child", 0) + 1
            if out[0] == "ok":
                rep.failures.append(C.Failure("tree:duplicate-renamed-child:accepted", "%s: document with a repeated <%s> is converted instead of rejected" % (cls.__name__, wire_tag), desc))
    # the converter hypotheses of construct_sound_any_kw, on every REAL element converter: "" never converts to a value, and is refused
    # where the element is required
    for cls in ctx.concrete:
        for k, t in cls.spec.items():
            if isinstance(t, (ctx.Types.Unsupported, ctx.Types.SubAggregate)) or not isinstance(t, ctx.Types.Element):
                continue
            conv = t.converter if isinstance(t, ctx.Types.ListElement) else t
            o = H.outcome(conv.convert, "")
            stats["converter-on-empty-string"] = stats.get("converter-on-empty-string", 0) + 1
            if o[0] == "ok" and o[1] is not None:
                rep.broken.append("hypothesis conv_empty_never_value not met by %s.%s: convert('') = %r" % (cls.__name__, k, o[1]))
            if o[0] == "ok" and o[1] is None and getattr(conv, "required", False):
                rep.broken.append("hypothesis conv_required_refuses_empty not met by %s.%s: a required element converts '' to None" % (cls.__name__, k))
    rep.extra["mutations_applied"] = stats
    for m in [x for x in meta if x.get("mutation") not in (None, "none")][:4]:
        rep.sample(m)
    rep.rule = ("every concrete class x %d valid argument set(s); both routes; mutations: omit required, required=None, unknown keyword, foreign / str list member, wrong sub-aggregate class, "
                "over-long string, over-limit integer, foreign token (+ the value exactly at the limit, which must be accepted), two of a group, none of a required group, "
                "duplicate child, swapped children; every instance returned anywhere is run through the independent validator (python) and the model's validator (Coq). "
                "non-trivial = all cases; distinct by case text" % per_class)
    front_doors(ctx, rep, tier)
    bad = C.coq_bad_indices(PROP, "mutants", IMPORTS, "ccase_ok S", "ccase", items, shard=200, prelude="Local Open Scope string_scope.")
    for i in bad[:30]:
        rep.disagreements.append(dict(meta[i], case=items[i][:1500]))
    # search for a failing input among the disagreements: the implementation built an instance although the modelled constraints
    # (class table + validate_args hooks, validated against the pinned source) refuse the input
    cand = [i for i in bad if meta[i].get("impl_ok") and meta[i].get("mutation") not in (None, "none")]
    if cand:
        rej = C.coq_bad_indices(PROP, "rejects", IMPORTS, "fun c => negb (ccase_model_rejects S c)", "ccase", [items[i] for i in cand], shard=200, prelude="Local Open Scope string_scope.")
        for j in rej[:20]:
            m = meta[cand[j]]
            rep.failures.append(C.Failure("%s:%s:accepted-though-modelled-constraints-refuse" % (m.get("route"), m.get("mutation")),
                                          "%s: the %s route accepts an input (mutation %s) that the class's constraints as modelled refuse" % (m.get("cls"), m.get("route"), m.get("mutation")), m))
    bad = C.coq_bad_indices(PROP, "typedlimits", P01.TIMPORTS, "tcase_ok ety_table S", "tcase", titems, shard=150, prelude="Local Open Scope string_scope.")
    for i in bad[:30]:
        rep.disagreements.append(dict(tmeta[i], case=titems[i][:1500]))


def replay(obj):
    C.use_repo()
    ctx = H.Ctx()
    r = obj["replay"]
    if r.get("route") == "tree" and "xml" in r:
        out, _ = H.run_from_etree(ctx, ET.fromstring(r["xml"]))
        print("replay: from_etree ->", out[0], out[1] if out[0] != "ok" else validate(ctx, out[1]))
        bad = out[0] == "ok" and (not r["mutation"].startswith("boundary") ) or (out[0] != "ok" and r["mutation"].startswith("boundary"))
    elif r.get("route") == "door" and "file" in r:
        import io
        from ofxtools.Parser import OFXTree
        from ofxtools.scripts import ofxget
        data = r["file"].encode("utf-8")
        def parse_convert(b):
            t = OFXTree(); t.parse(io.BytesIO(b)); return t.convert()
        door = {"OFXTree.parse+convert": parse_convert, "ofxget.extract_acctinfos": lambda b: list(ofxget.extract_acctinfos(io.BytesIO(b))),
                "ofxget.extract_signoninfos": lambda b: list(ofxget.extract_signoninfos(io.BytesIO(b)))}[r["door"]]
        out = H.outcome(lambda: door(data))
        print("replay: %s on the recorded file (<%s> %s) -> %s" % (r["door"], r.get("leaf"), r.get("mutation"), out[0] if out[0] == "ok" else out))
        m = r.get("mutation") or "boundary"
        bad = (out[0] == "ok") != m.startswith("boundary")
    elif r.get("route") == "door":
        print("replay: rerun bin/check C04 (the limit probes after the front-door stream):", r.get("call")); return 2
    else:
        print("replay of keyword-route cases: rerun bin/check C04 (arguments are generated objects); mutation:", r.get("mutation"), r.get("kwargs"))
        return 2
    if bad:
        print("VIOLATION property=C04 replay=(this file)")
    return 1 if bad else 0
