"""C02 - all wire renderings of one OFX body parse to the same, faithful element tree
(ofxtools/Parser.py: TreeBuilder.regex, feed, _feedmatch, _start, _groomstring).

Also home of the pieces shared with C08 (document / rendering generators, the independent reference reader, the
implementation runner, Coq encoders) and of the Serialize engine's byte-exact correspondence run."""
import io, itertools, json, os, glob, importlib
from .. import common as C
from ..translate_sgml import gen_sgml, repo_variant

PROP = "C02"
COQ_EXTRA = ["theories/Model/SgmlCases.vo", "theories/Gen/SgmlGen.vo", "theories/Model/SerializeCases.vo"]
PARTIAL = [
    "decoding of the body and header handling belong to C05/C12: the theorems start from the body text (str) handed to TreeBuilder.feed",
    "a data element written without end tag as the LAST child of an aggregate of the same name (<T><T>x</T>) is inherently ambiguous in SGML "
    "and excluded by ok_rendering (no OFX aggregate contains an element of its own name)",
    "Serialize lemmas are about the code-point text of the writers (html_text / unclosed_text); the UTF-8 layer is the subject of utf8_layer_roundtrip "
    "for Unicode scalar text (both writers' encoders agree, the reader's strict decoder returns the text; lone surrogates - written as character references by ET.tostring, refused "
    "by the other writer - are outside it) and is compared byte for byte with the implementation by the correspondence run; unclosed_is_render needs element text escaped (repair C11-3)",
]
MANIFEST = {
    "engine": "Sgml",
    "text": "Theorem parse_render_faithful: for EVERY document over the OFX tag alphabet (non-empty trimmed '<'-free leaf data, empty aggregates "
            "included) and EVERY rendering (arbitrary isspace text before/after every tag and around data, leaf end tag present or omitted, data "
            "plain or CDATA-wrapped) the model of TreeBuilder.feed/close returns exactly the document's tree; corollaries: all renderings agree, "
            "tree_of is injective, empty aggregates survive; scan_skip is the finditer skip-counter lemma.  The Gallina scanner/builder is tied to "
            "Parser.py by evaluating it (vm_compute) on the same texts as the implementation: small documents x rendering choices, large random "
            "documents, every string up to a length bound over the token alphabet and token sequences (scanner groups compared with re), and an "
            "independent reference reader written from the wire syntax is compared with the library's tree on every rendering. file_parse_faithful_v1/_v2 carry "
            "the theorem to the BYTES of a file (any tolerated header, the declared codec: composition with C05's parse_header_exact), and the front-door "
            "stream reads such files with OFXTree.parse and compares with TreeBuilder on the body.",
    "note": "Trusted: Coq kernel + vm_compute; the hand transcription Model/Sgml.v of regex+feed+C TreeBuilder (validated by correspondence only, "
            "incl. exhaustive short strings against re.finditer); the whitespace table regenerated from the interpreter; normalised-AST hashes of the transcribed functions are tripwires only (a changed hash triggers a wider search, "
            "not a failure); fail-closed are the regex variant, methods added to/overriding xml.etree's TreeBuilder, and what OFXTree.parse/_read call. parse_render_faithful holds for every "
            "configuration with the repaired regex (fix e7395eb), whatever the builder; obligation source_is_repaired_variant ties /repo's regex to that variant.",
}

TAGCH = "ABCDEFGHIJKLMNOPQRSTUVWXYZ0123456789._"
SPACES = [chr(c) for c in (9, 10, 11, 12, 13, 28, 29, 30, 31, 32, 133, 160, 5760, 8192, 8193, 8194, 8195, 8196, 8197, 8198, 8199, 8200,
                           8201, 8202, 8232, 8233, 8239, 8287, 12288)]


def translate():
    return gen_sgml()


# =====================================================================================================
# documents, renderings (what the OFX wire syntax allows), rendering to text
#   doc  = ("agg", tag, [doc...]) | ("leaf", tag, data)
#   rdoc = ("agg", tag, ws1, [rdoc...], ws2) | ("leaf", tag, cdata?, w1, data, w2, endtag?, w3)
#   text = ws0 + render(rdoc);   <T> ws1 children </T> ws2   /   <T> w1 data w2 [</T>] w3   /   <T> w1 <![CDATA[data]]> w2 [</T>] w3
# =====================================================================================================
def tree_of(d):
    if d[0] == "agg":
        return (d[1], None, [tree_of(c) for c in d[2]])
    return (d[1], d[2], [])


def erase(rd):
    if rd[0] == "agg":
        return ("agg", rd[1], [erase(c) for c in rd[3]])
    return ("leaf", rd[1], rd[4])


def tokens_of(rd, out=None):
    """flat token list: ("open", t, ws) ("empty", t, ws1, ws2) ("leaf", t, cd, w1, x, w2, end, w3) ("close", t, ws)"""
    out = [] if out is None else out
    if rd[0] == "leaf":
        out.append(rd)
    elif not rd[3]:
        out.append(("empty", rd[1], rd[2], rd[4]))
    else:
        out.append(("open", rd[1], rd[2]))
        for c in rd[3]:
            tokens_of(c, out)
        out.append(("close", rd[1], rd[4]))
    return out


def render_tok(t):
    k = t[0]
    if k == "open":
        return "<%s>%s" % (t[1], t[2])
    if k == "empty":
        return "<%s>%s</%s>%s" % (t[1], t[2], t[1], t[3])
    if k == "close":
        return "</%s>%s" % (t[1], t[2])
    if k == "leaf":
        _, tag, cd, w1, x, w2, end, w3 = t
        mid = "<![CDATA[%s]]>" % x if cd else x
        return "<%s>%s%s%s%s%s" % (tag, w1, mid, w2, "</%s>" % tag if end else "", w3)
    if k == "raw":
        return t[1]
    raise ValueError(k)


def render(rd, ws0=""):
    return ws0 + "".join(render_tok(t) for t in tokens_of(rd))


def ambiguous(rd):
    """a leaf without end tag that is the last child of an aggregate of the same name"""
    if rd[0] == "leaf":
        return False
    ch = rd[3]
    if ch and ch[-1][0] == "leaf" and ch[-1][1] == rd[1] and not ch[-1][6]:
        return True
    return any(ambiguous(c) for c in ch)


def cdata_ok(x):
    return "&" not in x and "]]>" not in x


def data_ok(x):
    return x != "" and x == x.strip() and "<" not in x


# ---------------------------------------------------------------- generators
DATA_POOL = ["x", "1", "20051029101003.000[-5:EST]", "a b", "a\nb", "a  \r\n b", "&amp;", "AT&amp;T", "a&lt;b", ">", "a>b", "]", "]]", "x]]", "]]>", "a]]>b",
             "/", "</", "-12.50", "été", "中文", "\U0001f4a9", "![CDATA[", "a=b;c", "0", "'\"", "A", "/A"]
# element data the tree must carry unchanged: sequences that Unicode normalisation (NFC/NFKC), case folding or a narrower notion of blank would alter
WIDE_DATA = ["Cafe\u0301", "Caf\u00e9", "\u1100\u1161\u11a8", "\ud55c", "\u212b", "\u2126", "\u212a", "a\u0307\u0323", "a\u0323\u0307", "\ufa10", "\ufb01", "\u00b5",
             "\U0001d11e", "\U0001f4b0 1,000", "a\u00a0b", "a\u3000b", "a\u2003\u2028b", "\u200bx", "x\u200b", "\ufeffx", "\u0645\u0631\u062d\u0628\u0627", "\u05e9\u05dc\u05d5\u05dd",
             "\u0e2a\u0e27\u0e31\u0e2a\u0e14\u0e35", "\u65e5\u672c\u8a9e", "\uff21\uff22", "\u017fi\u0131\u0130", "stra\u00dfe", "e\u0301\u0301", "\u0041\u030a", "\u1e9b\u0323",
             "x\u0085y", "x\x1cy", "\x7f", "\x01"]
# entity references and look-alikes: the tree carries them as written (still escaped); nothing is resolved, nothing is escaped again
ENTITY_DATA = ["&amp;", "&lt;", "&gt;", "&quot;", "&apos;", "&nbsp;", "&#38;", "&#x26;", "&#60;", "&amp;amp;", "&amp;lt;", "&amp;#38;", "&", "&&", "& x", "a & b", "AT&T", "AT&amp;T",
               "&amp", "&amp ;", "&AMP;", "&lt;b&gt;bold&lt;/b&gt;", "1 &lt; 2 &amp;&amp; 3 &gt; 2", "&;", "&#;", "&#xD;", "x&#10;y", "&copy; 2024", "%26amp%3B", "&amp;&lt;&gt;&quot;&apos;"]
TAG_POOL = ["A", "B", "OFX", "STMTTRN", "CODE", "A.B", "_", "1", "X1", "INV401K", "A_B", "Z9.", "SCRIPT", "BR", "LINK", "META"]


def rand_ws(rng, big=False):
    r = rng.random()
    if r < 0.35:
        return ""
    if r < 0.55:
        return rng.choice([" ", "\n", "\r\n", "\t", "\n  ", "\r\n    "])
    if r < 0.9:
        return "".join(rng.choice(" \n\r\t") for _ in range(rng.randint(1, 6 if big else 3)))
    return "".join(rng.choice(SPACES) for _ in range(rng.randint(1, 3)))


def rand_tag(rng):
    if rng.random() < 0.7:
        return rng.choice(TAG_POOL)
    return "".join(rng.choice(TAGCH) for _ in range(rng.randint(1, 8)))


def rand_data(rng):
    r = rng.random()
    if r < 0.45:
        return rng.choice([x for x in DATA_POOL if data_ok(x)])
    if r < 0.52:
        x = rng.choice(ENTITY_DATA)
        return x if data_ok(x) else "&amp;"
    if r < 0.62:
        x = rng.choice(WIDE_DATA)
        if rng.random() < 0.4:
            x = x + rng.choice([" ", "\u00a0", "\u3000", ""]) + rng.choice(WIDE_DATA)
        return x if data_ok(x) else "x"
    alpha = "ab1 &;>]/[!-.\n\t\u00e9 " if r < 0.85 else ("xy]>&" if r < 0.93 else "e\u0301\u0323\u00a0\u3000\u212bK\u1161\u1100a")
    for _ in range(20):
        x = "".join(rng.choice(alpha) for _ in range(rng.randint(1, 10))).strip()
        if data_ok(x):
            return x
    return "x"


def rand_doc(rng, nodes, depth, tags=None, root=True):
    """random doc with at most `nodes` nodes; the root is an aggregate when root=True"""
    tg = (lambda: rng.choice(tags)) if tags else (lambda: rand_tag(rng))
    if not root and (nodes <= 1 or depth <= 0 or rng.random() < 0.55):
        if rng.random() < 0.12:
            return ("agg", tg(), [])
        return ("leaf", tg(), rand_data(rng))
    budget = nodes - 1
    ch = []
    while budget > 0 and (rng.random() < 0.85 or not ch):
        n = rng.randint(1, max(1, budget // 2 + 1))
        c = rand_doc(rng, n, depth - 1, tags, root=False)
        ch.append(c)
        budget -= size(c)
    return ("agg", tg(), ch)


def size(d):
    return 1 + (sum(size(c) for c in d[2]) if d[0] == "agg" else 0)


def rand_rendering(rng, d, style=None, big=False):
    """style: None = free mixture; "xml" all end tags no blanks; "sgml" no leaf end tags; "pretty" newline+indent"""
    if d[0] == "agg":
        ch = [rand_rendering(rng, c, style, big) for c in d[2]]
        if style in ("xml", "sgml"):
            ws1 = ws2 = ""
        elif style == "pretty":
            ws1 = ws2 = "\n  "
        else:
            ws1, ws2 = rand_ws(rng, big), rand_ws(rng, big)
        rd = ("agg", d[1], ws1, ch, ws2)
        if ch and ch[-1][0] == "leaf" and ch[-1][1] == d[1] and not ch[-1][6]:
            c = ch[-1]
            ch[-1] = c[:6] + (True,) + c[7:]
        return rd
    x = d[2]
    if style == "xml":
        return ("leaf", d[1], False, "", x, "", True, "")
    if style == "sgml":
        return ("leaf", d[1], False, "", x, "", False, "")
    if style == "pretty":
        return ("leaf", d[1], False, "", x, "", rng.random() < 0.5, "\n  ")
    cd = cdata_ok(x) and rng.random() < 0.3
    return ("leaf", d[1], cd, rand_ws(rng), x, rand_ws(rng), rng.random() < 0.5, rand_ws(rng, big))


def small_docs(tags=("A", "B"), datas=("x", "y z"), max_nodes=3):
    """all documents with at most max_nodes nodes"""
    def docs(n):          # exactly n nodes
        if n == 1:
            for t in tags:
                yield ("agg", t, [])
                for x in datas:
                    yield ("leaf", t, x)
            return
        for t in tags:
            for ch in forests(n - 1):
                yield ("agg", t, ch)

    def forests(n):       # non-empty lists of docs with n nodes in total
        for k in range(1, n + 1):
            for d in docs(k):
                if k == n:
                    yield [d]
                else:
                    for rest in forests(n - k):
                        yield [d] + rest
    for n in range(1, max_nodes + 1):
        yield from docs(n)


def all_renderings(d, wss):
    if d[0] == "agg":
        chs = itertools.product(*[list(all_renderings(c, wss)) for c in d[2]])
        for ch in chs:
            for ws1 in wss:
                for ws2 in wss:
                    rd = ("agg", d[1], ws1, list(ch), ws2)
                    if not ambiguous(rd):
                        yield rd
        return
    for cd in ((False, True) if cdata_ok(d[2]) else (False,)):
        for w1 in wss:
            for w2 in wss:
                for end in (False, True):
                    for w3 in wss:
                        yield ("leaf", d[1], cd, w1, d[2], w2, end, w3)


# =====================================================================================================
# independent reference reader of the OFX wire syntax (oracle; written from the syntax, not from the regex)
#   markup  := blanks element blanks
#   element := "<" NAME ">" content ;  NAME over A-Z 0-9 . _
#   content := character data (text and/or CDATA sections; what remains after trimming is the value) [ "</" NAME ">" ]     -- data element
#            | blanks { element blanks } "</" NAME ">"                                                                    -- aggregate
# anything else is malformed.
# =====================================================================================================
class Malformed(Exception):
    pass


def ref_tokens(s):
    toks, i, n = [], 0, len(s)
    while i < n:
        if s[i] == "<":
            if s.startswith("<![CDATA[", i):
                j = s.find("]]>", i + 9)
                if j < 0:
                    raise Malformed("unterminated CDATA section")
                toks.append(("cdata", s[i + 9:j])); i = j + 3
                continue
            j = s.find(">", i)
            if j < 0:
                raise Malformed("unterminated tag")
            inner = s[i + 1:j]
            end = inner.startswith("/")
            name = inner[1:] if end else inner
            if not name or any(c not in TAGCH for c in name):
                raise Malformed("not a tag: <%s>" % inner)
            toks.append(("end" if end else "start", name)); i = j + 1
        else:
            j = s.find("<", i)
            j = n if j < 0 else j
            toks.append(("text", s[i:j])); i = j
    return toks


def ref_parse(s):
    """-> (tag, text|None, [children]); raises Malformed"""
    toks = ref_tokens(s)
    pos = [0]

    def peek():
        return toks[pos[0]] if pos[0] < len(toks) else ("eof", None)

    def blanks():
        while peek()[0] == "text" and peek()[1].strip() == "":
            pos[0] += 1

    def element():
        k, name = peek()
        if k != "start":
            raise Malformed("start tag expected, found %r" % (peek(),))
        pos[0] += 1
        pieces = []
        while peek()[0] in ("text", "cdata"):
            pieces.append(peek()[1]); pos[0] += 1
        data = "".join(pieces).strip()
        if data:
            if peek() == ("end", name):
                pos[0] += 1
            return (name, data, [])
        ch = []
        while True:
            blanks()
            k2, v2 = peek()
            if k2 == "start":
                ch.append(element())
            elif (k2, v2) == ("end", name):
                pos[0] += 1
                return (name, None, ch)
            else:
                raise Malformed("in <%s>: unexpected %r" % (name, peek()))
    blanks()
    root = element()
    blanks()
    if pos[0] != len(toks):
        raise Malformed("after the top-level element: %r" % (peek(),))
    return root


# =====================================================================================================
# the implementation
# =====================================================================================================
def elem_to_tuple(e):
    extra = None
    if e.tail is not None or e.attrib:
        extra = (e.tail, dict(e.attrib))
    t = (e.tag, e.text, [elem_to_tuple(c) for c in e])
    return t if extra is None else t + (extra,)


def classify_exc(e):
    return "reject" if isinstance(e, (SyntaxError, ValueError, TypeError)) else "crash"


def impl_parse(P, s):
    """TreeBuilder().feed(s); close()  ->  ("ok", tree|None) | ("reject"|"crash", exception class)"""
    b = P.TreeBuilder()
    try:
        b.feed(s)
        r = b.close()
    except Exception as e:
        return (classify_exc(e), type(e).__name__)
    return ("ok", None if r is None else elem_to_tuple(r))


HEADERS = None


def impl_ofxtree(P, s, version=102):
    """OFXTree().parse(header + body) -> same outcome classes (body must be ASCII)"""
    global HEADERS
    if HEADERS is None:
        from ofxtools.header import make_header
        HEADERS = {v: bytes(str(make_header(version=v)), "ascii") for v in (102, 203)}
    t = P.OFXTree()
    try:
        if not s.isascii():
            version = 203                      # OFXv2 bodies are UTF-8
        r = t.parse(io.BytesIO(HEADERS[version] + s.encode("utf_8" if version >= 200 else "ascii")))
    except Exception as e:
        return (classify_exc(e), type(e).__name__)
    return ("ok", None if r is None else elem_to_tuple(r))


# ---------------------------------------------------------------- the front door: OFXTree.parse on the bytes of a file
V1_HEADER = ("OFXHEADER:100\r\nDATA:OFXSGML\r\nVERSION:102\r\nSECURITY:NONE\r\nENCODING:%s\r\nCHARSET:%s\r\nCOMPRESSION:NONE\r\n"
             "OLDFILEUID:NONE\r\nNEWFILEUID:NONE\r\n\r\n")
V2_HEADER = ('<?xml version="1.0" encoding="UTF-8" standalone="no"?>\r\n'
             '<?OFX OFXHEADER="200" VERSION="220" SECURITY="NONE" OLDFILEUID="NONE" NEWFILEUID="NONE"?>\r\n')
DOORS = {"v1/CHARSET:1252": (V1_HEADER % ("USASCII", "1252"), "cp1252"), "v1/CHARSET:ISO-8859-1": (V1_HEADER % ("USASCII", "ISO-8859-1"), "latin_1"),
         "v1/CHARSET:NONE": (V1_HEADER % ("UNICODE", "NONE"), "utf_8"), "v2": (V2_HEADER, "utf_8")}


def file_bytes(door, body):
    """header + body in the codec the header declares, or None when the body has no spelling in that codec"""
    hdr, codec = DOORS[door]
    try:
        b = body.encode(codec)
        if b.decode(codec) != body:
            return None
    except UnicodeError:
        return None
    return hdr.encode("ascii") + b


def impl_front(P, door, body, by_name=False):
    """OFXTree().parse(file) with the default parser -> outcome classes of impl_parse; None when the door cannot carry the body"""
    data = file_bytes(door, body)
    if data is None:
        return None
    t = P.OFXTree()
    try:
        if by_name:
            import tempfile
            with tempfile.NamedTemporaryFile(suffix=".ofx", delete=False) as f:
                f.write(data)
            try:
                r = t.parse(f.name)
            finally:
                os.unlink(f.name)
        else:
            r = t.parse(io.BytesIO(data))
    except Exception as e:
        return (classify_exc(e), type(e).__name__)
    return ("ok", None if r is None else elem_to_tuple(r))


def impl_matches(P, s):
    out = []
    for m in P.TreeBuilder.regex.finditer(s):
        g = m.groupdict()
        out.append((g["tag"], g["cdata"] or "", g["text"] or "", g["closetag"] is not None, g["tail"] or ""))
    return out


# ---------------------------------------------------------------- Coq terms
def coq_tree(t):
    if len(t) == 4:      # tail / attributes present: never equal to a model tree
        return "Node [1114112] None []"
    return "Node %s %s %s" % (C.ctext(t[0]), C.copt(t[1], C.ctext), C.clist([coq_tree(c) for c in t[2]]))


def coq_outcome(out):
    if out[0] == "ok":
        return "OK None" if out[1] is None else "OK (Some (%s))" % coq_tree(out[1])
    return "Err Reject" if out[0] == "reject" else "Err Crash"


def coq_pcase(s, out):
    return "PCase %s (%s)" % (C.ctext(s), coq_outcome(out))


def coq_mcase(s, ms, out):
    mm = C.clist(["(%s,%s,%s,%s,%s)" % (C.ctext(a), C.ctext(b), C.ctext(c), C.cbool(d), C.ctext(e)) for (a, b, c, d, e) in ms])
    return "MCase %s %s (%s)" % (C.ctext(s), mm, coq_outcome(out))


def coq_cfg(v):
    return "{| cdata_lazy := %s; checked := %s |}" % (C.cbool(v["cdata_lazy"]), C.cbool(v["checked"]))


SGML_IMPORTS = ["Base.SgmlBase", "Model.Sgml", "Model.SgmlCases"]


def coq_bad(prop, name, imports, ok, ty, items, shard):
    """C.coq_bad_indices in a directory of this process's own (two concurrent runs of one check must not share case files)"""
    import shutil
    own = "%s-%d" % (name, os.getpid())
    try:
        try:
            return C.coq_bad_indices(prop, own, imports, ok, ty, items, shard=shard)
        except RuntimeError:
            # a coqc child that died without output (killed, out of memory on an overloaded machine) says nothing about model or code: evaluate once more
            return C.coq_bad_indices(prop, own + "r", imports, ok, ty, items, shard=shard)
    finally:
        shutil.rmtree(os.path.join(C.BUILD, "cases", prop, own), ignore_errors=True)
        shutil.rmtree(os.path.join(C.BUILD, "cases", prop, own + "r"), ignore_errors=True)


def correspond(rep, name, variant, texts, P, with_matches=False, shard=1500, what=None):
    """model (vm_compute) vs TreeBuilder on the given texts; appends disagreements; returns the implementation outcomes"""
    seen, uniq = set(), []
    for s in texts:
        if s not in seen:
            seen.add(s); uniq.append(s)
    outs = [impl_parse(P, s) for s in uniq]
    if with_matches:
        items = [coq_mcase(s, impl_matches(P, s), o) for s, o in zip(uniq, outs)]
        ok, ty = "mcase_ok %s" % coq_cfg(variant), "mcase"
    else:
        items = [coq_pcase(s, o) for s, o in zip(uniq, outs)]
        ok, ty = "pcase_ok %s" % coq_cfg(variant), "pcase"
    import time
    t0 = time.time()
    bad = coq_bad(rep.prop, name, SGML_IMPORTS, ok, ty, items, shard)
    rep.extra.setdefault("phase_s", {})["coq:" + name] = round(time.time() - t0, 1)
    for i in bad[:40]:
        rep.disagreements.append({"run": name, "text": uniq[i], "implementation": outs[i],
                                  "matches": impl_matches(P, uniq[i]) if with_matches else None})
    return dict(zip(uniq, outs))


def deep_strings(rng, tier, deep):
    """the deep setting: (a) every string up to a length bound over a small character alphabet, (b) every sequence of a few
    tokens; where regex backtracking differences between the hand-written scanner and `re` would show"""
    out = []
    n_char = 6 if (tier == "thorough") else (5 if deep else 4)
    for alpha, n in (("<>/A x", n_char), ("<>A]\n ", n_char - 1 if tier != "thorough" else n_char)):
        for l in range(n + 1):
            for t in itertools.product(alpha, repeat=l):
                out.append("".join(t))
    toks = ["<A>", "<B>", "</A>", "</B>", "x", " ", "\n", "<![CDATA[", "]]>", "<![CDATA[y]]>", "<A B>", "<a>", "<A/>", "]", "<", ">", "</C>", "y z"]
    n_tok = 4 if tier == "thorough" else 3
    base = toks if (deep or tier == "thorough") else toks[:14]
    for l in range(1, n_tok + 1):
        for t in itertools.product(base, repeat=l):
            out.append("".join(t))
    extra = 400000 if tier == "thorough" else (20000 if deep else 5000)
    for _ in range(extra):
        l = rng.randint(n_tok + 1, 9)
        out.append("".join(rng.choice(toks) for _ in range(l)))
    return out


# =====================================================================================================
def shape_only(t):
    return (t[0], t[1] is not None, [shape_only(c) for c in t[2]])


def classify_c02(rd, text, out):
    """name of the defect a failing rendering exhibits (key of known_findings)"""
    want = tree_of(erase(rd))
    if out[0] == "ok" and out[1] is not None and len(out[1]) == 3 and shape_only(out[1]) == shape_only(want):
        return "element-data-altered"          # same tags, nesting and order; some element's text is not the document's
    toks = tokens_of(rd)
    cds = [t for t in toks if t[0] == "leaf" and t[2]]
    if cds:
        if any("\n" in t[4] for t in cds):
            return "cdata:body-spans-lines"
        if any(t[3] or (t[5] and t[6]) for t in cds):
            return "cdata:blanks-between-tag-and-section"
        for line in text.split("\n"):
            if line.count("<![CDATA[") >= 2:
                return "cdata:two-sections-on-one-line"
        return "cdata:other"
    return "tree-differs"


def close_all(rd):
    """the same rendering with every data element's end tag written"""
    if rd[0] == "agg":
        return ("agg", rd[1], rd[2], [close_all(c) for c in rd[3]], rd[4])
    return rd[:6] + (True,) + rd[7:]


def uncdata(rd):
    if rd[0] == "agg":
        return ("agg", rd[1], rd[2], [uncdata(c) for c in rd[3]], rd[4])
    return rd[:2] + (False,) + rd[3:]


def load_corpus(prop):
    out = []
    for p in sorted(glob.glob(os.path.join(C.VERIF, "corpus", prop, "*.json"))):
        obj = json.load(open(p, encoding="utf-8"))
        for c in (obj if isinstance(obj, list) else [obj]):
            c["_file"] = os.path.basename(p)
            out.append(c)
    return out


def tuple_tree(x):
    """JSON tree [tag, text, [children]] -> tuple form"""
    return (x[0], x[1], [tuple_tree(c) for c in x[2]])


def run(rep, tier, rng):
    import ofxtools.Parser as P
    importlib.reload(P)
    variant = repo_variant()
    thorough = tier == "thorough"
    deep = thorough or not variant["known"]
    rep.extra["source_variant"] = {k: variant[k] for k in ("cdata_lazy", "checked", "known", "source_changes", "source_problems")}
    import time
    rep.extra.setdefault("phase_s", {})["translate+build(incl. lock wait)"] = round(time.time() - rep.t0, 1)
    fails = rep.failures
    texts = []            # everything that goes to the model as well

    def fail(key, what, **replay):
        fails.append(C.Failure(key, what, replay))

    first_out = {}

    def check_rendering(rd, ws0, kind):
        """property predicate on the implementation for one in-domain rendering"""
        s = render(rd, ws0)
        want = tree_of(erase(rd))
        try:
            ref = ref_parse(s)
        except Malformed as e:
            raise RuntimeError("harness: reference reader rejects a generated rendering %r: %s" % (s, e))
        if ref != want:
            raise RuntimeError("harness: reference reader disagrees with the generator on %r" % (s,))
        out = impl_parse(P, s)
        texts.append(s)
        first_out[s] = (out, want)
        rep.count(s, nontrivial=(out[0] == "ok"), kind=kind)
        if out != ("ok", want):
            key = classify_c02(rd, s, out)
            if key.startswith("cdata:"):
                # is CDATA wrapping the cause at all?  the same rendering with every data element written plainly
                plain = uncdata(rd)
                if impl_parse(P, render(plain, ws0)) != ("ok", want):
                    key = "tree-differs"
            fail(key, "TreeBuilder on %r -> %r; the document's tree is %r" % (s[:200], out if out[0] != "ok" else "a different tree", want if len(s) < 200 else "..."),
                 text=s, expected=want, observed=out)
        return s, out

    # ---------------- corpus first ----------------
    for c in load_corpus("C02"):
        s = c["text"]
        out = impl_parse(P, s)
        texts.append(s)
        rep.count(s, nontrivial=(out[0] == "ok"), kind="corpus")
        if "tree" in c:
            want = tuple_tree(c["tree"])
            if out != ("ok", want):
                dflt = "element-data-altered" if (out[0] == "ok" and out[1] is not None and len(out[1]) == 3 and shape_only(out[1]) == shape_only(want)) else "corpus:" + c["_file"]
                fail(c.get("key", dflt), "TreeBuilder on %r -> %r; expected tree %r (%s)" % (s, out, want, c.get("note", "")),
                     text=s, expected=want, observed=out)

    # ---------------- small documents x rendering choices ----------------
    wss = ["", " ", "\n", "\r\n  "]
    docs = list(small_docs(max_nodes=3 if not thorough else 4))
    per_doc = 60 if thorough else 14
    for d in docs:
        n1 = size(d)
        if n1 <= (2 if thorough else 1):
            rds = list(all_renderings(d, wss))
            if len(rds) > 6000:
                rds = rng.sample(rds, 6000)
        else:
            rds = []
            for _ in range(per_doc):
                rd = rand_rendering(rng, d)
                rd = restrict_ws(rng, rd, wss)
                rds.append(rd)
            for st in ("xml", "sgml", "pretty"):
                rds.append(rand_rendering(rng, d, st))
        for rd in rds:
            if ambiguous(rd):
                continue
            check_rendering(rd, rng.choice(wss), "small")
    # two CDATA leaves side by side, multi-line CDATA bodies, every blank combination (the adjacency the fixed test samples cannot reach)
    for (x, y) in (("x", "y"), ("a\nb", "c"), ("a b", "]]")):
        for w in wss:
            for w2 in wss:
                for e1 in (False, True):
                    for e2 in (False, True):
                        rd = ("agg", "R", "", [("leaf", "A", True, "", x, "", e1, w), ("leaf", "B", True, w2, y, "", e2, "")], "")
                        check_rendering(rd, "", "cdata-adjacent")

    # ---------------- the data alphabet: every listed datum, plain and CDATA-wrapped, with and without end tag, padded with blanks ----------------
    for x in WIDE_DATA + ENTITY_DATA + [y for y in DATA_POOL if data_ok(y)]:
        if not data_ok(x):
            raise RuntimeError("harness: %r is not in the data domain" % (x,))
        for cd in ((False, True) if cdata_ok(x) else (False,)):
            for end in (False, True):
                pad = rng.choice(["", " ", "\n", "\u00a0", "\u3000 "])
                rd = ("agg", "OFX", "", [("leaf", "NAME", cd, pad, x, pad, end, ""), ("leaf", "B", False, "", "1", "", False, "")], "")
                check_rendering(rd, "", "data-alphabet")

    # ---------------- random documents x random renderings ----------------
    n_mid = 4000 if thorough else 700
    for _ in range(n_mid):
        d = rand_doc(rng, rng.randint(2, 14), rng.randint(1, 5))
        rd = rand_rendering(rng, d, rng.choice([None, None, None, "xml", "sgml", "pretty"]))
        if not ambiguous(rd):
            check_rendering(rd, rand_ws(rng), "random")
    big_texts = []
    n_big = 120 if thorough else 14
    for _ in range(n_big):
        d = rand_doc(rng, rng.randint(60, 400), 12, tags=rng.sample(TAG_POOL, 6))
        rd = rand_rendering(rng, d, rng.choice([None, "xml", "sgml", "pretty"]), big=True)
        if not ambiguous(rd):
            s, _ = check_rendering(rd, "", "large")
            texts.pop()
            big_texts.append(s)
    # via OFXTree.parse (header handling in front of the same builder): ASCII renderings
    n_tree = 600 if thorough else 120
    k = 0
    for s in list(texts):
        if k >= n_tree:
            break
        if (s.isascii() or k % 3 == 0) and "\r" not in s and s.strip():
            k += 1
            o1, o2 = impl_parse(P, s), impl_ofxtree(P, s, 102 if k % 2 else 203)
            rep.count(("ofxtree", s), nontrivial=False, kind="via-OFXTree.parse")
            if o1 != o2:
                fail("ofxtree-differs-from-builder", "OFXTree.parse(header+%r) -> %r but TreeBuilder -> %r" % (s, o2, o1), text=s, via="OFXTree", observed=o2)

    # ---------------- the front door: the same documents as FILES (v1 header with CHARSET 1252 / ISO-8859-1 / NONE, v2 header), read with
    #                  OFXTree.parse(BytesIO | file name) and the default parser: the tree TreeBuilder gives for the body text, for every header
    front = []
    for x in ENTITY_DATA + WIDE_DATA:          # fully closed (well-formed XML) and SGML spellings of documents whose data would change under an XML reader
        d = ("agg", "OFX", [("leaf", "NAME", x), ("agg", "STMTRS", [("leaf", "MEMO", x), ("agg", "E", [])]), ("leaf", "B", "1")])
        for st in ("xml", "sgml", "pretty"):
            rd = rand_rendering(rng, d, st)
            if st == "pretty":
                rd = close_all(rd)
            front.append(render(rd, ""))
        if cdata_ok(x):
            front.append(render(("agg", "OFX", "\r\n", [("leaf", "NAME", True, "", x, "", True, "\r\n")], "\r\n"), ""))
    pool = [t for t, (o, w) in first_out.items() if len(t) < 400]
    front += pool if len(pool) <= (900 if thorough else 130) else rng.sample(pool, 900 if thorough else 130)
    seen_front = False
    for k, body in enumerate(front):
        want_out = impl_parse(P, body)
        for j, door in enumerate(DOORS):
            if not thorough and len(front) > 200 and (k + j) % 2 and k >= 4 * len(ENTITY_DATA + WIDE_DATA):
                continue
            got = impl_front(P, door, body, by_name=(k % 17 == 0))
            if got is None:
                continue
            rep.count(("front", door, body), nontrivial=(got[0] == "ok"), kind="front-door:" + door)
            same = (got == want_out) or (got[0] != "ok" and want_out[0] != "ok")
            if not same and not seen_front:
                seen_front = True
                fail("ofxtree-differs-from-builder", "OFXTree.parse(%s header + %r) -> %r but TreeBuilder on the same body text -> %r" % (door, body[:300], got, want_out),
                     text=body, door=door, expected_outcome=want_out, observed=got)

    # ---------------- "one and the same tree" also AFTER the parser has refused something: every parse uses a new TreeBuilder ----------------
    goods = [t for t, (o, w) in first_out.items() if o == ("ok", w) and len(t) < 300]
    goods = goods if len(goods) <= 12 else rng.sample(goods, 12)
    leaked = False
    for bad in ["<OFX><A><B>1", "<A><B></A>", "<A>1</A></A>", "<A>1</A>junk", "<A></A><B>"]:
        ob = impl_parse(P, bad)
        for good in goods:
            again = impl_parse(P, good)
            rep.count(("then", bad, good), nontrivial=False, kind="rendering-after-refused-body")
            if again != first_out[good][0] and not leaked:
                leaked = True
                fail("state-leaks-between-parses", "after TreeBuilder on %r -> %r, a NEW TreeBuilder on the rendering %r -> %r (before: its document's tree)" % (bad, ob, good, again),
                     text=bad, then=good, expected=first_out[good][1], observed=again)

    # ---------------- malformed / arbitrary stream: model vs implementation only ----------------
    dstr = deep_strings(rng, tier, deep)
    for s in dstr:
        rep.count(s, nontrivial=False, kind="deep")

    rep.rule = ("structured stream: every document with <= 3 (thorough: 4) nodes over 2 tags and 2 data values x rendering choices (exhaustive for the "
                "smallest, sampled beyond) with blanks from {'', ' ', '\\n', '\\r\\n  '}, adjacent CDATA leaves in every blank/end-tag combination, random "
                "documents (to 14 nodes) and large ones (60-400 nodes, depth <= 12) with random blanks incl. every isspace code point, data with & > ] ]]> / "
                "non-ASCII and inner line breaks; each rendering: library tree == document tree (and == tree of an independent reference reader). "
                "deep stream (model vs implementation, scanner groups vs re): all strings to length %s over '<>/A x' and '<>A]\\n ', all sequences of <= %d tokens, "
                "random longer token sequences. non-trivial = the implementation returned a tree" % ("6" if thorough else ("5" if deep else "4"), 4 if thorough else 3))
    rep.sample({"text": texts[len(texts) // 2], "implementation": impl_parse(P, texts[len(texts) // 2])})
    rep.sample({"text": dstr[len(dstr) // 2], "implementation": impl_parse(P, dstr[len(dstr) // 2]), "matches": impl_matches(P, dstr[len(dstr) // 2])})

    correspond(rep, "renderings", variant, texts, P, shard=1500 if thorough else 280)
    if big_texts:
        correspond(rep, "large", variant, big_texts, P, shard=2)
    correspond(rep, "deep", variant, dstr, P, with_matches=True, shard=2500 if deep else 850)

    # ---------------- Serialize engine: byte-exact correspondence on random trees ----------------
    run_serialize(rep, tier, rng)


# =====================================================================================================
# Serialize engine (Model/Serialize.v): byte-exact correspondence with ET.tostring(method="html"),
# utils.tostring_unclosed_elements and utils.indent on random trees
# =====================================================================================================
def unclosed_escapes(U):
    """does utils.tostring_unclosed_elements escape element text (repair fixes/C11-3) ?"""
    import inspect
    src = inspect.getsource(U.tostring_unclosed_elements)
    return "escape" in src


def rand_itree(rng, nodes, depth, root=True):
    """(tag, text, tail, [children])"""
    tag = rng.choice(TAG_POOL + ["script", "Style", "br", "Img", "SOURCE", "STMTTRN", "MEMO"]) if rng.random() < 0.8 else rand_tag(rng)

    def txt():
        r = rng.random()
        if r < 0.3:
            return None
        if r < 0.38:
            return ""
        if r < 0.5:
            return rand_ws(rng) or " "
        if r < 0.97:
            return rng.choice(["x", "a<b", "AT&T", "a>b", "]]>", "&amp;", "<![CDATA[x]]>", " pad ", "é中\U0001f4a9", "1 < 2 > 0 & 3", "\n", "a\nb", "</A>"]) if rng.random() < 0.6 else "".join(rng.choice("ab<>&; \n\xe9\u20ac") for _ in range(rng.randint(1, 8)))
        return "x" + chr(rng.choice([0xD800, 0xDFFF, 0xDC80])) + "y"
    ch = []
    if not (nodes <= 1 or depth <= 0 or (not root and rng.random() < 0.5)):
        budget = nodes - 1
        while budget > 0 and (rng.random() < 0.85 or not ch):
            c = rand_itree(rng, rng.randint(1, max(1, budget // 2 + 1)), depth - 1, False)
            ch.append(c)
            budget -= isize(c)
    return (tag, txt(), txt() if rng.random() < 0.4 else None, ch)


def isize(t):
    return 1 + sum(isize(c) for c in t[3])


def to_elem(ET, t):
    e = ET.Element(t[0])
    e.text, e.tail = t[1], t[2]
    for c in t[3]:
        e.append(to_elem(ET, c))
    return e


def dump_elem(e):
    f = lambda s: "N" if s is None else "S" + s
    return "(" + e.tag + "|" + f(e.text) + "|" + f(e.tail) + "|" + "".join(dump_elem(c) for c in e) + ")"


def coq_itree(t):
    return "INode %s %s %s %s" % (C.ctext(t[0]), C.copt(t[1], C.ctext), C.copt(t[2], C.ctext), C.clist([coq_itree(c) for c in t[3]]))


def impl_serialize(ET, U, mode, t):
    e = to_elem(ET, t)
    try:
        if mode in (2, 3, 4):
            U.indent(e)
        if mode in (0, 2):
            return ("ok", ET.tostring(e, encoding="utf_8", method="html"))
        if mode in (1, 3):
            return ("ok", U.tostring_unclosed_elements(e))
        return ("ok", dump_elem(e).encode("utf_8"))
    except (ValueError, TypeError) as ex:
        return ("crash" if isinstance(ex, UnicodeError) else "reject", type(ex).__name__)
    except Exception as ex:
        return ("crash", type(ex).__name__)


def run_serialize(rep, tier, rng):
    import xml.etree.ElementTree as ET
    import ofxtools.utils as U
    importlib.reload(U)
    esc = unclosed_escapes(U)
    rep.extra["serialize_variant"] = {"unclosed_escapes_text": esc}
    n = 6000 if tier == "thorough" else 900
    items, kept = [], []
    fixed = [("A", None, None, []), ("A", "", "", []), ("A", "x", None, [("B", None, None, [])]), ("BR", "x", "t", [("LINK", None, None, [("A", "1", None, [])])]),
             ("SCRIPT", "a<b", None, []), ("OFX", None, None, [("A", None, None, []), ("B", "1", None, []), ("C", None, None, [("D", " ", " x ", [])])])]
    for k in range(n):
        t = fixed[k] if k < len(fixed) else rand_itree(rng, rng.randint(1, 12 if k % 10 else 60), rng.randint(0, 5))
        for mode in ((0, 1, 2, 3, 4) if k < len(fixed) else rng.sample([0, 1, 2, 3, 4], 2)):
            out = impl_serialize(ET, U, mode, t)
            exp = "OK %s" % C.ctext(out[1]) if out[0] == "ok" else ("Err Reject" if out[0] == "reject" else "Err Crash")
            items.append("SerCase %d (%s) (%s)" % (mode, coq_itree(t), exp))
            kept.append((mode, t, out))
            rep.count(("ser", mode, t), nontrivial=(out[0] == "ok" and len(t[3]) > 0), kind="serialize:mode%d" % mode)
    rep.sample({"serialize_mode": kept[7][0], "tree": kept[7][1], "implementation": repr(kept[7][2])})
    he = C.clist([C.ctext(x) for x in sorted(ET.HTML_EMPTY)])
    bad = coq_bad(rep.prop, "serialize", ["Base.SgmlBase", "Model.Serialize", "Model.SerializeCases"],
                  "sercase_ok %s %s" % (he, C.cbool(esc)), "sercase", items, 300 if tier == "thorough" else 120)
    for i in bad[:20]:
        rep.disagreements.append({"run": "serialize", "mode": kept[i][0], "tree": kept[i][1], "implementation": repr(kept[i][2])})


def restrict_ws(rng, rd, wss):
    if rd[0] == "agg":
        return ("agg", rd[1], rng.choice(wss), [restrict_ws(rng, c, wss) for c in rd[3]], rng.choice(wss))
    return rd[:3] + (rng.choice(wss), rd[4], rng.choice(wss), rd[6], rng.choice(wss))


def replay(obj):
    C.use_repo()
    import ofxtools.Parser as P
    r = obj["replay"]
    s = r["text"]
    if "door" in r:
        got, ref = impl_front(P, r["door"], s), impl_parse(P, s)
        print("replay OFXTree.parse(%s header + %r) -> %r; TreeBuilder on the body text -> %r" % (r["door"], s, got, ref))
        bad = not (got == ref or (got[0] != "ok" and ref[0] != "ok"))
        if bad:
            print("VIOLATION property=C02 replay=(this file)")
        return 1 if bad else 0
    out = impl_ofxtree(P, s) if r.get("via") == "OFXTree" else impl_parse(P, s)
    want = r.get("expected")
    print("replay TreeBuilder on %r -> %r" % (s, out))
    if "then" in r:
        out = impl_parse(P, r["then"])
        print("then a new TreeBuilder on %r -> %r" % (r["then"], out))
    if want is not None:
        want = tuple_tree(want)
        bad = out != ("ok", want)
        print("expected tree %r" % (want,))
    else:
        bad = out[0] == "ok" and out[1] is not None
    if bad:
        print("VIOLATION property=C02 replay=(this file)")
    return 1 if bad else 0
