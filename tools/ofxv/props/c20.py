"""C20 - security-identifier check digits (ofxtools/utils.py:144-235, lib.NUMBERING_AGENCIES)."""
import itertools, string
from .. import common as C
from ..translate_consts import gen_ident

PROP = "C20"
COQ_EXTRA = ["theories/Model/IdentCases.vo", "theories/Gen/IdentGen.vo"]
PARTIAL = ["int(c, 36) is modelled on ASCII only (Python also accepts non-ASCII decimal digits); theorems quantify over ASCII text",
           "cusip2isin is stated for CUSIPs over [0-9A-Za-z]: ISO 6166 has no encoding for the CUSIP characters * @ #, the library raises ValueError there"]
MANIFEST = {
    "engine": "Ident",
    "text": "Theorems, for every base text of the stated length over the identifier alphabets (no bound on content): the library's string manipulation "
            "computes the published CUSIP / SEDOL / ISO 6166 check digit, completed identifiers validate, every other check text fails, wrong lengths and "
            "unknown prefixes never validate, and CUSIP/SEDOL->ISIN conversion validates and embeds the original for every prefix of the agency table "
            "regenerated from lib.py (a kernel-evaluated well-formedness check of that table). The Gallina model is tied to utils.py by evaluating it with "
            "vm_compute on the same ~10^5 (thorough: >10^6, digits-only SEDOL space exhaustive) cases as the implementation.",
    "note": "Trusted: Coq kernel + vm_compute; the hand transcription Model/Ident.v (validated by the correspondence run only); int(c,36) modelled on ASCII; "
            "the table translator. Print Assumptions: closed under the global context.",
}
FN = {"cusip_checksum": 0, "validate_cusip": 1, "sedol_checksum": 2, "isin_checksum": 3, "validate_isin": 4, "cusip2isin": 5, "sedol2isin": 6}
ALNUM = string.digits + string.ascii_uppercase
CUSIP_ALPHA = ALNUM + "*@#"
SEDOL_ALPHA = "".join(c for c in ALNUM if c not in "AEIOU")


# the ISO 6166 prefixes the library's table held when the property was stated: identifiers under them are ISINs by the public rule, so they keep
# validating and converting (an entry ADDED to the table is not questioned: the public list grows; one REMOVED or re-keyed makes valid ids fail)
STATED_AGENCIES = ("AA AR AT AU BE BG BR CA CH CL CN CR CS CY CZ DE DK EE EG ES FI FR GB GR HK HR HU ID IE IL IN IR IS IT JO JP KR KW LB LK LU LV MO MX "
                   "MY NL NO PA PE PH PK PL PT RO RU SE SG SI SK TH TN TR TW UA US VE XS ZA").split()


def translate():
    return gen_ident()


# the validators' verdicts must not depend on `assert` statements: an application run with `python -O` compiles them out
O_SCRIPT = r"""
import sys, json
import ofxtools.utils as U
bad = []
for fn, arg, want in json.load(sys.stdin):
    try:
        got = getattr(U, fn)(arg)
    except Exception as e:
        got = "raised " + type(e).__name__
    if (got is True) != want:
        bad.append([fn, arg, want, repr(got)])
print(json.dumps(bad))
"""


def optimized_probe(vcases):
    """the validate_* clauses of the property in a child interpreter started with -O: [(fn, arg, expected verdict)] -> mismatches"""
    import subprocess, json, os
    r = subprocess.run([C.PY, "-O", "-c", O_SCRIPT], input=json.dumps(vcases), env=dict(os.environ, PYTHONPATH=C.REPO, PYTHONHASHSEED="0"),
                       stdout=subprocess.PIPE, stderr=subprocess.PIPE, text=True, timeout=300)
    if r.returncode:
        raise RuntimeError("python -O probe failed: %s" % r.stderr[-400:])
    return json.loads(r.stdout.strip().splitlines()[-1])


# ---- independent reference implementation of the published algorithms (property oracle) ----
def _v36(c):
    if c in string.digits: return ord(c) - 48
    if "A" <= c <= "Z": return ord(c) - 55
    if "a" <= c <= "z": return ord(c) - 87
    return None


def ref_cusip(base):
    s = 0
    for i, c in enumerate(base):
        v = {"*": 36, "@": 37, "#": 38}.get(c)
        if v is None: v = _v36(c)
        if i % 2 == 1: v *= 2
        s += v // 10 + v % 10
    return str((10 - s % 10) % 10)


def ref_sedol(base):
    return str((10 - sum(_v36(c) * w for c, w in zip(base, (1, 3, 1, 7, 3, 9))) % 10) % 10)


def ref_isin(base):
    digits = []
    for c in base:
        v = _v36(c)
        digits += [v] if v < 10 else [v // 10, v % 10]
    s = 0
    for n, d in enumerate(reversed(digits)):
        if n % 2 == 0:
            d *= 2
            d = d // 10 + d % 10
        s += d
    return str((10 - s % 10) % 10)


def call(fn, *args):
    try:
        r = fn(*args)
    except (ValueError, TypeError) as e:
        return ("reject", type(e).__name__)
    except Exception as e:
        return ("crash", type(e).__name__)
    return ("ok", r)


def coq_case(fname, a, b, out):
    if out[0] == "ok":
        v = out[1]
        exp = "OK " + C.ctext(("1" if v else "0") if isinstance(v, bool) else v)
    else:
        exp = "Err Reject" if out[0] == "reject" else "Err Crash"
    return "ICase %d %s %s (%s)" % (FN[fname], C.ctext(a), C.ctext(b or ""), exp)


def run(rep, tier, rng):
    import importlib
    import ofxtools.utils as U
    import ofxtools.lib as L
    importlib.reload(L); importlib.reload(U)
    agencies = list(L.NUMBERING_AGENCIES.keys())
    thorough = tier == "thorough"
    cases = []          # (fname, a, b)
    fails = rep.failures

    def rs(alpha, n): return "".join(rng.choice(alpha) for _ in range(n))

    # ---------------- structured, mostly valid stream ----------------
    cusip_bases = ["03783310", "0378331*", "@#*00000", "00000000", "ZZZZZZZZ", "########", "abcdefgh"]
    n_rand = 60000 if thorough else 4000
    cusip_bases += [rs(CUSIP_ALPHA, 8) for _ in range(n_rand)]
    cusip_bases += [rs(string.digits, 8) for _ in range(n_rand // 4)]
    # digit-only bases with two positions swept over the whole alphabet
    pairs = list(itertools.combinations(range(8), 2))
    for (i, j) in (pairs if thorough else rng.sample(pairs, 4)):
        b0 = list(rs(string.digits, 8))
        for x in CUSIP_ALPHA:
            for y in CUSIP_ALPHA:
                b = b0[:]; b[i] = x; b[j] = y
                cusip_bases.append("".join(b))
    sedol_bases = ["026349", "B0YBKJ", "000000", "ZZZZZZ", "bcdfgh"]
    if thorough:
        sedol_bases += ["%06d" % i for i in range(10 ** 6)]
    else:
        sedol_bases += ["%06d" % rng.randrange(10 ** 6) for _ in range(6000)]
    sedol_bases += [rs(SEDOL_ALPHA, 6) for _ in range(n_rand)]
    ag2 = [k for k in agencies]
    isin_bases = ["US037833100", "GB000263494"] + [rng.choice(ag2) + rs(ALNUM, 11 - len(rng.choice(ag2))) for _ in range(10)]
    isin_bases += [k + rs(ALNUM, 9) for k in agencies for _ in range(8 if thorough else 2)]
    isin_bases += [rng.choice(agencies) + rs(ALNUM + string.ascii_lowercase, 9) for _ in range(n_rand // 2)]

    for b in cusip_bases:
        cases.append(("cusip_checksum", b, None))
    for b in sedol_bases:
        cases.append(("sedol_checksum", b, None))
    for b in isin_bases:
        cases.append(("isin_checksum", b, None))

    # ---------------- property predicate on the implementation ----------------
    def fail(key, what, **replay):
        fails.append(C.Failure(key, what, replay))

    repl_chars = string.digits + "AZ*"
    sub = lambda l, n: l if len(l) <= n else rng.sample(l, n)
    for b in cusip_bases:
        out = call(U.cusip_checksum, b)
        want = ref_cusip(b)
        special = any(c in "*@#" for c in b)
        if out != ("ok", want):
            key = "cusip_checksum:raises-on-*@#" if (special and out[0] != "ok") else "cusip_checksum:wrong-check-digit"
            fail(key, "cusip_checksum(%r) -> %r, published algorithm gives %r" % (b, out, want), fn="cusip_checksum", args=[b], expected=want, observed=out)
            continue
    for b in sub(cusip_bases, 20000 if thorough else 1500):
        want = ref_cusip(b)
        if call(U.cusip_checksum, b) != ("ok", want):
            continue
        for ch in repl_chars:
            cases.append(("validate_cusip", b + ch, None))
            out = call(U.validate_cusip, b + ch)
            if out != ("ok", ch == want):
                fail("validate_cusip:wrong-verdict", "validate_cusip(%r) -> %r, expected %r" % (b + ch, out, ch == want), fn="validate_cusip", args=[b + ch], expected=(ch == want), observed=out)
        if all(c in ALNUM + string.ascii_lowercase for c in b):
            for nation in sub(agencies, 6) + [None]:
                cases.append(("cusip2isin", b + want, nation))
                out = call(U.cusip2isin, b + want, nation)
                pre = nation or "US"
                good = out[0] == "ok" and out[1][:len(pre)] == pre and out[1][2:11] == b + want and len(out[1]) == 12 \
                    and out[1][11] == ref_isin(out[1][:11]) and call(U.validate_isin, out[1]) == ("ok", True)
                if not good:
                    key = "agency-prefix-not-2-chars:%s" % pre if len(pre) != 2 else "cusip2isin:invalid-result"
                    fail(key, "cusip2isin(%r, %r) -> %r: not a validating ISIN embedding the CUSIP" % (b + want, nation, out), fn="cusip2isin", args=[b + want, nation], observed=out)
    for b in sedol_bases:
        out = call(U.sedol_checksum, b)
        want = ref_sedol(b)
        if out != ("ok", want):
            fail("sedol_checksum:wrong-check-digit", "sedol_checksum(%r) -> %r, published algorithm gives %r" % (b, out, want), fn="sedol_checksum", args=[b], expected=want, observed=out)
    for b in sub(sedol_bases, 20000 if thorough else 1500):
        want = ref_sedol(b)
        for nation in sub(agencies, 3) + [None]:
            for ch in (want, str((int(want) + 1 + rng.randrange(9)) % 10)):
                cases.append(("sedol2isin", b + ch, nation))
                out = call(U.sedol2isin, b + ch, nation)
                pre = nation or "GB"
                if ch == want:
                    good = out[0] == "ok" and out[1][:len(pre)] == pre and out[1][2:11] == "00" + b + ch and len(out[1]) == 12 \
                        and out[1][11] == ref_isin(out[1][:11]) and call(U.validate_isin, out[1]) == ("ok", True)
                    if not good:
                        key = "agency-prefix-not-2-chars:%s" % pre if len(pre) != 2 else "sedol2isin:invalid-result"
                        fail(key, "sedol2isin(%r, %r) -> %r: not a validating ISIN embedding the SEDOL" % (b + ch, nation, out), fn="sedol2isin", args=[b + ch, nation], observed=out)
                elif out[0] == "ok":
                    fail("sedol2isin:accepts-wrong-check", "sedol2isin(%r) accepted a SEDOL with a wrong check digit" % (b + ch,), fn="sedol2isin", args=[b + ch, nation], observed=out)
    for b in isin_bases:
        if len(b) != 11:
            continue
        out = call(U.isin_checksum, b)
        want = ref_isin(b)
        if out != ("ok", want):
            fail("isin_checksum:wrong-check-digit", "isin_checksum(%r) -> %r, ISO 6166 gives %r" % (b, out, want), fn="isin_checksum", args=[b], expected=want, observed=out)
    for b in sub([x for x in isin_bases if len(x) == 11], 20000 if thorough else 1500):
        want = ref_isin(b)
        for ch in repl_chars:
            cases.append(("validate_isin", b + ch, None))
            out = call(U.validate_isin, b + ch)
            if out != ("ok", ch == want):
                fail("validate_isin:wrong-verdict", "validate_isin(%r) -> %r, expected %r" % (b + ch, out, ch == want), fn="validate_isin", args=[b + ch], expected=(ch == want), observed=out)
        # unknown prefix / wrong length never validate
        bad_pre = rs(string.ascii_uppercase, 2)
        if bad_pre not in agencies:
            x = bad_pre + b[2:] + want
            cases.append(("validate_isin", x, None))
            for ch in string.digits:
                if call(U.validate_isin, bad_pre + b[2:] + ch) != ("ok", False):
                    fail("validate_isin:unknown-prefix-validates", "validate_isin(%r) is not False" % (bad_pre + b[2:] + ch,), fn="validate_isin", args=[bad_pre + b[2:] + ch])
        for x in (b, b + want + "0", (b + want)[1:]):
            cases.append(("validate_isin", x, None))
            if call(U.validate_isin, x) != ("ok", False):
                fail("validate_isin:wrong-length-validates", "validate_isin(%r) is not False" % (x,), fn="validate_isin", args=[x])
    # every prefix the table held when the property was stated still names an agency (implementation only: the model's table is the current one)
    for pre in STATED_AGENCIES:
        for nsin in ("000000000", "037833100", "B0YBKJ7A1"):
            b = pre + nsin
            x = b + ref_isin(b)
            if call(U.validate_isin, x) != ("ok", True):
                fail("validate_isin:valid-id-of-a-stated-agency-fails", "validate_isin(%r) -> %r; %s is one of the numbering-agency prefixes and the check digit is the ISO 6166 one"
                     % (x, call(U.validate_isin, x), pre), fn="validate_isin", args=[x], expected=True)
        out = call(U.cusip2isin, "037833100", pre)
        if out != ("ok", pre + "037833100" + ref_isin(pre + "037833100")):
            fail("cusip2isin:stated-agency-refused", "cusip2isin('037833100', %r) -> %r" % (pre, out), fn="cusip2isin", args=["037833100", pre])
    for b in sub(cusip_bases, 2000):
        want = ref_cusip(b)
        for x in (b, b + want + "0", (b + want)[1:]):
            cases.append(("validate_cusip", x, None))
            if call(U.validate_cusip, x)[1] is True:
                fail("validate_cusip:wrong-length-validates", "validate_cusip(%r) is True" % (x,), fn="validate_cusip", args=[x])

    # ---------------- edges of the input space (property predicate on the implementation only; the model is about ASCII text) ----------------
    #   an identifier with anything appended or prepended has the wrong length and never validates (line ends and blanks included: '$' in a
    #   regular expression also matches before a trailing newline); a check character replaced by the same-valued decimal digit of another
    #   script is a changed check character
    FOREIGN = lambda d: [chr(base + int(d)) for base in (0xFF10, 0x0660, 0x06F0, 0x0966, 0x0E50, 0x1D7CE)]
    PADS = ["\n", "\r\n", "\r", " ", "\t", "\x0b", "\x0c", "\u00a0", "\u2028", "\u3000", "\x00"]
    good_ids = []
    for b in sub(cusip_bases, 300):
        w = ref_cusip(b)
        if call(U.cusip_checksum, b) == ("ok", w):
            good_ids.append(("validate_cusip", U.validate_cusip, b + w))
    for b in sub([x for x in isin_bases if len(x) == 11], 300):
        w = ref_isin(b)
        if call(U.isin_checksum, b) == ("ok", w) and call(U.validate_isin, b + w) == ("ok", True):
            good_ids.append(("validate_isin", U.validate_isin, b + w))
    n_edge = 0
    for name, fn, ident in good_ids:
        for pad in PADS:
            for x in (ident + pad, pad + ident):
                n_edge += 1
                if call(fn, x)[1] is True:
                    fail("%s:wrong-length-validates" % name, "%s(%r) is True: a %d-character text validates" % (name, x, len(x)), fn=name, args=[x])
        if ident[-1].isdigit():
            for ch in FOREIGN(ident[-1]):
                n_edge += 1
                if call(fn, ident[:-1] + ch)[1] is True:
                    fail("%s:foreign-digit-check-validates" % name, "%s(%r) is True although the check character was replaced by U+%04X" % (name, ident[:-1] + ch, ord(ch)), fn=name, args=[ident[:-1] + ch])
    for b in sub(sedol_bases, 200):
        w = ref_sedol(b)
        for x in [b + w + p for p in PADS] + [b + ch for ch in FOREIGN(w)]:
            n_edge += 1
            out = call(U.sedol2isin, x)
            if out[0] == "ok":
                fail("sedol2isin:accepts-malformed", "sedol2isin(%r) -> %r: a malformed SEDOL is converted" % (x, out), fn="sedol2isin", args=[x, None], observed=out)
    for b in sub(cusip_bases, 200):
        w = ref_cusip(b)
        if call(U.cusip_checksum, b) != ("ok", w) or not all(c in ALNUM + string.ascii_lowercase for c in b):
            continue
        for x in [b + w + p for p in PADS] + ([b + ch for ch in FOREIGN(w)] if w.isdigit() else []):
            n_edge += 1
            out = call(U.cusip2isin, x)
            if out[0] == "ok":
                fail("cusip2isin:accepts-malformed", "cusip2isin(%r) -> %r: a malformed CUSIP is converted" % (x, out), fn="cusip2isin", args=[x, None], observed=out)
    # ---------------- the same verdicts with assertions compiled out (python -O): valid ids pass, a changed check character, a wrong length and an
    #                  unknown prefix never validate -- whatever the interpreter's flags (own PRNG-free list built from the reference implementation)
    vcases = []
    for name, fn, ident in good_ids[:200]:
        vcases.append((name, ident, True))
        w = ident[-1]
        vcases += [(name, ident[:-1] + ch, False) for ch in string.digits + "A" if ch != w]
        vcases += [(name, ident[:-1], False), (name, ident + "0", False), (name, ident[1:], False), (name, ident + "\n", False)]
    unknown = [a + b for a in string.ascii_uppercase for b in string.ascii_uppercase if a + b not in agencies and a + b not in STATED_AGENCIES]
    for n, pre in enumerate(unknown):
        nsin = ("%09d" % (n * 7919 % 10 ** 9)) if n % 2 else "B0YBKJ7A1"
        vcases.append(("validate_isin", pre + nsin + ref_isin(pre + nsin), False))
    for key_fn, arg, want, got in optimized_probe(vcases):
        kind = "valid-id-fails" if want else ("unknown-prefix-validates" if key_fn == "validate_isin" and arg[:2] in unknown else "corrupted-id-validates")
        fail("%s:python-O:%s" % (key_fn, kind), "under `python -O` (assert statements compiled out) %s(%r) -> %s, expected %s" % (key_fn, arg, got, want),
             fn=key_fn, args=[arg], optimized=True)
    rep.extra["python_O_probes"] = len(vcases)
    rep.count(("python-O-probes", len(vcases)), nontrivial=True, kind="python-O-probes")
    rep.extra["edge_probes"] = n_edge
    rep.count(("edge-probes", n_edge), nontrivial=True, kind="edge-probes")

    # ---------------- malformed stream (model vs implementation only) ----------------
    junk = string.printable[:95]
    n_mal = 20000 if thorough else 2000
    for _ in range(n_mal):
        f = rng.choice(["cusip_checksum", "validate_cusip", "sedol_checksum", "isin_checksum", "validate_isin", "cusip2isin", "sedol2isin"])
        n = rng.choice([0, 1, 5, 6, 7, 8, 9, 10, 11, 12, 13])
        s = rs(rng.choice([junk, ALNUM, "AEIO0123", CUSIP_ALPHA]), n)
        if f in ("isin_checksum", "validate_isin") and rng.random() < 0.7:
            s = rng.choice(agencies) + s
        nat = rng.choice([None, "US", "GB", "XX", "H", "", "us", rng.choice(agencies)]) if f in ("cusip2isin", "sedol2isin") else None
        cases.append((f, s, nat))

    # ---------------- correspondence: model (vm_compute) vs implementation ----------------
    items, kept = [], []
    seen = set()
    for (f, a, b) in cases:
        if (f, a, b) in seen:
            continue
        seen.add((f, a, b))
        fn = getattr(U, f)
        out = call(fn, a) if f not in ("cusip2isin", "sedol2isin") else call(fn, a, b)
        items.append(coq_case(f, a, b, out)); kept.append((f, a, b, out))
        rep.count((f, a, b), nontrivial=(out[0] == "ok"), kind="%s:%s" % (f, out[0] if out[0] != "ok" else ("ok" if not isinstance(out[1], bool) else str(out[1]))))
    for k in (0, len(kept) // 2, len(kept) - 1):
        rep.sample({"fn": kept[k][0], "args": [kept[k][1], kept[k][2]], "implementation": kept[k][3]})
    rep.rule = ("structured stream: random and swept CUSIP/SEDOL/ISIN bases over the full alphabets (digits-only SEDOL space exhaustive in the thorough tier), "
                "each completed with every replacement check character and converted under sampled agency prefixes; malformed stream: wrong lengths, "
                "characters outside the alphabets, vowels, unknown prefixes. non-trivial = implementation returned a value (not an exception); distinct by (routine, arguments)")
    bad = C.coq_bad_indices(PROP, "ident", ["Base.Digits", "Model.Ident", "Model.IdentCases", "Gen.IdentGen"],
                            "icase_ok numbering_agencies", "icase", items, shard=2500)
    for i in bad[:50]:
        f, a, b, out = kept[i]
        rep.disagreements.append({"fn": f, "args": [a, b], "implementation": out})
    # a disagreement is not by itself a violation: evaluate the property on the implementation at that input
    # (done above for every in-domain case: any failing input is already in rep.failures)


def replay(obj):
    C.use_repo()
    import ofxtools.utils as U
    r = obj["replay"]
    if r.get("optimized"):
        bad = optimized_probe([(r["fn"], r["args"][0], False), (r["fn"], r["args"][0], True)])
        verdict = [b for b in bad if b[2] is False] and "True" or "not True"
        print("replay under python -O: %s(%r) is %s" % (r["fn"], r["args"][0], verdict))
        print("(what was expected is in the 'what' field)")
        return 1
    out = call(getattr(U, r["fn"]), *r["args"])
    print("replay %s%r -> %r (expected %r)" % (r["fn"], tuple(r["args"]), out, r.get("expected")))
    bad = ("expected" in r and out != ("ok", r["expected"])) or ("expected" not in r and out[0] != "ok")
    if bad:
        print("VIOLATION property=C20 replay=(this file)")
    return 1 if bad else 0
