"""C07 - unknown and vendor-specific tags never change or break the converted result."""
import copy, warnings, io
import xml.etree.ElementTree as ET
from .. import common as C
from .. import schema_harness as H
from .. import translate_schema as TS

PROP = "C07"
COQ_EXTRA = ["theories/Model/ConvertCases.vo", "theories/Gen/SchemaS.vo"]
IMPORTS = ["Model.Schema", "Model.Convert", "Model.ConvertCases", "Gen.SchemaGen", "Gen.SchemaS"]
PARTIAL = ["the theorem is about Model/Convert.v (from_etree/_convert/groom of models/base.py); the wire-level clause is "
           "unknown_insert_invisible_on_the_wire (composition with C02's parse_render_faithful: any renderings of the clean and of the contaminated document); the check also "
           "exercises XML and SGML renderings on the implementation",
           "SGML renderings give unknown EMPTY elements their end tag (an end-tag-less empty element is syntactically an open aggregate; DESIGN.md section 9)"]
MANIFEST = {
    "engine": "Schema",
    "text": "Theorem over EVERY class table, converter oracle, document, insertion path, position and inserted subtree: if the receiving aggregate's class does not define the "
            "subtree's tag (vendor-prefixed or simply unknown), conversion of the contaminated document returns exactly the result of the clean one (same model or same "
            "rejection); vendor tags do not even warn. Proved by induction over the path with a congruence lemma (a child matters only through tag, text and own conversion). "
            "The model is tied to models/base.py by evaluating it on contaminated documents of every concrete class against Aggregate.from_etree; the property itself is also "
            "evaluated on the implementation, at tree level and through XML/SGML bytes.",
    "note": "Trusted: Coq kernel; hand transcription Model/Convert.v validated by correspondence; translator of the class table. Print Assumptions: closed under the global context.",
}


def translate():
    TS.generate()


def agg_nodes(ctx, e, path=()):
    """(path, element) of every element that from_etree treats as an aggregate of a known class"""
    out = []
    cls = getattr(ctx.M, e.tag, None)
    if isinstance(cls, type) and issubclass(cls, ctx.Aggregate) and not e.text:
        out.append((path, e, cls))
        for k, ch in enumerate(e):
            out.extend(agg_nodes(ctx, ch, path + (k,)))
    return out


def unknown_tags(cls, rng):
    spec = set(cls.spec)
    cand = ["FOO", "ZZTOP", "STATUS", "CODE", "SEVERITY", "STMTTRN", "BANKACCTFROM", "MEMO", "NAME", "DTPOSTED", "X9",
            "3RDPARTY", "2NDPRESENTMENT", "9", "_X", "A_B"]       # tags need not start with a letter
    # names that mean something to Python on the class (methods and properties of Aggregate / list / object): still unknown TAGS
    pyattrs = [a.upper() for a in dir(cls) if a.isidentifier() and not a.startswith("_") and a.upper().isalnum()]
    cand += rng.sample(pyattrs, min(6, len(pyattrs)))
    wire = {"MAIL": "FROM", "MFINFO": "YIELD", "STOCKINFO": "YIELD"}
    bad = {wire[b.__name__] for b in cls.__mro__ if b.__name__ in wire}
    # a data element written without end tag directly inside an element of the SAME tag cannot be told from that element's end
    # (an ambiguity of the SGML wire syntax itself, not of conversion): keep inserted tags different from the receiver's
    return [t for t in cand if t.lower() not in spec and t not in bad and t != cls.__name__]


def make_insert(kind, tag, rng, known_children=()):
    if kind == "data":
        e = ET.Element(tag); e.text = rng.choice(["1", "bar", "20200101", "a b"]); return e
    if kind == "empty":
        return ET.Element(tag)
    if kind == "aggregate":
        e = ET.Element(tag)
        c = ET.SubElement(e, "CODE"); c.text = "0"
        s = ET.SubElement(e, "SEVERITY"); s.text = "INFO"
        if rng.random() < 0.5:
            ET.SubElement(ET.SubElement(e, "INNER"), "DEEP").text = "x"
        if known_children:       # otherwise-known content (incl. the tags groom renames) inside an unknown aggregate is never looked at
            for t in rng.sample(known_children, min(2, len(known_children))):
                ET.SubElement(e, t).text = "9"
        return e
    if kind == "vendor-data":
        e = ET.Element(rng.choice(["INTU.BID", "INTU.USERID", "X.Y", "CODE.X", "401K.BAL"])); e.text = "12345"; return e
    e = ET.Element(rng.choice(["INTU.AGG", "FOO.BAR", "401K.DETAIL", "1ST.SOURCE"]))
    ET.SubElement(e, "CODE").text = "7"
    for t in known_children[:1]:
        ET.SubElement(e, t).text = "9"
    return e


KINDS = ["data", "empty", "aggregate", "vendor-data", "vendor-aggregate"]


def esc(s):
    return s.replace("&", "&amp;").replace("<", "&lt;").replace(">", "&gt;")


def render_sgml(e):
    if len(e) == 0 and e.text:
        return "<%s>%s\r\n" % (e.tag, esc(e.text))
    return "<%s>\r\n%s</%s>\r\n" % (e.tag, "".join(render_sgml(c) for c in e), e.tag)


def render_xml(e):
    if len(e) == 0 and e.text:
        return "<%s>%s</%s>" % (e.tag, esc(e.text), e.tag)
    return "<%s>%s</%s>" % (e.tag, "".join(render_xml(c) for c in e), e.tag)


def parse_body(ctx, text):
    from ofxtools.Parser import TreeBuilder
    p = TreeBuilder()
    p.feed(text)
    return p.close()


def node_at(e, path):
    for k in path:
        e = e[k]
    return e


def probe(ctx, rep, tier, rng, items, meta, cls, clean, base, path, ncls, kind, u, pos, wire_p=None, more=()):
    """one insertion (or several into the same aggregate: [more] = further (position, element) pairs, applied in turn): the property on
    the implementation (tree level and through XML / SGML text) and one correspondence case"""
    dirty = copy.deepcopy(clean)
    node_at(dirty, path).insert(pos, u)
    for p2, u2 in more:
        node_at(dirty, path).insert(p2, u2)
    got, wtags = H.run_from_etree(ctx, dirty)
    case = {"class": cls.__name__, "kind": kind, "receiver": ncls.__name__, "path": list(path), "pos": pos, "inserted": ET.tostring(u).decode(), "clean": ET.tostring(clean).decode()}
    if more:
        case["more"] = [[p2, ET.tostring(u2).decode()] for p2, u2 in more]
    rep.count((cls.__name__, kind, path, pos, u.tag), nontrivial=True, kind="tree:" + kind)
    if got[0] != "ok":
        rep.failures.append(C.Failure("insert-%s:document-rejected" % kind, "inserting %s into %s of a valid %s makes conversion fail with %s" % (case["inserted"], ncls.__name__, cls.__name__, got[1]), case))
    elif not H.inst_equal(ctx, base[1], got[1]):
        rep.failures.append(C.Failure("insert-%s:model-changed" % kind, "inserting %s into %s of a valid %s changes the converted model" % (case["inserted"], ncls.__name__, cls.__name__), case))
    c, out, tg = H.case_from(ctx, dirty)
    items.append(c); meta.append(case)
    if wire_p is None:
        wire_p = 1.0 if tier == "thorough" else 0.5
    if rng.random() < wire_p:
        for form, render in (("xml", render_xml), ("sgml", render_sgml)):
            try:
                t_clean = parse_body(ctx, render(clean))
            except Exception as e:
                continue    # tokenizer trouble on the CLEAN text is C02/C08's subject
            try:
                t_dirty = parse_body(ctx, render(dirty))
            except Exception as e:   # the clean text parses and the text with the unknown subtree does not: the unknown tags broke the document
                rep.count((cls.__name__, kind, path, pos, u.tag, form), nontrivial=True, kind="wire-%s:%s" % (form, kind))
                rep.failures.append(C.Failure("insert-%s:document-rejected" % kind, "(%s rendering) inserting %s into %s of a valid %s makes the parser reject the document: %s: %s"
                                              % (form, case["inserted"], ncls.__name__, cls.__name__, type(e).__name__, e), dict(case, form=form)))
                continue
            b2, _ = H.run_from_etree(ctx, t_clean)
            g2, _ = H.run_from_etree(ctx, t_dirty)
            rep.count((cls.__name__, kind, path, pos, u.tag, form), nontrivial=True, kind="wire-%s:%s" % (form, kind))
            if b2[0] != "ok":
                continue
            if g2[0] != "ok":
                rep.failures.append(C.Failure("insert-%s:document-rejected" % kind, "(%s rendering) inserting %s into %s of a valid %s makes conversion fail with %s" % (form, case["inserted"], ncls.__name__, cls.__name__, g2[1]), dict(case, form=form)))
            elif not H.inst_equal(ctx, b2[1], g2[1]):
                rep.failures.append(C.Failure("insert-%s:model-changed" % kind, "(%s rendering) inserting %s changes the converted model of %s" % (form, case["inserted"], cls.__name__), dict(case, form=form)))


def run(rep, tier, rng):
    ctx = H.Ctx()
    if ctx.d["problems"]:
        rep.broken.append("translator not complete: %s" % ctx.d["problems"][:3])
    per_class = 5 if tier == "thorough" else 1
    n_ins = 10 if tier == "thorough" else 4
    items, meta = [], []
    for cls in ctx.concrete:
        for _ in range(per_class):
            obj = H.gen_instance(ctx, cls, rng, depth=2)
            if obj is None:
                continue
            try:
                clean = obj.to_etree()
            except Exception:
                continue
            base, _ = H.run_from_etree(ctx, clean)
            if base[0] != "ok":
                continue          # the library rejects its own output: C01/C13's business, not C07's
            nodes = agg_nodes(ctx, clean)
            for _ in range(n_ins):
                path, _, ncls = rng.choice(nodes)
                tags = unknown_tags(ncls, rng)
                kind = rng.choice(KINDS)
                if kind == "aggregate":      # same reason: its own children are CODE / SEVERITY / INNER / DEEP
                    tags = [t for t in tags if t not in ("CODE", "SEVERITY", "INNER", "DEEP")]
                wire = {"MAIL": "FROM", "MFINFO": "YIELD", "STOCKINFO": "YIELD"}
                kc = [wire[b.__name__] for b in ncls.__mro__ if b.__name__ in wire] + [k.upper() for k, t in ncls.spec.items() if not isinstance(t, ctx.Types.Unsupported)][:6]
                kc = [t for t in kc if t not in ("CODE", "SEVERITY", "INNER", "DEEP")]
                utag = rng.choice(tags)
                u = make_insert(kind, utag, rng, [t for t in kc if t != utag] if kind in ("aggregate", "vendor-aggregate") else ())
                pos = rng.randint(0, len(node_at(clean, path)))
                probe(ctx, rep, tier, rng, items, meta, cls, clean, base, path, ncls, kind, u, pos)
            # several unknown children in ONE aggregate (vendor-dotted and plain, elements and aggregates mixed), at independent positions
            path, _, ncls = rng.choice(nodes)
            n0 = len(node_at(clean, path))
            tags = [t for t in unknown_tags(ncls, rng) if t not in ("CODE", "SEVERITY", "INNER", "DEEP")]
            us = []
            for j in range(rng.choice([2, 2, 3, 4])):
                kind = rng.choice(["vendor-data", "vendor-data", "vendor-aggregate", "data", "aggregate"])
                us.append((rng.randint(0, n0 + j), make_insert(kind, rng.choice(tags), rng)))
            probe(ctx, rep, tier, rng, items, meta, cls, clean, base, path, ncls, "several-in-one-aggregate", us[0][1], us[0][0], more=us[1:])
    # ---- systematic stream: classes whose wire tags differ from their attribute names (groom / ungroom renames).  The renamed child is
    #      forced present and an unknown aggregate CONTAINING that wire tag (and one containing the attribute's own tag) goes to every position:
    #      otherwise-known content inside an unknown subtree must never be looked at, renamed or not
    for cls in ctx.concrete:
        probe_obj = H.gen_instance(ctx, cls, rng, depth=1, full=1.0)
        if probe_obj is None:
            continue
        try:
            wire_tags = [c.tag for c in probe_obj.to_etree()]
        except Exception:
            continue
        renamed = [t for t in wire_tags if t.lower() not in cls.spec]
        for wt in renamed:
            clean = probe_obj.to_etree()
            base, _ = H.run_from_etree(ctx, clean)
            if base[0] != "ok":
                continue
            for utag, inner in (("INTU.HISTORY", wt), ("FOO", wt), ("ZZTOP", wt), ("X.Y", wt)):
                for pos in range(len(clean) + 1):
                    u = ET.Element(utag)
                    ET.SubElement(u, "CODE").text = "7"
                    ET.SubElement(u, inner).text = "9"
                    probe(ctx, rep, tier, rng, items, meta, cls, clean, base, (), cls, "aggregate-holding-renamed-tag", u, pos, wire_p=1.0)
    # ---- unknown subtrees that repeat a tag on the way down: an unknown aggregate directly holding an aggregate of its OWN tag (plain and
    #      vendor-dotted), and an unknown AGGREGATE named like the aggregate that receives it (aggregates always carry their end tag, so the SGML
    #      ambiguity that keeps same-named DATA elements out does not arise).  Own PRNG stream: the draws of the streams above stay as they were.
    import os, random
    srng = random.Random("c07-selfnest-%s" % os.environ.get("VERIF_SEED", "20260101"))
    pick = [c for n, c in enumerate(ctx.concrete) if tier == "thorough" or (n + srng.randrange(2)) % 2 == 0]
    for cls in pick:
        obj = H.gen_instance(ctx, cls, srng, depth=2)
        if obj is None:
            continue
        try:
            clean = obj.to_etree()
        except Exception:
            continue
        base, _ = H.run_from_etree(ctx, clean)
        if base[0] != "ok":
            continue
        path, _, ncls = srng.choice(agg_nodes(ctx, clean))
        pos = srng.randint(0, len(node_at(clean, path)))
        t = srng.choice(["GROUP", "INTU.X", "ZZTOP", "401K.DETAIL"])
        u = ET.Element(t)
        inner = ET.SubElement(u, t); ET.SubElement(inner, "CODE").text = "7"
        if srng.random() < 0.5:
            ET.SubElement(ET.SubElement(inner, t), "DEEP").text = "x"
        ET.SubElement(u, "MEMO").text = "9"
        probe(ctx, rep, tier, srng, items, meta, cls, clean, base, path, ncls, "self-nested-aggregate", u, pos, wire_p=1.0)
        if ncls.__name__.lower() not in ncls.spec:
            u = ET.Element(ncls.__name__)
            ET.SubElement(u, "CODE").text = "0"
            ET.SubElement(ET.SubElement(u, "INNER"), "DEEP").text = "x"
            probe(ctx, rep, tier, srng, items, meta, cls, clean, base, path, ncls, "aggregate-named-as-receiver", u, srng.randint(0, len(node_at(clean, path))), wire_p=1.0)
    for m in meta[:3]:
        rep.sample(m)
    rep.rule = ("every concrete class: %d valid instance(s) -> to_etree; %d insertions each at a random aggregate node and position, kinds %s, tags unknown to the receiving class "
                "(incl. tags known elsewhere); compared: conversion of clean vs contaminated document at tree level and through XML / SGML bytes (implementation), and "
                "Model.Convert.from_etree vs Aggregate.from_etree on every contaminated tree; plus, for every class one of whose wire tags is not an attribute name (groom renames), "
                "unknown aggregates holding that wire tag at EVERY position of an instance that has the renamed child; plus, per instance, 2-4 unknown children (vendor-dotted and "
                "plain, elements and aggregates) inserted into ONE aggregate at independent positions. distinct by (class, kind, path, position, tag, form)" % (per_class, n_ins, KINDS))
    bad = C.coq_bad_indices(PROP, "insert", IMPORTS, "ccase_ok S", "ccase", items, shard=150, prelude="Local Open Scope string_scope.")
    for i in bad[:30]:
        rep.disagreements.append(dict(meta[i], case=items[i][:1200]))


def replay(obj):
    C.use_repo()
    ctx = H.Ctx()
    r = obj["replay"]
    clean = ET.fromstring(r["clean"]); dirty = copy.deepcopy(clean)
    node = dirty
    for k in r["path"]:
        node = node[k]
    node.insert(r["pos"], ET.fromstring(r["inserted"]))
    for p2, x2 in r.get("more", []):
        node.insert(p2, ET.fromstring(x2))
    if r.get("form"):
        render = render_xml if r["form"] == "xml" else render_sgml
        clean, dirty = parse_body(ctx, render(clean)), parse_body(ctx, render(dirty))
    a, _ = H.run_from_etree(ctx, clean); b, _ = H.run_from_etree(ctx, dirty)
    bad = a[0] == "ok" and (b[0] != "ok" or not H.inst_equal(ctx, a[1], b[1]))
    print("replay: clean ->", a[0], "; contaminated ->", b[0] if b[0] != "ok" else "ok", "; violates:", bad)
    if bad:
        print("VIOLATION property=C07 replay=(this file)")
    return 1 if bad else 0
