"""C11 - everything the serializer writes is lexically valid OFX for its declared type
(ofxtools/Types.py unconvert family; ET.tostring(method="html") vs ofxtools/utils.py:123-138 tostring_unclosed_elements)."""
import re, json, decimal, datetime, importlib, warnings
import xml.etree.ElementTree as ET
from .. import common as C
from . import c10 as S

PROP = "C11"
COQ_EXTRA = ["theories/Model/ScalarsCases.vo", "theories/Gen/ScalarsGen.vo"]
PARTIAL = [
    "the instance-level theorems to_etree_leaves_lexical / to_etree_leaves_lexical_utc (every leaf of instance.to_etree(), proved over the schema engine's typed model) instantiate the "
    "per-type unconvert_lexical theorems; the implementation's instances are covered by evaluation (the typed model itself is run against the implementation by C01's check)",
    "date-time and time texts: to_etree_leaves_lexical_utc proves the notation YYYYMMDDHHMMSS.XXX[+0:UTC] / HHMMSS.XXX[+0:UTC] for the C09 engine's writer on UTC values (years 1000..9998); "
    "for values in other zones the lexical rule is checked on the implementation's DateTime/Time.unconvert output by the harness and dt_unconvert_shape / tm_unconvert_shape are C09's theorems",
    "the wire theorems are about one datum as code points (what _escape_cdata / saxutils.escape return); UTF-8 encoding and the tag framing are validated by the correspondence run",
    "ET's _serialize_html writes the text of <script>/<style> elements unescaped: no OFX tag is named so",
]
MANIFEST = {
    "engine": "Scalars, PyDecimal",
    "text": "lexical_ok is an independent Gallina definition of the OFX lexical rule of each scalar type (Y|N; [+-]?digits; plain decimal notation with at most one separator; "
            "token membership; length). Theorems: for every type, parameterisation and Python value, whatever unconvert returns satisfies lexical_ok (so non-finite decimals, "
            "off-quantum values and over-long strings are refused, and no exponent notation is ever written); every datum escaped as ET.tostring(method='html') or as the "
            "repaired tostring_unclosed_elements writes it contains no raw '<' and no '&' that does not start &amp; &lt; &gt;. Tied to the source by the correspondence run "
            "(same cases to Types.py / utils.py and to the model under vm_compute) and by an independent lexical oracle applied to every text the implementation writes.",
    "note": "Trusted: Coq kernel + vm_compute; hand transcriptions Model/PyDecimal.v, Model/Scalars.v, Model/ScalarsLex.v; CPython's decimal/str/ElementTree; the translator.",
}
D = decimal.Decimal
DEC_RE = re.compile(r"[+-]?(?:[0-9]+(?:[.,][0-9]+)?|[.,][0-9]+)\Z")
INT_RE = re.compile(r"[+-]?[0-9]+\Z")
DT_RE = re.compile(r"[0-9]{4}(0[1-9]|1[0-2])(0[1-9]|[12][0-9]|3[01])([01][0-9]|2[0-3])[0-5][0-9]([0-5][0-9]|60)\.[0-9]{3}\[[+-]?[0-9]{1,2}(\.[0-9]{2})?(:[^\]]*)?\]\Z")
TIME_RE = re.compile(r"([01][0-9]|2[0-3])[0-5][0-9]([0-5][0-9]|60)\.[0-9]{3}\[[+-]?[0-9]{1,2}(\.[0-9]{2})?(:[^\]]*)?\]\Z")


def translate():
    return S.translate()


# ---------------------------------------------------------------- the lexical rules (independent oracle, Python side)
def lexical_ok(b, s):
    t = b["type"]
    if t == "Bool":
        return s in ("Y", "N")
    if t == "Integer":
        return INT_RE.match(s) is not None
    if t == "Decimal":
        return DEC_RE.match(s) is not None
    if t == "OneOf":
        return s in b["valid"]
    if t == "String":
        return not (b.get("strict", True) and b.get("length") is not None and len(s) > b["length"])
    if t == "DateTime":
        return DT_RE.match(s) is not None
    if t == "Time":
        return TIME_RE.match(s) is not None
    raise ValueError(t)


def wire_ok(datum):
    i = 0
    while i < len(datum):
        c = datum[i]
        if c == "<":
            return False
        if c == "&" and not (datum.startswith("amp;", i + 1) or datum.startswith("lt;", i + 1) or datum.startswith("gt;", i + 1)):
            return False
        i += 1
    return True


def lex_key(b, v, s):
    t = b["type"]
    if t == "Decimal" and isinstance(v, D):
        if not v.is_finite():
            return "Decimal.unconvert:non-finite-written"
        if "E" in s or "e" in s:
            return "Decimal.unconvert:exponent-notation"
    if t == "Integer" and isinstance(v, bool):
        return "Integer.unconvert:bool-written-as-True"
    return "%s.unconvert:lexical" % (t if b.get("strict", True) else "NagString")


# ---------------------------------------------------------------- streams
def whole_range_decimals(rng, n):
    out = []
    for _ in range(n):
        nd = rng.choice([1, 1, 2, 3, 6, 9, 15, 28, 29, 34])
        digits = [rng.randrange(10) for _ in range(nd)]
        if rng.random() < 0.85:
            digits[0] = rng.randrange(1, 10)
        if rng.random() < 0.3:
            z = rng.randint(1, min(nd, 6))
            digits[-z:] = [0] * z
        e = rng.randint(-30, 30) if rng.random() < 0.8 else rng.choice([0, -1, -2, -6, -7, -8, 1, 27, 28, -28, -29, 40, -40, 60, -60])
        d = D((rng.randrange(2), tuple(digits), e))
        r = rng.random()
        if r < 0.15:
            d = d.normalize() if len(digits) <= 28 else d          # what arithmetic / normalize() produce: positive exponents
        elif r < 0.2:
            d = D((rng.randrange(2), (0,), e))                     # signed zeros at any exponent
        out.append(d)
    out += [D("NaN"), D("-NaN"), D("sNaN"), D("-sNaN5"), D("NaN123"), D("Infinity"), D("-Infinity"), D("1E+2"), D("1E-7"), D("0E+2"), D("-0E-7"), D("100").normalize(),
            D("1.10").normalize(), D("1E+1"), D("12345678901234567890123456789E+5")]
    return out


def all_char_strings(rng, n):
    out = ["<", "&", ">", "p&a<ss", "a&amp;b", "&lt;", "&&", "<<>>", "a&b;", "&#60;", "]]>", "<![CDATA[x]]>", "</MEMO>", "\"'", "é€中\U0001f600", "\x00\x01", "a\nb", "\r\n", " x ", ""]
    for _ in range(n):
        k = rng.choice([1, 2, 3, 5, 8, 13])
        r = rng.random()
        if r < 0.5:
            out.append(S.rand_string(rng, k))
        elif r < 0.8:
            out.append("".join(rng.choice("&<>;ampltg#x0 ab") for _ in range(k)))
        else:
            s = []
            for _ in range(k):
                cp = rng.choice([rng.randrange(0x20, 0x7f), rng.randrange(0, 0x20), rng.randrange(0x80, 0x800), rng.randrange(0x800, 0xd800), rng.randrange(0xe000, 0x10000),
                                 rng.randrange(0x10000, 0x110000)])
                s.append(chr(cp))
            out.append("".join(s))
    return out


UNITS = ["e\u0301", "a\u0308\u0323", "\u1100\u1161\u11a8", "o\u0302\u0301", "\u00e9", "\ud55c", "\u212b", "\ufb01", "\U0001f600", "\U00010000", "\U000e0041",
         "&", "<", ">", "\"", "'", "&amp;", "&lt;", "x", "\u0301", "\u200d"]


def boundary_strings(rng, ln):
    """values of exactly ln and ln+1 code points (and of up to 2*ln code points that NFC would shorten to <= ln) built from combining sequences,
    precomposed / decomposed pairs, compatibility characters, astral characters and characters that need escaping"""
    out = []
    for u in UNITS:
        rep_ = u * (ln + 2)
        out += [rep_[:ln], rep_[:ln + 1]]
        if len(u) > 1:
            out += [u * ln, u * ((ln + len(u)) // len(u)), u * max(1, ln // len(u))]
    for _ in range(4):
        mix = "".join(rng.choice(UNITS) for _ in range(ln + 2))
        out += [mix[:ln], mix[:ln + 1], mix[:max(1, ln - 1)]]
    return [x for x in out if x]


def unconvert_cases(T, rng, K):
    cases = [c for c in S.build_cases(T, rng, max(8, K // 4)) if c[1] == "unconvert"]
    for sc in (None, None, 0, 1, 2, 3, 5, 8):
        for req in (False, True):
            e = {"type": "Decimal", "scale": sc, "required": req}
            for d in whole_range_decimals(rng, K):
                cases.append((e, "unconvert", d))
            if sc is not None:
                q = max(sc, 1)
                for d in whole_range_decimals(rng, K // 2):
                    if d.is_finite():
                        s, dg, _ = d.as_tuple()
                        cases.append((e, "unconvert", D((s, dg, -q))))
    for ln in (None, 1, 3, 9, 18):
        e = {"type": "Integer", "length": ln, "required": False}
        for v in S.int_values(rng, ln, K // 3) + [True, False, 10 ** 40, -(10 ** 40), 10 ** 4299, 10 ** 4300, -(10 ** 4300)]:
            cases.append((e, "unconvert", v))
    for ln, strict in ((None, True), (1, True), (4, True), (12, True), (4, False), (32, True), (255, True)):
        e = {"type": "String", "length": ln, "strict": strict, "required": False}
        for s in all_char_strings(rng, K // 2):
            cases.append((e, "unconvert", s))
    # the limit counts the code points of the value written (no normalisation): length == limit passes, limit + 1 is refused (NagString: kept, warned)
    for ln, strict in ((1, True), (2, True), (4, True), (12, True), (32, True), (4, False), (22, False)) + ((255, True),) * (1 if K > 200 else 0):
        for req in (False, True):
            e = {"type": "String", "length": ln, "strict": strict, "required": req}
            for s in boundary_strings(rng, ln):
                cases.append((e, "unconvert", s))
                cases.append(({"list": e, "required": False}, "unconvert", s))
    return cases


def load_wire_corpus():
    import glob, os
    out = []
    for p in sorted(glob.glob(os.path.join(C.VERIF, "corpus", PROP, "*.json"))):
        out += json.load(open(p)).get("wire", [])
    return out


def datum_of(T, U, s, unclosed, pretty=False):
    """serialize <OFX><MEMO>s</MEMO></OFX> and return the character data of MEMO as it stands in the bytes"""
    root = ET.Element("OFX")
    ET.SubElement(root, "MEMO").text = s
    if pretty:
        U.indent(root)
    if unclosed:
        body = U.tostring_unclosed_elements(root).decode("utf_8")
        end = "</OFX>"
    else:
        body = ET.tostring(root, encoding="utf_8", method="html").decode("utf_8")
        end = "</MEMO>"
    i, j = body.find("<MEMO>"), body.rfind(end)
    if i < 0 or j < i + 6 or not body.startswith("<OFX>"):
        return None, body
    d = body[i + 6:j]
    if pretty and unclosed and d.endswith("\n"):
        d = d[:-1]
    return d, body


def aware_datetimes(rng, n):
    out = []
    for _ in range(n):
        off = rng.choice([0, 60, -60, 330, -210, 345, 840, -720, 765, -30, 30, rng.randrange(-1439, 1440)])
        name = rng.choice([None, "UTC", "EST", "X<Y", "A&B", ""])
        delta = datetime.timedelta(minutes=off)
        r = rng.random()
        if r < 0.25:        # offsets with a seconds / microseconds part (historical local mean times, e.g. Amsterdam +0:19:32): still written h[.mm]
            delta = rng.choice([datetime.timedelta(minutes=19, seconds=32), -datetime.timedelta(minutes=19, seconds=32), datetime.timedelta(hours=1, microseconds=500000),
                                -datetime.timedelta(hours=1, microseconds=500000), datetime.timedelta(seconds=1), -datetime.timedelta(seconds=1), datetime.timedelta(hours=5, minutes=30, seconds=59),
                                -datetime.timedelta(hours=3, minutes=29, seconds=30, microseconds=1), datetime.timedelta(minutes=off, seconds=rng.randrange(60), microseconds=rng.choice([0, 1, 500000, 999999]))])
        tz = datetime.timezone(delta, name) if name is not None else datetime.timezone(delta)
        us = rng.choice([0, 499, 500, 999499, 999500, 999999, rng.randrange(10 ** 6)])
        y = rng.choice([1000, 1900, 1999, 2000, 2024, 2200, 9999, rng.randrange(1000, 10000)])
        mo = rng.randrange(1, 13)
        dd = rng.randrange(1, 29)
        hh, mi, ss = rng.choice([(0, 0, 0), (23, 59, 59), (rng.randrange(24), rng.randrange(60), rng.randrange(60))])
        if (y, mo, dd, hh, mi, ss) == (9999, 12, 31, 23, 59, 59) and us >= 999500:
            us = 0
        try:
            out.append(datetime.datetime(y, mo, dd, hh, mi, ss, us, tzinfo=tz))
        except (ValueError, OverflowError):
            pass
    return out


def instance_leaves(T, rng, fails, rep, K):
    """leaf texts of instance.to_etree() for a few classes with amounts, checked against the declared types"""
    try:
        import ofxtools.models as M
    except Exception as e:           # the scalar check does not depend on the model classes
        rep.extra["instance_stream"] = "skipped: %r" % (e,)
        return
    utc = datetime.timezone.utc
    decs = whole_range_decimals(rng, K)
    n = 0
    for d in decs:
        builds = [
            ("BAL", lambda: M.BAL(name="n", desc="d", baltype="DOLLAR", value=d, dtasof=datetime.datetime(2020, 1, 1, tzinfo=utc))),
            ("LEDGERBAL", lambda: M.LEDGERBAL(balamt=d, dtasof=datetime.datetime(2020, 1, 1, tzinfo=utc))),
            ("STMTTRN", lambda: M.STMTTRN(trntype="DEBIT", dtposted=datetime.datetime(2020, 1, 1, tzinfo=utc), trnamt=d, fitid=rng.choice(boundary_strings(rng, 255))[:rng.choice([255, 256, 300])] or "1",
                                          name=rng.choice(boundary_strings(rng, 32)), memo=rng.choice(boundary_strings(rng, 255)))),
        ]
        for cname, build in builds:
            try:
                with warnings.catch_warnings():
                    warnings.simplefilter("ignore")
                    inst = build()
                    root = inst.to_etree()
            except Exception:
                rep.count(("inst", cname, str(d)), nontrivial=False, kind="instance:%s:refused" % cname)
                continue
            n += 1
            rep.count(("inst", cname, str(d)), nontrivial=True, kind="instance:%s:written" % cname)
            spec = type(inst).spec
            for leaf in root:
                conv = spec.get(leaf.tag.lower())
                b = None
                if isinstance(conv, T.Decimal):
                    b = {"type": "Decimal"}
                elif isinstance(conv, T.Integer):
                    b = {"type": "Integer"}
                elif isinstance(conv, T.Bool):
                    b = {"type": "Bool"}
                elif isinstance(conv, T.DateTime) and not isinstance(conv, T.Time):
                    b = {"type": "DateTime"}
                elif isinstance(conv, T.String):
                    b = {"type": "String", "length": conv.length, "strict": conv.strict}
                if b is not None and len(leaf) == 0 and not lexical_ok(b, leaf.text or ""):
                    key = lex_key(b, d if b["type"] == "Decimal" else None, leaf.text or "")
                    if b["type"] == "String":
                        fails.append(C.Failure(key, "%s(...).to_etree(): <%s> carries %d characters %r, the declared limit is %d" % (cname, leaf.tag, len(leaf.text), leaf.text[:60], b["length"]),
                                               {"kind": "unconvert", "elem": dict(b, required=False), "op": "unconvert", "value": leaf.text, "observed": ["ok", leaf.text, 0]}))
                        continue
                    fails.append(C.Failure(key, "%s(...%s=%r).to_etree(): <%s>%s is not a valid OFX %s" % (cname, leaf.tag.lower(), d, leaf.tag, leaf.text, b["type"]),
                                           {"kind": "instance", "class": cname, "value": S.jval(d), "leaf": leaf.tag, "text": leaf.text}))
    rep.extra["instance_stream"] = "%d instances written" % n


# ---------------------------------------------------------------- public entry points: the bytes OFXClient composes
LEAF_RE = re.compile(r"<([A-Z0-9.]+)>([^<]*)")
WIRE_FORMS = [(102, False, False), (102, False, True), (160, False, False), (102, True, False), (160, True, True), (203, True, False), (220, True, True)]
PASSWORDS = ["p&a<ss", "Tom&Jerry1", "pa5s<w&rd", "a>b", "x\"y'z", "&amp;", "&lt;tag&gt;", "a&b;c", "<", "&", "1<2&&3>2", "pw&#38;", "plain", "é&€<中>"]


def _sax_unescape(s):
    return s.replace("&lt;", "<").replace("&gt;", ">").replace("&amp;", "&")


def client_requests(T, rng, rep, fails, n):
    """OFXClient.request_statements / request_accounts / request_profile (dryrun=True returns the request bytes) in every wire form: each leaf datum of the body is
    valid on the wire, and the data of the elements whose value was given denote that value"""
    S.scratch_env()
    try:
        from ofxtools.Client import OFXClient, StmtRq, CcStmtRq
    except Exception as ex:
        rep.extra["client_front_door"] = "skipped: %r" % (ex,)
        return
    utc = datetime.timezone.utc
    done = 0
    for k in range(n):
        ver, close, pretty = WIRE_FORMS[k % len(WIRE_FORMS)]
        pw = PASSWORDS[k % len(PASSWORDS)] if k < 2 * len(PASSWORDS) else (S.rand_string(rng, rng.choice([3, 8, 20])).strip() or "p&w")
        given = {"USERID": rng.choice(["user1", "us&er<1>", "a&amp;b"]), "ORG": rng.choice(["AT&T Credit", "ORG", "O<R>G"]), "FID": rng.choice(["1001", "F&1"]),
                 "BANKID": rng.choice(["123456789", "1&2<3>"]), "ACCTID": rng.choice(["000<1>&2", "12345"])}
        try:
            c = OFXClient("https://ofx.example.invalid/", userid=given["USERID"], org=given["ORG"], fid=given["FID"], version=ver, prettyprint=pretty,
                          close_elements=close, bankid=given["BANKID"])
        except Exception:
            continue
        calls = [("request_statements", lambda: c.request_statements(pw, StmtRq(acctid=given["ACCTID"], accttype="CHECKING"), CcStmtRq(acctid=given["ACCTID"]), dryrun=True, skip_profile=True), True),
                 ("request_accounts", lambda: c.request_accounts(pw, datetime.datetime(2020, 1, 1, tzinfo=utc), dryrun=True, skip_profile=True), True),
                 ("request_profile", lambda: c.request_profile(dryrun=True), False)]
        for cname, f, signed in calls:
            form = "v%d %s%s" % (ver, "closed" if close else "unclosed", "+indent" if pretty else "")
            try:
                with warnings.catch_warnings():
                    warnings.simplefilter("ignore")
                    body = f().read().decode("utf_8")
            except Exception as ex:                     # refused: nothing is written
                rep.count((cname, form, pw), nontrivial=False, kind="client:%s:refused" % cname)
                continue
            done += 1
            rep.count((cname, form, pw, tuple(sorted(given.items()))), nontrivial=True, kind="client:%s:%s" % (cname, form))
            i = body.find("<OFX>")
            want = dict(given, **({"USERPASS": pw} if signed else {}))
            # entity text handed to a constructor is un-escaped by String.convert (reading adopted in C10): the instance holds ref_unescape(value)
            want = {t: S.ref_unescape(v) for t, v in want.items()}
            if not signed:
                want.pop("USERID", None)
            seen = {}
            for m in LEAF_RE.finditer(body[i:] if i >= 0 else body):
                tag, datum = m.group(1), m.group(2).rstrip("\r\n ")
                if datum == "":
                    continue
                seen.setdefault(tag, datum)
                bad = None
                if not wire_ok(datum):
                    bad = "raw '&' in the data"
                elif tag in want and _sax_unescape(datum) != want[tag] and seen[tag] is datum:
                    bad = "the data do not denote the value given (%r)" % want[tag]
                if bad:
                    key = "OFXClient.download:USERPASS-unescaped" if tag == "USERPASS" else "OFXClient.%s:leaf-data-not-valid" % cname
                    fails.append(C.Failure(key, "OFXClient(...).%s(%s), %s: <%s>%s on the wire: %s" % (cname, ("password=%r" % pw) if signed else "", form, tag, datum, bad),
                                           {"kind": "client", "call": cname, "version": ver, "close_elements": close, "prettyprint": pretty, "password": pw, "given": given}))
    rep.extra["client_front_door"] = "%d requests composed" % done


HEADER_V1 = ("OFXHEADER:100\r\nDATA:OFXSGML\r\nVERSION:102\r\nSECURITY:NONE\r\nENCODING:USASCII\r\nCHARSET:1252\r\nCOMPRESSION:NONE\r\n"
             "OLDFILEUID:NONE\r\nNEWFILEUID:NONE\r\n\r\n")


def history_probe(T, rng, rep, fails, held):
    """state: after a FAILED OFXTree.convert(), Aggregate.from_etree() and constructor, bounded strict strings are still refused when over their limit
    (run last: it is about what earlier failures leave behind in the process).  [held]: String instances created before the failures."""
    S.scratch_env()
    notes = []
    try:
        import io
        import ofxtools.models as M
        from ofxtools.Parser import OFXTree
        from ofxtools.models.base import Aggregate
    except Exception as ex:
        rep.extra["history_probe"] = "skipped: %r" % (ex,)
        return
    def attempt(label, f):
        try:
            with warnings.catch_warnings():
                warnings.simplefilter("ignore")
                f()
            notes.append(label + ": succeeded")
        except Exception as ex:
            notes.append(label + ": " + type(ex).__name__)
    def failing_parse():
        t = OFXTree()
        t.parse(io.BytesIO((HEADER_V1 + "<OFX><SIGNONMSGSRSV1><SONRS><LANGUAGE>ENG</SONRS></SIGNONMSGSRSV1></OFX>").encode("ascii")))
        t.convert()
    def failing_from_etree():
        root = ET.Element("STMTTRN")
        ET.SubElement(root, "TRNTYPE").text = "DEBIT"
        Aggregate.from_etree(root)
    attempt("OFXTree.convert of a response missing required children", failing_parse)
    attempt("Aggregate.from_etree of an incomplete STMTTRN", failing_from_etree)
    attempt("constructor STMTTRN(trntype='DEBIT')", lambda: M.STMTTRN(trntype="DEBIT"))
    attempt("OFXTree.convert again", failing_parse)
    rep.extra["history_probe"] = notes
    why = "after " + "; ".join(notes)
    def fail(what, **kw):
        fails.append(C.Failure("String.strict:lowered-after-failed-conversion", what + " -- " + why, dict(kind="history", **kw)))
    for ln in (1, 4, 32, 255):
        for conv, which in ((T.String(ln), "a new String(%d)" % ln), (held.get(ln), "a String(%d) created earlier" % ln), (T.ListElement(T.String(ln, required=True)), "ListElement(String(%d))" % ln)):
            if conv is None:
                continue
            for v in ("x" * (ln + 1), ("e\u0301" * ln)[:ln + 1], "&" * (ln + 2)):
                with warnings.catch_warnings():
                    warnings.simplefilter("ignore")
                    out = S.call(T, conv, "unconvert", v)
                rep.count(("history", which, v), nontrivial=False, kind="history:String.unconvert:%s" % out[0])
                if out[0] == "ok":
                    fail("%s.unconvert of %d characters wrote %r" % (which, len(v), out[1][:40]), length=ln, value=v)
    utc = datetime.timezone.utc
    try:
        with warnings.catch_warnings():
            warnings.simplefilter("ignore")
            inst = M.STMTTRN(trntype="DEBIT", dtposted=datetime.datetime(2020, 1, 1, tzinfo=utc), trnamt=D("1"), fitid="f" * 256, name="n")
            txt = inst.to_etree().find("FITID").text
        fail("STMTTRN(fitid=256 characters) was accepted and to_etree() writes <FITID> with %d characters (limit 255)" % len(txt), length=255, value="f" * 256)
    except Exception:
        rep.count(("history", "STMTTRN.fitid"), nontrivial=False, kind="history:STMTTRN:refused")
    try:
        from ofxtools.Client import OFXClient, StmtRq
        with warnings.catch_warnings():
            warnings.simplefilter("ignore")
            body = OFXClient("https://ofx.example.invalid/", userid="u" * 33, org="O", fid="1", version=102, bankid="1").request_statements(
                "pw", StmtRq(acctid="1", accttype="CHECKING"), dryrun=True, skip_profile=True).read()
        if b"<USERID>" + b"u" * 33 in body:
            fail("OFXClient(userid=33 characters).request_statements(dryrun=True) wrote <USERID> with 33 characters (limit 32)", length=32, value="u" * 33)
    except Exception:
        rep.count(("history", "OFXClient.userid"), nontrivial=False, kind="history:OFXClient:refused")


RULE = ("unconvert stream: decimals across the whole range (coefficients of 1..34 digits, exponents -60..+60, normalize()d values, signed zeros, NaN/sNaN/Infinity) x scales "
        "None/0..8, integers at +-10^n and beyond the str-digit limit, booleans, strings over all code points incl. markup and non-ASCII at the length limits, token sets, "
        "wrong-type values; every text the implementation writes is checked against the independent lexical oracle; wire stream: strings over all code points serialized by "
        "ET.tostring(method='html') and tostring_unclosed_elements (plain and indented), the datum cut out of the bytes; date-times over all whole-minute offsets and zone "
        "names and sub-minute offsets (implementation only); request bytes of OFXClient.request_statements / request_accounts / request_profile (dryrun) in 7 wire forms with "
        "markup in password, user id, org, fid, bank and account ids; bounded-string limits re-probed after failed OFXTree.convert / from_etree / constructor. non-trivial = a text was written; distinct by (element, value) / (form, string)")


def run(rep, tier, rng):
    T = S.types()
    import ofxtools.utils as U
    thorough = tier == "thorough"
    deep = S.is_deep()
    rep.extra["deep_setting"] = deep
    K = 900 if thorough else (160 if deep else 80)
    fails = rep.failures
    enc = S.Enc()
    items, kept = [], []
    held_strings = {ln: T.String(ln) for ln in (1, 4, 32, 255)}          # created before anything can have failed (used by the history probe)

    # ---- 1. unconvert: implementation, lexical oracle, model
    cases = [c for c in S.load_corpus(PROP) if c[1] in ("convert", "unconvert")] + unconvert_cases(T, rng, K)
    done, convs = S.run_impl(T, cases, rep, PROP)
    texts = []
    for (e, op, v, out) in done:
        if op != "unconvert":
            continue
        b = S.base_elem(e)
        if out[0] == "ok" and out[1] is not None:
            if not isinstance(out[1], str) or not lexical_ok(b, out[1]):
                nm = b["type"] if b.get("strict", True) else "NagString"
                fails.append(C.Failure(lex_key(b, v, out[1] if isinstance(out[1], str) else ""),
                                       "%s(%s).unconvert(%r) wrote %r, which is not a valid OFX %s" % (nm, ", ".join("%s=%r" % (k, b[k]) for k in ("length", "scale") if b.get(k) is not None), v, out[1], b["type"]),
                                       {"kind": "unconvert", "elem": e, "op": op, "value": S.jval(v), "observed": S.jout(out)}))
            if isinstance(out[1], str):
                texts.append((b, out[1]))
    it, kp = S.coq_items(done, enc)
    items += it
    kept += [{"elem": e, "op": op, "value": S.jval(v), "implementation": S.jout(out)} for (e, op, v, out) in kp]

    # ---- 2. the Gallina lexical_ok against the Python oracle, on the texts written and on corruptions of them
    lex = []
    for (b, s) in texts[: (6000 if thorough else 1500)]:
        lex.append((b, s))
        if s and len(s) < 60:
            i = rng.randrange(len(s) + 1)
            lex.append((b, s[:i] + rng.choice("E+-.,e 5０x") + s[i:]))
            lex.append((b, s[:i] + s[i + 1:]))
    for b, s in [({"type": "Decimal"}, x) for x in ["", "+", "-", ".", ",", "1.", ".1", ",1", "1,", "1.2.3", "1,2.3", "+.5", "-5", "+-5", "1E+2", "NaN", "Infinity", "０", "1_0", " 1", "1 "]] + \
                [({"type": "Integer"}, x) for x in ["", "+", "-", "0", "-0", "+12", "1.0", "True", "1_0", " 1", "１"]] + [({"type": "Bool"}, x) for x in ["Y", "N", "", "y", "YN", "True"]]:
        lex.append((b, s))
    seen = set()
    for (b, s) in lex:
        k = (json.dumps(b, sort_keys=True), s)
        if k in seen or b["type"] in ("DateTime", "Time"):
            continue
        seen.add(k)
        want = lexical_ok(b, s)
        items.append("SLex %s %s %s" % (enc.sty(b), C.ctext(s), C.cbool(want)))
        kept.append({"lexical_oracle": b, "text": s, "python_oracle": want})
        rep.count(("lex",) + k, nontrivial=want, kind="lexical-rule:%s:%s" % (b["type"], want))

    # ---- 3. PyDecimal printing: str() and format(.,'f')
    for d in whole_range_decimals(rng, 4 * K):
        items.append("SDecStr %s %s" % (S.cdec(d), C.ctext(str(d)))); kept.append({"str": S.jval(d), "implementation": str(d)})
        items.append("SDecPlain %s %s" % (S.cdec(d), C.ctext(format(d, "f")))); kept.append({"format_f": S.jval(d), "implementation": format(d, "f")})
        rep.count(("print", str(d.as_tuple())), nontrivial=d.is_finite(), kind="decimal-printing")

    # ---- 4. wire data
    strings = load_wire_corpus() + all_char_strings(rng, 6 * K)
    seen = set()
    for s in strings:
        if s in seen:
            continue
        seen.add(s)
        for unclosed in (False, True):
            for pretty in (False, True):
                form = ("unclosed" if unclosed else "closed") + ("+indent" if pretty else "")
                try:
                    datum, body = datum_of(T, U, s, unclosed, pretty)
                except Exception as ex:      # refused (e.g. not encodable): nothing is written
                    rep.count((form, s), nontrivial=False, kind="wire:%s:refused" % form)
                    continue
                if datum is None:
                    fails.append(C.Failure("wire:%s:framing" % form, "serializing <MEMO>%r gave %r" % (s, body), {"kind": "wire", "form": form, "string": s, "observed": body}))
                    continue
                rep.count((form, s), nontrivial=True, kind="wire:%s" % form)
                if not wire_ok(datum):
                    key = "tostring_unclosed_elements:unescaped-data" if unclosed else "ET.tostring:unescaped-data"
                    fails.append(C.Failure(key, "%s form: element data %r is on the wire as %r (raw '<' or '&')" % (form, s, datum),
                                           {"kind": "wire", "form": form, "string": s, "observed": datum}))
                if not pretty:
                    items.append("SWire %s %s %s" % ("WUnclosed" if unclosed else "WClosed", C.ctext(s), C.ctext(datum)))
                    kept.append({"wire": form, "string": s, "implementation": datum})
        for x in (s, s.replace("&", "&amp;")):
            items.append("SWireOk %s %s" % (C.ctext(x), C.cbool(wire_ok(x)))); kept.append({"wire_oracle": x, "python_oracle": wire_ok(x)})

    # ---- 5. date-times and times (implementation and oracle only; the model is the C09 engine's)
    dtc, tc = T.DateTime(), T.Time()
    ldtc, ltc = T.ListElement(T.DateTime()), T.ListElement(T.Time(required=True))
    for k, dt in enumerate(aware_datetimes(rng, 8 * K)):
        for conv, v, b in ((dtc, dt, {"type": "DateTime"}), (tc, dt.timetz(), {"type": "Time"})) + (((ldtc, dt, {"type": "DateTime"}), (ltc, dt.timetz(), {"type": "Time"})) if k % 3 == 0 else ()):
            out = S.call(T, conv, "unconvert", v)
            rep.count((b["type"], conv is ldtc or conv is ltc, repr(v)), nontrivial=(out[0] == "ok"), kind="%s.unconvert:%s" % (b["type"], out[0]))
            if out[0] == "ok" and not lexical_ok(b, out[1]):
                key = "%s.unconvert:lexical" % b["type"]
                fails.append(C.Failure(key, "%s.unconvert(%r) wrote %r" % (b["type"], v, out[1]), {"kind": "datetime", "type": b["type"], "value": repr(v), "observed": out[1]}))

    # ---- 6. instances
    instance_leaves(T, rng, fails, rep, max(20, K // 2))

    # ---- 7. public entry points: the request bytes OFXClient composes, in every wire form
    client_requests(T, rng, rep, fails, 300 if thorough else 56)

    # ---- 8. history: what failed conversions leave behind (last on purpose)
    history_probe(T, rng, rep, fails, held_strings)

    for k in (0, len(kept) // 4, len(kept) // 2, len(kept) - 1):
        rep.sample(kept[k])
    rep.rule = RULE
    bad = C.coq_bad_indices(PROP, "scalars", S.IMPORTS, "scase_ok", "scase", items, shard=2000, prelude="\n".join(enc.prelude))
    for i in bad[:60]:
        rep.disagreements.append(kept[i])


def replay(obj):
    T = S.types()
    import ofxtools.utils as U
    r = obj["replay"]
    bad = False
    if r.get("kind") == "wire":
        form = r["form"]
        datum, body = datum_of(T, U, r["string"], form.startswith("unclosed"), form.endswith("indent"))
        print("replay %s form of %r -> datum %r" % (form, r["string"], datum))
        bad = datum is None or not wire_ok(datum)
    elif r.get("kind") == "unconvert":
        v = S.unjval(r["value"])
        conv = S.mk_elem(T, r["elem"])
        out = S.call(T, conv, "unconvert", v)
        print("replay %s.unconvert(%r) -> %r" % (json.dumps(r["elem"]), v, out))
        bad = out[0] == "ok" and out[1] is not None and not (isinstance(out[1], str) and lexical_ok(S.base_elem(r["elem"]), out[1]))
    elif r.get("kind") == "instance":
        import ofxtools.models as M
        d = S.unjval(r["value"])
        try:
            txt = M.BAL(name="n", desc="d", baltype="DOLLAR", value=d).to_etree().find("VALUE").text
            print("replay BAL(value=%r).to_etree() VALUE -> %r" % (d, txt))
            bad = not lexical_ok({"type": "Decimal"}, txt)
        except Exception as e:
            print("replay BAL(value=%r) refused: %r" % (d, e))
    elif r.get("kind") == "client":
        class _R:            # minimal stand-in for the report
            extra = {}
            def count(self, *a, **k): pass
        fl = []
        import random
        S.scratch_env()
        from ofxtools.Client import OFXClient, StmtRq
        g = r["given"]
        c = OFXClient("https://ofx.example.invalid/", userid=g["USERID"], org=g["ORG"], fid=g["FID"], version=r["version"], prettyprint=r["prettyprint"], close_elements=r["close_elements"], bankid=g["BANKID"])
        body = c.request_statements(r["password"], StmtRq(acctid=g["ACCTID"], accttype="CHECKING"), dryrun=True, skip_profile=True).read().decode("utf_8")
        want = {t: S.ref_unescape(v) for t, v in dict(g, USERPASS=r["password"]).items()}
        for m in LEAF_RE.finditer(body[body.find("<OFX>"):]):
            tag, datum = m.group(1), m.group(2).rstrip("\r\n ")
            if datum and tag in want and (not wire_ok(datum) or _sax_unescape(datum) != want[tag]):
                print("replay request_statements(password=%r): <%s>%s on the wire, value given %r" % (r["password"], tag, datum, want[tag]))
                bad = True
                break
        else:
            print("replay request_statements(password=%r): every given value is escaped and denoted" % (r["password"],))
    elif r.get("kind") == "history":
        class _R:
            extra = {}
            def count(self, *a, **k): pass
        fl = []
        import random
        history_probe(T, random.Random(0), _R(), fl, {ln: T.String(ln) for ln in (1, 4, 32, 255)})
        for f in fl[:3]:
            print("replay history: %s" % f.what[:300])
        bad = bool(fl)
        if not fl:
            print("replay history: over-long strict strings are still refused after the failed conversions (%s)" % _R.extra.get("history_probe"))
    elif r.get("kind") == "datetime" and str(r.get("value", "")).startswith("datetime."):
        v = eval(r["value"], {"datetime": datetime})          # the repr of an aware datetime / time written by this check
        b = {"type": r["type"]}
        for conv in ((T.DateTime(), T.ListElement(T.DateTime())) if r["type"] == "DateTime" else (T.Time(), T.ListElement(T.Time()))):
            out = S.call(T, conv, "unconvert", v)
            print("replay %s.unconvert(%r) -> %r" % (type(conv).__name__, v, out))
            bad = bad or (out[0] == "ok" and not lexical_ok(b, out[1]))
    else:
        print("replay: implementation-only case %r (re-run bin/check C11)" % (r,))
        bad = True
    if bad:
        print("VIOLATION property=C11 replay=(this file)")
    return 1 if bad else 0
