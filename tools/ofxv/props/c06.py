"""C06 - a composed request says exactly what the caller asked, in every configuration
(ofxtools/Client.py: OFXClient.__init__, request_statements/wrap_stmtrq, signon, the *trnrq builders, request_accounts,
request_tax1099, _request_profile, serialize; utils.tostring_unclosed_elements; header.make_header).

Every case = (constructor arguments, oracle uuid stream, oracle dtclient, one request).  The IMPLEMENTATION is run with
dryrun=True (OFXClient.uuid / dtclient replaced by the oracle values); the returned bytes are read back (a) by the
library (OFXTree.parse, then convert()) and (b) by the small tokenizer below, the two trees must agree, and that tree
plus the header text is what the Gallina model (Model/Compose.v, evaluated by vm_compute) must reproduce.
Independently, the property predicate is evaluated on the implementation's bytes from the caller's inputs alone."""
import os, re, io, json, glob, datetime, warnings, string, itertools
from .. import common as C
from ..translate_compose import gen_compose, ct

PROP = "C06"
COQ_EXTRA = ["theories/Model/ComposeCases.vo", "theories/Gen/ComposeGen.vo"]
PARTIAL = [
    "date-times are abstract in the model (an aware datetime is the text its formatting gives; formatting and parsing of date-times is C09); "
    "the harness supplies that text from its own formatter and compares instants with its own reader; UTC offsets outside -12h..+14h "
    "(refused by the library's reader) and years < 1000 are outside the domain",
    "composed_parses_back (bytes of serialize -> parse_header -> TreeBuilder gives back header and tree, all four requests, v1/v2, pretty or "
    "not, closed or not) is proved by composing the closed forms with the Header / Sgml / Serialize engines' theorems (Proofs/FileRoundTrip.v), "
    "under decidable domain hypotheses: uuids over [A-Za-z0-9_-] (<= 36), every written datum non-empty and stripped, Unicode scalar values only, "
    "and for close_elements=False no aggregate without children (excludes the tax request with no year and no id); that hypothesis set is not "
    "derived from conditions on the individual inputs (it is stated on the composed tree), and conversion of the read tree back to model "
    "instances (convert()) is C01's theorem over the schema engine, not restated here; the run also reads every case back with both readers",
    "a str handed to a constructor is passed through saxutils.unescape by String.convert: a caller's value containing an entity reference "
    "(&amp; &lt; &gt; &quot; &apos; &nbsp;) is changed before it is written; the theorems state the written value as [norm v] (= v when v has no '&'); "
    "recorded finding entity-reference-in-value-unescaped with the witness signon_entity_refuted",
    "values with leading/trailing whitespace are outside the domain (the readers strip element data); tax years: Python int() is modelled on ASCII text; "
    "a tax request with no year and no id (an empty TAX1099RQ) is not generated without end tags",
    "requests that are instances of user subclasses of the five parameter classes (class Tagged(CcStmtRq): pass) are modelled "
    "(request_statements_named: sort by class name, group by class, dispatch to the base kind), run through the correspondence and the predicate "
    "(one wrapper per request, request order within each class), and proved to coincide with request_statements on the stock names "
    "(named_requests_stock); the closed-form theorems themselves are stated for the stock classes only",
    "the constructor guard is modelled and proved (v2_refuses_unclosed) but observed through requests only: removing it alone is not reported, "
    "because serialize still refuses and no 2xx request without end tags is composed",
]
MANIFEST = {
    "engine": "Compose",
    "text": "Twelve obligations about the executable model of request composition. For every configuration and EVERY list of requests (any length, order, "
            "mix) the composed body is OFX[sign-on; BANKMSGSRQV1[closing, statement wrappers]; CREDITCARDMSGSRQV1[...]; INVSTMTMSGSRQV1[...]] with a message "
            "set present iff it has a wrapper and the wrappers of each kind in request order within the kind (closed form of the sorted/groupby/sort/"
            "groupby/dict pipeline, proved from a stable-sort-by-rank lemma), each wrapper carrying its request's ids, type, dates and flags; exactly one "
            "sign-on with the supplied identity (FI iff ORG, CLIENTUID iff configured and version >= 103); TRNUIDs pairwise distinct, one per request, given a "
            "duplicate-free uuid stream; header text carries the effective version; 2xx + close_elements=False is refused by the constructor and by "
            "serialize, so never composed; the tax request carries ACCTNUM, RECID and the years; the bytes serialize writes are split by parse_header into that header and read by the tree builder into the composed tree with its data entity-escaped (composed_parses_back, integration with C05/C02). The model is tied to Client.py by regenerating defaults, "
            "class names and the shapes of the 31 aggregate classes from the live classes (schema_as_modelled is an obligation) and by evaluating it inside "
            "Coq on the same ~10^3 (thorough ~2*10^4) cases as the implementation, whose dry-run bytes are read back by the library and by an independent "
            "tokenizer; the property predicate is evaluated on those bytes from the caller's inputs alone.",
    "note": "Trusted: Coq kernel + vm_compute; the hand transcription Model/Compose.v (validated by the correspondence run only); the translator; the "
            "harness's date formatter/reader and tokenizer. Print Assumptions: closed under the global context. Known finding: values with entity "
            "references are unescaped at construction. Fixed: request_tax1099 dropped acctnum (0610dbe); unclosed writer did not escape (29e64bd).",
}
VERSIONS = [102, 103, 151, 160, 200, 201, 202, 203, 210, 211, 220]
KINDS = ["StmtRq", "CcStmtRq", "InvStmtRq", "StmtEndRq", "CcStmtEndRq"]
TRN = {"StmtRq": ("BANKMSGSRQV1", "STMTTRNRQ", "STMTRQ"), "StmtEndRq": ("BANKMSGSRQV1", "STMTENDTRNRQ", "STMTENDRQ"),
       "CcStmtRq": ("CREDITCARDMSGSRQV1", "CCSTMTTRNRQ", "CCSTMTRQ"), "CcStmtEndRq": ("CREDITCARDMSGSRQV1", "CCSTMTENDTRNRQ", "CCSTMTENDRQ"),
       "InvStmtRq": ("INVSTMTMSGSRQV1", "INVSTMTTRNRQ", "INVSTMTRQ")}
# user subclasses of the stock parameter classes (class Tagged(CcStmtRq): pass); the names sort before / between / after the stock ones
SUBCLASSES = {"AaStmtRq": "StmtRq", "TaggedCcStmtRq": "CcStmtRq", "DInvStmtRq": "InvStmtRq", "MStmtEndRq": "StmtEndRq",
              "ZCcStmtEndRq": "CcStmtEndRq", "CdStmtRq": "StmtRq", "JCcStmtRq": "CcStmtRq", "StmtRqX": "StmtRq",
              "BInvStmtRq": "InvStmtRq", "UStmtEndRq": "StmtEndRq", "KCcStmtEndRq": "CcStmtEndRq"}
_SUBCLASS_CACHE = {}
INIT_KEYS = ["userid", "clientuid", "org", "fid", "version", "appid", "appver", "language", "prettyprint", "close_elements",
             "bankid", "brokerid", "useragent", "persist_cookies"]
ENTITIES = ("&amp;", "&lt;", "&gt;", "&quot;", "&apos;", "&nbsp;")
EPOCH = datetime.datetime(1970, 1, 1, tzinfo=datetime.timezone.utc)


def translate():
    return gen_compose()


# ------------------------------------------------------------------ date-times (harness side, independent of Types.py)
def mk_dt(d):
    """case JSON -> datetime | None"""
    if d is None:
        return None
    args = (d["y"], d["mo"], d["d"], d["h"], d["mi"], d["s"], d["us"])
    if d.get("off") is None:
        return datetime.datetime(*args)                      # naive
    if d.get("libutc"):
        from ofxtools.utils import UTC
        return datetime.datetime(*args, tzinfo=UTC)
    td = datetime.timedelta(minutes=d["off"])
    tz = datetime.timezone(td, d["name"]) if d.get("name") is not None else datetime.timezone(td)
    return datetime.datetime(*args, tzinfo=tz)


def fmt_dt(dt):
    """the OFX text of an aware datetime: YYYYMMDDHHMMSS.XXX[+h[.mm][:name]], rounded to the nearest millisecond"""
    off = dt.utcoffset()
    v = dt + datetime.timedelta(microseconds=500)
    mins = off // datetime.timedelta(minutes=1)
    h, m = divmod(abs(mins), 60)
    tz = ("-" if mins < 0 else "+") + "%d" % h + (".%02d" % m if m else "")
    name = dt.tzname()
    if name is not None:
        tz += ":" + name
    return "%04d%02d%02d%02d%02d%02d.%03d[%s]" % (v.year, v.month, v.day, v.hour, v.minute, v.second, v.microsecond // 1000, tz)


def instant_ms(dt):
    return ((dt - EPOCH) // datetime.timedelta(microseconds=1) + 500) // 1000


DT_WIRE = re.compile(r"^(\d{4})(\d\d)(\d\d)(\d\d)(\d\d)(\d\d)\.(\d{3})\[([+-])(\d+)(?:\.(\d\d))?(?::[^\]]*)?\]$")


def wire_instant_ms(text):
    m = DT_WIRE.match(text or "")
    if not m:
        return ("unreadable", text)
    y, mo, d, h, mi, s, ms = (int(m.group(i)) for i in range(1, 8))
    off = (int(m.group(9)) * 60 + int(m.group(10) or 0)) * (-1 if m.group(8) == "-" else 1)
    local = datetime.datetime(y, mo, d, h, mi, s, tzinfo=datetime.timezone.utc)
    return (local - EPOCH) // datetime.timedelta(milliseconds=1) + ms - off * 60000


def pdate(d):
    if d is None:
        return "DNone"
    if d.get("off") is None:
        return "DNaive"
    return "(DAware %s)" % ct(fmt_dt(mk_dt(d)))


# ------------------------------------------------------------------ independent reader of the composed bytes
class Malformed(Exception):
    pass


def unesc(s):
    return s.replace("&lt;", "<").replace("&gt;", ">").replace("&amp;", "&")


def tok_parse(data):
    """bytes -> (header text, {VERSION, NEWFILEUID, ...}, tree) with tree = [tag, text|None, [children]].
    SGML (end tags of elements optional) and XML forms; anything else raises Malformed."""
    try:
        text = data.decode("utf-8")
    except UnicodeDecodeError as e:
        raise Malformed("not UTF-8: %s" % e)
    i = text.find("<OFX>")
    if i < 0:
        raise Malformed("no <OFX>")
    header, body = text[:i], text[i:]
    fields = {}
    if header.startswith("<?xml"):
        m = re.fullmatch(r"<\?xml ([^?]*)\?>\r\n<\?OFX ([^?]*)\?>\r\n", header)
        if not m:
            raise Malformed("bad XML prolog %r" % header)
        for k, v in re.findall(r'(\w+)="([^"]*)"', m.group(2)):
            fields[k] = v
        if fields.get("OFXHEADER") != "200":
            raise Malformed("OFXHEADER != 200")
        fields["_major"] = 2
    else:
        lines = header.split("\r\n")
        if lines[-2:] != ["", ""]:
            raise Malformed("v1 header not terminated by an empty line")
        for ln in lines[:-2]:
            k, sep, v = ln.partition(":")
            if not sep or not k:
                raise Malformed("bad header line %r" % ln)
            fields[k] = v
        if fields.get("OFXHEADER") != "100":
            raise Malformed("OFXHEADER != 100")
        fields["_major"] = 1
    if not re.fullmatch(r"\d+", fields.get("VERSION", "")):
        raise Malformed("no VERSION")
    root, stack, pos, pending_leaf = None, [], 0, None
    n = len(body)
    while pos < n:
        if body[pos] != "<":
            j = body.find("<", pos)
            j = n if j < 0 else j
            if body[pos:j].strip():
                raise Malformed("stray text %r" % body[pos:j])
            pos = j
            continue
        j = body.find(">", pos)
        if j < 0:
            raise Malformed("unterminated tag")
        tag = body[pos + 1:j]
        pos = j + 1
        k = body.find("<", pos)
        k = n if k < 0 else k
        txt = body[pos:k].strip()
        pos = k
        if tag.startswith("/"):
            name = tag[1:]
            if txt:
                raise Malformed("text after </%s>" % name)
            if pending_leaf is not None and pending_leaf == name:
                pending_leaf = None
                continue
            pending_leaf = None
            if not stack or stack[-1][0] != name:
                raise Malformed("</%s> does not close %s" % (name, stack[-1][0] if stack else "anything"))
            stack.pop()
            if not stack and body[pos:].strip():
                raise Malformed("content after the root")
            continue
        if not re.fullmatch(r"[A-Z0-9.]+", tag):
            raise Malformed("bad tag <%s>" % tag)
        node = [tag, None, []]
        if stack:
            stack[-1][2].append(node)
        elif root is None:
            root = node
        else:
            raise Malformed("second root")
        if txt:
            node[1] = unesc(txt)
            pending_leaf = tag
        else:
            stack.append(node)
            pending_leaf = None
    if stack or root is None:
        raise Malformed("unclosed aggregate %s" % (stack[-1][0] if stack else "(none)"))
    return header, fields, root


def lib_parse(data):
    """the library's reader: OFXTree.parse -> same tree shape (texts unescaped as the converters will), then convert()"""
    from ofxtools.Parser import OFXTree
    t = OFXTree()
    root = t.parse(io.BytesIO(data))

    def walk(e):
        txt = e.text.strip() if e.text and e.text.strip() else None
        return [e.tag, unesc(txt) if txt is not None else None, [walk(c) for c in e]]
    tree = walk(root)
    t.convert()
    return t.header, tree


# ------------------------------------------------------------------ running the implementation
class Oracle:
    it = iter(())
    dtclient = None


def install_oracles():
    import ofxtools.Client as CL
    from ofxtools.utils import classproperty
    CL.OFXClient.uuid = classproperty(classmethod(lambda cls: next(Oracle.it)))
    CL.OFXClient.dtclient = lambda self: Oracle.dtclient


def request_class(CL, r):
    base = getattr(CL, r["k"])
    name = r.get("cls")
    if not name:
        return base
    if SUBCLASSES.get(name) != r["k"]:
        raise AssertionError("unknown subclass %r of %s" % (name, r["k"]))
    key = (id(base), name)
    if key not in _SUBCLASS_CACHE:
        _SUBCLASS_CACHE[key] = type(name, (base,), {})          # class <name>(<base>): pass
    return _SUBCLASS_CACHE[key]


def mk_request(CL, r):
    cls = request_class(CL, r)
    kw = {f: (mk_dt(v) if f.startswith("dt") else v) for f, v in r.items() if f not in ("k", "cls")}
    return cls(**kw)


def run_impl(case):
    """-> ('ok', bytes) | ('reject'|'crash', exception name)"""
    import ofxtools.Client as CL
    Oracle.it = iter(case["uuids"])
    Oracle.dtclient = mk_dt(case["dtclient"])
    op = case["op"]
    try:
        with warnings.catch_warnings():
            warnings.simplefilter("ignore")
            cl = CL.OFXClient(case.get("url", "https://ofx.example.invalid/x"), **case["init"])
            if op["kind"] == "statements":
                rqs = [mk_request(CL, r) for r in op["requests"]]
                out = cl.request_statements(op["password"], *rqs, gen_newfileuid=op["gen"], dryrun=True)
            elif op["kind"] == "accounts":
                out = cl.request_accounts(op["password"], mk_dt(op["dtacctup"]), gen_newfileuid=op["gen"], dryrun=True)
            elif op["kind"] == "tax":
                out = cl.request_tax1099(op["password"], *op["years"], acctnum=op["acctnum"], recid=op["recid"], gen_newfileuid=op["gen"], dryrun=True)
            elif op["kind"] == "profile":
                out = cl._request_profile(dtprofup=mk_dt(op["dtprofup"]), version=op["version"], prettyprint=op["prettyprint"],
                                          close_elements=op["close_elements"], gen_newfileuid=op["gen"], dryrun=True)
            else:
                raise AssertionError(op["kind"])
            return ("ok", out.read())
    except (ValueError, TypeError, SyntaxError) as e:
        return ("reject", type(e).__name__ + ": " + str(e)[:120])
    except Exception as e:
        return ("crash", type(e).__name__ + ": " + str(e)[:120])


# ------------------------------------------------------------------ Coq encoding
def co(v, f=ct):
    return "None" if v is None else "(Some %s)" % f(v)


def coq_init(case):
    a = case["init"]
    g = a.get
    return "(IA %s %s %s %s %s %s %s %s %s %s %s %s %s %s %s)" % (
        ct(case.get("url", "https://ofx.example.invalid/x")), co(g("userid")), co(g("clientuid")), co(g("org")), co(g("fid")),
        co(g("version"), C.cN), co(g("appid")), co(g("appver")), co(g("language")), co(g("prettyprint"), C.cbool),
        co(g("close_elements"), C.cbool), co(g("bankid")), co(g("brokerid")), co(g("useragent")), co(g("persist_cookies"), C.cbool))


def coq_rq(r):
    k = r["k"]
    b = lambda v: co(v, C.cbool)
    if k == "StmtRq":
        return "StmtRq %s %s %s %s %s" % (co(r["acctid"]), co(r["accttype"]), pdate(r["dtstart"]), pdate(r["dtend"]), b(r["inctran"]))
    if k == "CcStmtRq":
        return "CcStmtRq %s %s %s %s" % (co(r["acctid"]), pdate(r["dtstart"]), pdate(r["dtend"]), b(r["inctran"]))
    if k == "InvStmtRq":
        return "InvStmtRq %s %s %s %s %s %s %s %s" % (co(r["acctid"]), pdate(r["dtstart"]), pdate(r["dtend"]), pdate(r["dtasof"]),
                                                     b(r["inctran"]), b(r["incoo"]), b(r["incpos"]), b(r["incbal"]))
    if k == "StmtEndRq":
        return "StmtEndRq %s %s %s %s" % (co(r["acctid"]), co(r["accttype"]), pdate(r["dtstart"]), pdate(r["dtend"]))
    return "CcStmtEndRq %s %s %s" % (co(r["acctid"]), pdate(r["dtstart"]), pdate(r["dtend"]))


def coq_op(op):
    g = C.cbool(op["gen"])
    if op["kind"] == "statements":
        if any(r.get("cls") for r in op["requests"]):
            return "(OpStatementsNamed %s %s [%s])" % (ct(op["password"]), g, ";".join("(%s, %s)" % (ct(r.get("cls") or r["k"]), coq_rq(r)) for r in op["requests"]))
        return "(OpStatements %s %s [%s])" % (ct(op["password"]), g, ";".join(coq_rq(r) for r in op["requests"]))
    if op["kind"] == "accounts":
        return "(OpAccounts %s %s %s)" % (ct(op["password"]), pdate(op["dtacctup"]), g)
    if op["kind"] == "tax":
        return "(OpTax %s [%s] %s %s %s)" % (ct(op["password"]), ";".join(ct(y) for y in op["years"]), co(op["acctnum"]), co(op["recid"]), g)
    return "(OpProfile %s %s %s %s)" % (pdate(op["dtprofup"]), co(op["version"], C.cN), co(op["close_elements"], C.cbool), g)


def coq_tree(t):
    tag, txt, ch = t
    if txt is not None and not ch:
        return "L %s %s" % (ct(tag), ct(txt))
    if txt is None:
        return "G %s [%s]" % (ct(tag), ";".join(coq_tree(c) for c in ch))
    return "Node %s (Some %s) [%s]" % (ct(tag), ct(txt), ";".join(coq_tree(c) for c in ch))


def coq_case(case, outcome):
    if outcome[0] == "ok":
        exp = "(CO %s (%s))" % (ct(outcome[1]), coq_tree(outcome[2]))
    else:
        exp = "(Err Reject)" if outcome[0] == "reject" else "(Err Crash)"
    return "CCase %s [%s] %s %s %s" % (coq_init(case), ";".join(ct(u) for u in case["uuids"]), pdate(case["dtclient"]), coq_op(case["op"]), exp)


# ------------------------------------------------------------------ the property predicate (from the property text)
def has_markup(s):
    return s is not None and any(c in s for c in "&<>")


def case_strings(case):
    """every caller-supplied text that ends up as element data"""
    a, op = case["init"], case["op"]
    out = [a.get(k) for k in ("userid", "clientuid", "org", "fid", "appid", "appver", "bankid", "brokerid")]
    out += [op.get("password"), op.get("acctnum"), op.get("recid")]
    out += [r.get("acctid") for r in op.get("requests", [])]
    out += list(case["uuids"])
    return [s for s in out if isinstance(s, str)]


def effective(case):
    """(version, close_elements, userid, ...) as the configuration the caller asked for, with the class defaults"""
    import ofxtools.Client as CL
    K = CL.OFXClient
    a = case["init"]
    eff = {k: (a[k] if a.get(k) is not None else getattr(K, k)) for k in INIT_KEYS}
    return eff


def in_domain(case, lang_codes, accttypes):
    """the inputs the property quantifies over (everything else only goes through the model comparison)"""
    eff = effective(case)
    op = case["op"]

    def okstr(s, n, opt=False):
        if s is None:
            return opt
        return isinstance(s, str) and 0 < len(s) <= n and s == s.strip() and all(32 <= ord(c) < 127 or ord(c) > 160 for c in s)
    if eff["version"] not in VERSIONS:
        return False
    if not (okstr(eff["userid"], 32) and okstr(eff["appid"], 5) and okstr(eff["appver"], 4) and eff["language"] in lang_codes):
        return False
    if not (okstr(eff["org"], 32, True) and okstr(eff["fid"], 32, True) and okstr(eff["clientuid"], 36, True)):
        return False
    if eff["fid"] is not None and eff["org"] is None:
        return False
    if case["dtclient"] is None or case["dtclient"].get("off") is None:
        return False
    uu = case["uuids"]
    if len(set(uu)) != len(uu) or not all(re.fullmatch(r"[0-9A-Za-z-]{1,36}", u) for u in uu):
        return False

    def okdate(d, opt=True):
        return opt if d is None else d.get("off") is not None
    if op["kind"] != "profile" and not okstr(op["password"], 171):
        return False
    if op["kind"] == "statements":
        for r in op["requests"]:
            if not okstr(r["acctid"], 10 ** 6):
                return False
            if r["k"] in ("StmtRq", "StmtEndRq") and (r["accttype"] not in accttypes or not okstr(eff["bankid"], 9)):
                return False
            if r["k"] == "InvStmtRq" and not okstr(eff["brokerid"], 22):
                return False
            for f, v in r.items():
                if f.startswith("dt") and not okdate(v):
                    return False
                if f.startswith("inc") and not isinstance(v, bool):
                    return False
        return len(uu) >= len(op["requests"]) + 1
    if op["kind"] == "accounts":
        return okdate(op["dtacctup"], False) and len(uu) >= 2
    if op["kind"] == "tax":
        return (len(op["years"]) >= 1 and all(re.fullmatch(r"[1-9][0-9]{3}", y) for y in op["years"]) and okstr(op["acctnum"], 32, True)
                and okstr(op["recid"], 32, True) and len(uu) >= 2)
    if op["kind"] == "profile":
        v = op["version"] if op["version"] is not None else eff["version"]
        return v in VERSIONS and okdate(op["dtprofup"]) and len(uu) >= 2
    return False


def kids(node, tag):
    return [c for c in node[2] if c[0] == tag]


def leafmap(node):
    """{TAG: text} of the leaf children; aggregates as nested nodes under their tag"""
    d = {}
    for c in node[2]:
        if c[0] in d:
            d[c[0]] = ("duplicate", d[c[0]], c)
        else:
            d[c[0]] = c[1] if not c[2] and c[1] is not None else c
    return d


def date_ms(d):
    return None if d is None else instant_ms(mk_dt(d))


def wire_ms(x):
    return None if x is None else wire_instant_ms(x)


def yn(x):
    return {"Y": True, "N": False}.get(x, ("not-a-flag", x))


def predicate(case, header_fields, tree):
    """-> list of (aspect, expected, observed) on which the composed request does not say what the caller asked"""
    import ofxtools.Client as CL
    eff = effective(case)
    op = case["op"]
    bad = []

    def chk(aspect, want, got):
        if want != got:
            bad.append((aspect, want, got))
    version = eff["version"]
    if op["kind"] == "profile" and op["version"] is not None:
        version = op["version"]
    chk("header VERSION", str(version), header_fields.get("VERSION"))
    chk("header family", 1 if version < 200 else 2, header_fields.get("_major"))
    chk("root", "OFX", tree[0])
    # ---- one sign-on with exactly the supplied fields
    so = kids(tree, "SIGNONMSGSRQV1")
    chk("number of SIGNONMSGSRQV1", 1, len(so))
    if len(so) == 1:
        chk("children of SIGNONMSGSRQV1", ["SONRQ"], [c[0] for c in so[0][2]])
        for sonrq in kids(so[0], "SONRQ")[:1]:
            m = leafmap(sonrq)
            profile = op["kind"] == "profile"
            want = {"USERID": CL.AUTH_PLACEHOLDER if profile else eff["userid"],
                    "USERPASS": CL.AUTH_PLACEHOLDER if profile else op["password"],
                    "LANGUAGE": eff["language"], "APPID": eff["appid"], "APPVER": eff["appver"]}
            if eff["clientuid"] is not None and eff["version"] >= 103:
                want["CLIENTUID"] = eff["clientuid"]
            got = {k: v for k, v in m.items() if k not in ("DTCLIENT", "FI")}
            for k in sorted(set(want) | set(got)):
                chk("SONRQ " + k, want.get(k), got.get(k))
            chk("SONRQ DTCLIENT", date_ms(case["dtclient"]), wire_ms(m.get("DTCLIENT") if isinstance(m.get("DTCLIENT"), str) else None))
            fi = m.get("FI")
            if eff["org"] is not None:
                chk("FI", {"ORG": eff["org"], **({"FID": eff["fid"]} if eff["fid"] is not None else {})}, leafmap(fi) if isinstance(fi, list) else fi)
            else:
                chk("FI", None, fi)
    # ---- exactly one wrapper per requested account, right message set, request order within each kind
    present = [c[0] for c in tree[2] if c[0] != "SIGNONMSGSRQV1"]
    trnuids = []
    if op["kind"] == "statements":
        want_sets = []
        for ms in ("BANKMSGSRQV1", "CREDITCARDMSGSRQV1", "INVSTMTMSGSRQV1"):
            if any(TRN[r["k"]][0] == ms for r in op["requests"]):
                want_sets.append(ms)
        chk("message sets present", sorted(want_sets), sorted(present))
        for ms in want_sets:
            for node in kids(tree, ms)[:1]:
                kinds_here = [k for k in KINDS if TRN[k][0] == ms]
                chk("wrapper tags under " + ms, sorted(TRN[r["k"]][1] for r in op["requests"] if r["k"] in kinds_here), sorted(c[0] for c in node[2]))
                for k in kinds_here:
                    _, trntag, rqtag = TRN[k]
                    mine = [r for r in op["requests"] if r["k"] == k]
                    want = [describe_request(r, eff) for r in mine]
                    got = [describe_wrapper(k, w, rqtag) for w in kids(node, trntag)]
                    classes = sorted({r.get("cls") or r["k"] for r in mine})
                    if len(classes) <= 1:
                        chk("%s wrappers (request order)" % trntag, want, got)
                    else:
                        # several classes share this wrapper type (user subclasses): one wrapper per request, and request
                        # order within each class
                        # (compared as lists of dicts, ordered by the account id, so that the recorded finding -- a value holding an entity
                        # reference comes back unescaped -- is recognised by classify() here as everywhere else: the thorough tier once reported
                        # it under these keys as five "new" failing inputs)
                        key = lambda d: json.dumps({k: v for k, v in d.items() if k in ("acctid", "accttype", "dtstart", "dtend")}, sort_keys=True, default=str)
                        chk("%s wrappers (one per request)" % trntag, sorted(want, key=key), sorted(got, key=key))
                        for cn in classes:
                            sub = [describe_request(r, eff) for r in mine if (r.get("cls") or r["k"]) == cn]
                            theirs = [g for g in got if any(g == x or same_modulo_entities(x, g) for x in sub)]
                            chk("%s wrappers of class %s (request order)" % (trntag, cn), sub, theirs)
                for w in node[2]:
                    trnuids.append(leafmap(w).get("TRNUID"))
    else:
        ms, trn, inner = {"accounts": ("SIGNUPMSGSRQV1", "ACCTINFOTRNRQ", "ACCTINFORQ"), "tax": ("TAX1099MSGSRQV1", "TAX1099TRNRQ", "TAX1099RQ"),
                          "profile": ("PROFMSGSRQV1", "PROFTRNRQ", "PROFRQ")}[op["kind"]]
        chk("message sets present", [ms], present)
        for node in kids(tree, ms)[:1]:
            chk("wrappers under " + ms, [trn], [c[0] for c in node[2]])
            for w in kids(node, trn)[:1]:
                trnuids.append(leafmap(w).get("TRNUID"))
                chk("children of " + trn, ["TRNUID", inner], [c[0] for c in w[2]])
                for rq in kids(w, inner)[:1]:
                    if op["kind"] == "accounts":
                        chk("ACCTINFORQ", {"DTACCTUP": date_ms(op["dtacctup"])}, {c[0]: wire_ms(c[1]) for c in rq[2]})
                    elif op["kind"] == "tax":
                        chk("TAX1099RQ years", [int(y) for y in op["years"]], [int(c[1]) if re.fullmatch(r"\d+", c[1] or "") else c[1] for c in kids(rq, "TAXYEAR")])
                        chk("TAX1099RQ RECID", [op["recid"]] if op["recid"] else [], [c[1] for c in kids(rq, "RECID")])
                        chk("TAX1099RQ ACCTNUM", [op["acctnum"]] if op["acctnum"] else [], [c[1] for c in kids(rq, "ACCTNUM")])
                        chk("TAX1099RQ other children", [], [c[0] for c in rq[2] if c[0] not in ("TAXYEAR", "RECID", "ACCTNUM")])
                    else:
                        m = leafmap(rq)
                        chk("PROFRQ CLIENTROUTING", "NONE", m.get("CLIENTROUTING"))
                        if op["dtprofup"] is not None:
                            chk("PROFRQ DTPROFUP", date_ms(op["dtprofup"]), wire_ms(m.get("DTPROFUP")))
    chk("every wrapper has a TRNUID", True, all(isinstance(u, str) and u for u in trnuids))
    chk("TRNUIDs pairwise distinct", len(trnuids), len(set(map(str, trnuids))))
    return bad


def describe_request(r, eff):
    """what the caller asked for one account, in the vocabulary of the property text"""
    k = r["k"]
    d = {"acctid": r["acctid"]}
    if k in ("StmtRq", "StmtEndRq"):
        d["bankid"], d["accttype"] = eff["bankid"], r["accttype"]
    if k == "InvStmtRq":
        d["brokerid"] = eff["brokerid"]
        d["incoo"], d["incpos"], d["incbal"], d["dtasof"] = r["incoo"], r["incpos"], r["incbal"], date_ms(r["dtasof"])
    if k in ("StmtRq", "CcStmtRq"):
        # bank / credit card: the wrapper carries the date range and the include flag as given, also for inctran=False
        d["inctran"] = r["inctran"]
        d["dtstart"], d["dtend"] = date_ms(r["dtstart"]), date_ms(r["dtend"])
    elif k == "InvStmtRq":
        # investment (reading adopted): INCTRAN absent says "no transactions"; the date range only matters with inctran=True
        d["inctran"] = r["inctran"]
        d["dtstart"], d["dtend"] = (date_ms(r["dtstart"]), date_ms(r["dtend"])) if r["inctran"] else (None, None)
    else:
        d["dtstart"], d["dtend"] = date_ms(r["dtstart"]), date_ms(r["dtend"])
    return d


def describe_wrapper(k, w, rqtag):
    rqs = kids(w, rqtag)
    if len(rqs) != 1 or [c[0] for c in w[2]] != ["TRNUID", rqtag]:
        return ("malformed wrapper", [c[0] for c in w[2]])
    rq = leafmap(rqs[0])
    d = {}
    acct = rq.get({"StmtRq": "BANKACCTFROM", "StmtEndRq": "BANKACCTFROM", "CcStmtRq": "CCACCTFROM", "CcStmtEndRq": "CCACCTFROM", "InvStmtRq": "INVACCTFROM"}[k])
    am = leafmap(acct) if isinstance(acct, list) else {}
    d["acctid"] = am.get("ACCTID")
    extra = set(am) - {"ACCTID", "BANKID", "ACCTTYPE", "BROKERID"}
    if k in ("StmtRq", "StmtEndRq"):
        d["bankid"], d["accttype"] = am.get("BANKID"), am.get("ACCTTYPE")
    if k == "InvStmtRq":
        d["brokerid"] = am.get("BROKERID")
        pos = rq.get("INCPOS")
        pm = leafmap(pos) if isinstance(pos, list) else {}
        d["incoo"], d["incpos"], d["incbal"], d["dtasof"] = yn(rq.get("INCOO")), yn(pm.get("INCLUDE")), yn(rq.get("INCBAL")), wire_ms(pm.get("DTASOF"))
    if k in ("StmtRq", "CcStmtRq"):
        inc = rq.get("INCTRAN")
        if isinstance(inc, list):
            im = leafmap(inc)
            d["inctran"] = yn(im.get("INCLUDE"))
            d["dtstart"], d["dtend"] = wire_ms(im.get("DTSTART")), wire_ms(im.get("DTEND"))
        else:
            d["inctran"], d["dtstart"], d["dtend"] = ("no INCTRAN",), None, None
    elif k == "InvStmtRq":
        inc = rq.get("INCTRAN")
        if isinstance(inc, list):
            im = leafmap(inc)
            d["inctran"] = yn(im.get("INCLUDE"))
            d["dtstart"], d["dtend"] = (wire_ms(im.get("DTSTART")), wire_ms(im.get("DTEND"))) if d["inctran"] is True else (None, None)
        else:
            d["inctran"], d["dtstart"], d["dtend"] = False, None, None
    else:
        d["dtstart"], d["dtend"] = wire_ms(rq.get("DTSTART")), wire_ms(rq.get("DTEND"))
    if extra:
        d["unexpected"] = sorted(extra)
    return d


def evaluate(case, outcome, fields, problems):
    """the property on one in-domain case -> list of (aspect, expected, observed); [] = the composed request is right"""
    if outcome[0] in ("reject", "crash"):
        return [("request composed", "a request", outcome[1])]
    if outcome[0] == "ok-unreadable" or problems:
        return [("well-formed OFX file", "readable by the library and by the independent reader", (problems or ["?"])[0])]
    return predicate(case, fields, outcome[2])


def same_modulo_entities(w, g):
    """value v came back as unescape(v) (somewhere inside)"""
    if isinstance(w, str) and isinstance(g, str):
        return w != g and py_unescape(w).strip() == g
    if isinstance(w, dict) and isinstance(g, dict) and set(w) == set(g):
        return all(w[k] == g[k] or same_modulo_entities(w[k], g[k]) for k in w)
    if isinstance(w, list) and isinstance(g, list) and len(w) == len(g):
        return all(a == b or same_modulo_entities(a, b) for a, b in zip(w, g))
    return False


def classify(case, diff):
    """name the defect behind ONE difference (known findings are listed by these keys)"""
    aspect, want, got = diff
    only_entities = same_modulo_entities
    if only_entities(want, got):
        return "entity-reference-in-value-unescaped"
    if case["op"]["kind"] == "tax" and aspect == "TAX1099RQ ACCTNUM" and got == [] and case["op"]["acctnum"]:
        return "request_tax1099-drops-acctnum"
    return "composed-request-differs:" + re.sub(r"\W+", "-", aspect)


def py_unescape(s):
    for a, b in (("&lt;", "<"), ("&gt;", ">"), ("&nbsp;", " "), ("&apos;", "'"), ("&quot;", '"'), ("&amp;", "&")):
        s = s.replace(a, b)
    return s


# ------------------------------------------------------------------ generators
ALNUM = string.ascii_letters + string.digits
PRINT = "".join(chr(c) for c in range(33, 127))


def gen_text(rng, lo, hi, flavour=None):
    n = rng.randint(lo, hi)
    fl = flavour or rng.choice(["alnum", "alnum", "print", "markup", "space", "uni"])
    if fl == "alnum":
        s = "".join(rng.choice(ALNUM) for _ in range(n))
    elif fl == "print":
        s = "".join(rng.choice(PRINT) for _ in range(n))
    elif fl == "markup":
        s = "".join(rng.choice("ab1&<>&<>;'\"/") for _ in range(n))
    elif fl == "space":
        s = "".join(rng.choice(ALNUM + "  ") for _ in range(n))
    else:
        s = "".join(rng.choice(ALNUM + "é€ß中") for _ in range(n))
    s = s.strip()
    if len(s) < lo:
        s = (s + "x" * lo)[:max(lo, 1)]
    for e in ENTITIES:            # entity references are generated on purpose only (gen_entity_text)
        while e in s:
            s = s.replace(e, "e")
    return s


def gen_dt(rng, allow_none=True, allow_naive=False):
    r = rng.random()
    if allow_none and r < 0.3:
        return None
    d = {"y": rng.randint(1000, 9998), "mo": rng.randint(1, 12), "d": rng.randint(1, 28), "h": rng.randint(0, 23), "mi": rng.randint(0, 59),
         "s": rng.randint(0, 59), "us": rng.choice([0, 0, 499, 500, 999499, 999500, 999999, rng.randint(0, 999999)])}
    if allow_naive and r > 0.97:
        d["off"] = None
        return d
    c = rng.random()
    if c < 0.25:
        d.update(off=0, libutc=True)
    elif c < 0.5:
        d.update(off=rng.choice([0, 60, -300, 330, -30, -45, 345, 840, -720, 899, -779]))
    elif c < 0.8:
        d.update(off=rng.randint(-779, 899))         # the reader accepts hours -12..14 (utils.gmt_offset)
    else:
        d.update(off=rng.choice([-300, -480, 0, 60, 570]), name=rng.choice(["EST", "PST", "XYZ", "GMT", "A-B"]))
    return d


def gen_uuid(rng):
    h = "".join(rng.choice("0123456789ABCDEF") for _ in range(32))
    return "%s-%s-%s-%s-%s" % (h[:8], h[8:12], h[12:16], h[16:20], h[20:])


def gen_init(rng, malformed):
    a = {}
    a["version"] = rng.choice(VERSIONS) if rng.random() < 0.93 else None
    if rng.random() < 0.6:
        a["prettyprint"] = rng.random() < 0.5
    v = a["version"] if a["version"] is not None else 203
    if v < 200:
        if rng.random() < 0.75:
            a["close_elements"] = rng.random() < 0.5
    elif rng.random() < 0.3:
        a["close_elements"] = True
    if rng.random() < 0.85:
        a["userid"] = gen_text(rng, 1, 32)
    if rng.random() < 0.6:
        a["clientuid"] = gen_uuid(rng) if rng.random() < 0.7 else gen_text(rng, 1, 36)
    if rng.random() < 0.65:
        a["org"] = gen_text(rng, 1, 32)
        if rng.random() < 0.75:
            a["fid"] = gen_text(rng, 1, 32)
    if rng.random() < 0.3:
        a["appid"] = gen_text(rng, 1, 5, "alnum")
    if rng.random() < 0.3:
        a["appver"] = gen_text(rng, 1, 4, "alnum")
    if rng.random() < 0.3:
        a["language"] = rng.choice(["ENG", "FRA", "SPA", "DEU", "ZHO"])
    if rng.random() < 0.9:
        a["bankid"] = gen_text(rng, 1, 9)
    if rng.random() < 0.9:
        a["brokerid"] = gen_text(rng, 1, 22)
    if rng.random() < 0.1:
        a["useragent"] = gen_text(rng, 1, 20, "alnum")
    if rng.random() < 0.1:
        a["persist_cookies"] = rng.random() < 0.5
    if malformed:
        for _ in range(rng.choice([1, 1, 2])):
            m = rng.randrange(16)
            if m == 0: a["version"] = rng.choice([0, 1, 99, 100, 104, 199, 204, 221, 299, 300, 1000, 1203])
            elif m == 1: a["close_elements"] = False; a["version"] = rng.choice([200, 203, 220, None])
            elif m == 2: a["userid"] = rng.choice(["", "u" * 33, gen_text(rng, 33, 40)])
            elif m == 3: a["org"] = rng.choice(["", "o" * 33]); a["fid"] = rng.choice([None, "f", "f" * 33])
            elif m == 4: a.pop("org", None); a["fid"] = rng.choice(["fid", "f" * 40, ""])
            elif m == 5: a["clientuid"] = rng.choice(["", "c" * 37])
            elif m == 6: a["appid"] = rng.choice(["", "TOOLONG"])
            elif m == 7: a["appver"] = rng.choice(["", "27000"])
            elif m == 8: a["language"] = rng.choice(["", "eng", "XXX", "EN"])
            elif m == 9: a["bankid"] = rng.choice([None, "", "1234567890"])
            elif m == 10: a["brokerid"] = rng.choice([None, "", "b" * 23])
            elif m == 11: a["userid"] = gen_entity_text(rng)
            elif m == 12: a["org"] = gen_entity_text(rng)
            elif m == 13: a["bankid"] = (gen_entity_text(rng)[:8] + "z")
            elif m == 14: a["clientuid"] = gen_entity_text(rng)
            else: a["userid"] = rng.choice(["in ner", "a  b"])
        a = {k: v for k, v in a.items() if v is not None or k == "version"}
    return {k: v for k, v in a.items() if v is not None}


def gen_entity_text(rng):
    parts = [rng.choice(list(ENTITIES) + ["&amp;amp;", "&amp;lt;", "a", "b&", ";", "&#38;"]) for _ in range(rng.randint(1, 4))]
    return ("x" + "".join(parts))[:28] + "z"        # x...z: the unescaped value has no surrounding whitespace (&nbsp;)


def gen_request(rng, malformed, accttypes):
    k = rng.choice(KINDS)
    r = {"k": k, "acctid": gen_text(rng, 1, rng.choice([6, 22, 30]))}
    if k in ("StmtRq", "StmtEndRq"):
        r["accttype"] = rng.choice(accttypes)
    r["dtstart"], r["dtend"] = gen_dt(rng), gen_dt(rng)
    if k == "InvStmtRq":
        r["dtasof"] = gen_dt(rng)
    if k in ("StmtRq", "CcStmtRq", "InvStmtRq"):
        r["inctran"] = rng.random() < 0.7
    if k == "InvStmtRq":
        r["incoo"], r["incpos"], r["incbal"] = rng.random() < 0.4, rng.random() < 0.7, rng.random() < 0.7
    if malformed and rng.random() < 0.5:
        m = rng.randrange(8)
        if m == 0: r["acctid"] = rng.choice([None, ""])
        elif m == 1 and "accttype" in r: r["accttype"] = rng.choice([None, "", "checking", "BROKERAGE"])
        elif m == 2: r["dtstart"] = gen_dt(rng, False, True); r["dtstart"]["off"] = None
        elif m == 3 and "inctran" in r: r["inctran"] = None
        elif m == 4 and k == "InvStmtRq": r[rng.choice(["incoo", "incpos", "incbal"])] = None
        elif m == 5: r["acctid"] = gen_entity_text(rng)
        elif m == 6 and k == "InvStmtRq": r["dtasof"] = gen_dt(rng, False, True); r["dtasof"]["off"] = None
        else: r["dtend"] = gen_dt(rng, False, True); r["dtend"]["off"] = None
    return r


def gen_case(rng, malformed, accttypes):
    init = gen_init(rng, malformed and rng.random() < 0.6)
    c = rng.random()
    if c < 0.68:
        n = rng.choice([0, 1, 1, 2, 3, 4, 5, 6, 8, 10, 12])
        rqs = [gen_request(rng, malformed and rng.random() < 0.4, accttypes) for _ in range(n)]
        if n >= 4 and rng.random() < 0.5:                       # few kinds, many requests each: stresses order within a kind
            ks = rng.sample(KINDS, rng.choice([1, 2]))
            rqs = [dict(gen_request(rng, False, accttypes)) for _ in range(n)]
            rqs = [r for r in rqs if r["k"] in ks] or rqs
        if rqs and rng.random() < 0.25:
            # instances of user subclasses of the stock classes, mixed with stock instances
            for r in rqs:
                if rng.random() < 0.5:
                    r["cls"] = rng.choice([n for n, b in SUBCLASSES.items() if b == r["k"]])
        if rqs and rng.random() < 0.4:
            # a MULTISET of requests: the same request (equal in every field) given two or three times, adjacent or not;
            # every occurrence must get its own wrapper
            for _ in range(rng.choice([1, 1, 2])):
                r = rng.choice(rqs)
                for _ in range(rng.choice([1, 1, 2])):
                    if len(rqs) < 12:
                        i = rqs.index(r)
                        pos = rng.choice([i, i + 1, rng.randint(0, len(rqs)), len(rqs)])
                        rqs.insert(pos, json.loads(json.dumps(r)))
        op = {"kind": "statements", "password": gen_text(rng, 1, 40), "gen": rng.random() < 0.85, "requests": rqs}
        nu = len(rqs) + 1
    elif c < 0.76:
        op = {"kind": "accounts", "password": gen_text(rng, 1, 40), "dtacctup": gen_dt(rng, malformed, malformed), "gen": rng.random() < 0.85}
        nu = 2
    elif c < 0.90:
        years = [str(rng.randint(1990, 2030)) for _ in range(rng.choice([1, 1, 2, 3]))]
        op = {"kind": "tax", "password": gen_text(rng, 1, 40), "years": years, "acctnum": gen_text(rng, 1, 32) if rng.random() < 0.6 else None,
              "recid": gen_text(rng, 1, 32) if rng.random() < 0.6 else None, "gen": rng.random() < 0.85}
        if malformed:
            m = rng.randrange(7)
            if m == 0: op["years"] = [rng.choice(["0019", " 2019", "+2019", "2_019", "-5", "-0", "12345", "10000", "9999", "abc", "20 19", "2019_", "_2019", "1__2", "0"])]
            elif m == 1: op["recid"] = rng.choice(["", "r" * 33, gen_entity_text(rng)])
            elif m == 2: op["acctnum"] = rng.choice(["", "a" * 33, gen_entity_text(rng)])
            elif m == 3 and init.get("close_elements", True): op["years"] = []
            elif m == 4 and init.get("close_elements", True): op["years"] = op["years"] + [""]
            elif m == 5: op["password"] = ""
        nu = 2
    else:
        op = {"kind": "profile", "dtprofup": gen_dt(rng, True, malformed), "version": None, "prettyprint": None, "close_elements": None, "gen": rng.random() < 0.85}
        if rng.random() < 0.5:
            op["version"] = rng.choice(VERSIONS + ([0, 100, 204, 300] if malformed else []))
        if rng.random() < 0.4:
            op["prettyprint"] = rng.random() < 0.5
        if rng.random() < 0.5:
            op["close_elements"] = rng.random() < 0.6
        nu = 2
    if malformed and op["kind"] != "profile" and rng.random() < 0.1:
        op["password"] = rng.choice(["", "p" * 172, gen_entity_text(rng)])
    uuids = [gen_uuid(rng) for _ in range(nu + 1)]
    if malformed and rng.random() < 0.08:
        uuids[rng.randrange(len(uuids))] = rng.choice(["", "U" * 37, "x&amp;y"])
    return {"init": init, "uuids": uuids, "dtclient": gen_dt(rng, False, False), "op": op}


ACCT_FLAGS = [("checking", "-C", "StmtRq"), ("savings", "-S", "StmtRq"), ("moneymrkt", "-M", "StmtRq"), ("creditline", "-L", "StmtRq")]


def gen_cli_date(rng):
    """-> (the text typed after --start/--end/--asof, the datetime it denotes as the request will carry it: normalised to UTC)"""
    y, mo, d = rng.randint(1000, 9998), rng.randint(1, 12), rng.randint(1, 28)
    style = rng.choice(["date", "sec", "ms", "off", "off", "off", "off"])
    if style == "date":
        return "%04d%02d%02d" % (y, mo, d), {"y": y, "mo": mo, "d": d, "h": 0, "mi": 0, "s": 0, "us": 0, "off": 0, "libutc": True}
    h, mi, sec = rng.randint(0, 23), rng.randint(0, 59), rng.randint(0, 59)
    ms = rng.choice([0, 0, 1, 499, 500, 999, rng.randint(0, 999)])
    txt = "%04d%02d%02d%02d%02d%02d" % (y, mo, d, h, mi, sec)
    off = 0
    if style != "sec":
        if style == "ms" or rng.random() < 0.7:
            txt += ".%03d" % ms
        else:
            ms = 0
        if style == "off":
            oh = rng.choice([-12, -11, -8, -5, -3, -1, 0, 0, 1, 3, 5, 9, 12, 14, rng.randint(-12, 14)])
            om = rng.choice([0, 0, 0, 30, 45, 15, rng.randint(0, 59)])
            neg = oh < 0 or (oh == 0 and rng.random() < 0.4)
            off = (-1 if neg else 1) * (abs(oh) * 60 + om)
            b = ("-" if neg else rng.choice(["+", "+", ""])) + "%d" % abs(oh)
            if om or rng.random() < 0.2:
                b += ".%02d" % om
            if rng.random() < 0.5:
                b += ":" + rng.choice(["EST", "PST", "NST", "IST", "XYZ", "GMT"])
            txt += "[" + b + "]"
    else:
        ms = 0
    utc = datetime.datetime(y, mo, d, h, mi, sec, ms * 1000) - datetime.timedelta(minutes=off)
    return txt, {"y": utc.year, "mo": utc.month, "d": utc.day, "h": utc.hour, "mi": utc.minute, "s": utc.second, "us": utc.microsecond,
                 "off": 0, "libutc": True}


def gen_frontdoor_case(rng):
    """a statement / closing-statement request asked for on the ofxget command line, together with the equivalent API case"""
    import ofxtools.Client as CL
    stmt = rng.random() < 0.7
    init = {"version": rng.choice(VERSIONS), "userid": gen_text(rng, 1, 20, "alnum")}
    argv = ["stmt" if stmt else "stmtend", "--url", "https://ofx.example.invalid/ofx", "--dryrun", "--version", str(init["version"]), "-u", init["userid"]]

    def opt(flag, key, val):
        init[key] = val
        argv.extend([flag, val])
    if rng.random() < 0.7:
        opt("--org", "org", gen_text(rng, 1, 12, "alnum"))
        if rng.random() < 0.7:
            opt("--fid", "fid", gen_text(rng, 1, 8, "alnum"))
    if rng.random() < 0.5:
        opt("--clientuid", "clientuid", gen_uuid(rng))
    if rng.random() < 0.25:
        opt("--appid", "appid", gen_text(rng, 1, 5, "alnum"))
    if rng.random() < 0.25:
        opt("--appver", "appver", gen_text(rng, 1, 4, "alnum"))
    if rng.random() < 0.25:
        opt("--language", "language", rng.choice(["ENG", "FRA", "SPA"]))
    opt("--bankid", "bankid", gen_text(rng, 1, 9, "alnum"))
    if stmt:
        opt("--brokerid", "brokerid", gen_text(rng, 1, 22, "alnum"))
    init["prettyprint"] = rng.random() < 0.5
    if init["prettyprint"]:
        argv.append("--pretty")
    init["close_elements"] = not (init["version"] < 200 and rng.random() < 0.4)
    if not init["close_elements"]:
        argv.append("--unclosedelements")
    dates = {}
    for flag, key in (("-s", "dtstart"), ("-e", "dtend")) + ((("-a", "dtasof"),) if stmt else ()):
        if rng.random() < 0.75:
            txt, d = gen_cli_date(rng)
            dates[key] = d
            argv.extend([flag, txt])
    flags = {"inctran": True, "incbal": True, "incpos": True, "incoo": False}
    if stmt:
        for cli, key, val in (("--no-transactions", "inctran", False), ("--no-balances", "incbal", False), ("--no-positions", "incpos", False), ("--open-orders", "incoo", True)):
            if rng.random() < 0.3:
                flags[key] = val
                argv.append(cli)
    rqs = []
    kinds = ACCT_FLAGS + [("creditcard", "-c", "CcStmtRq")] + ([("investment", "-i", "InvStmtRq")] if stmt else [])
    chosen = [k for k in kinds if rng.random() < 0.45] or [rng.choice(kinds)]
    for name, cli, k in kinds:                       # the order in which ofxget builds the requests
        if (name, cli, k) not in chosen:
            continue
        for _ in range(rng.choice([1, 1, 2])):
            acct = gen_text(rng, 1, 12, "alnum")
            argv.extend([cli, acct])
            if stmt:
                r = {"k": k, "acctid": acct, "dtstart": dates.get("dtstart"), "dtend": dates.get("dtend"), "inctran": flags["inctran"]}
                if k == "StmtRq":
                    r["accttype"] = name.upper()
                if k == "InvStmtRq":
                    r.update(dtasof=dates.get("dtasof"), incoo=flags["incoo"], incpos=flags["incpos"], incbal=flags["incbal"])
            else:
                r = {"k": "StmtEndRq" if k == "StmtRq" else "CcStmtEndRq", "acctid": acct, "dtstart": dates.get("dtstart"), "dtend": dates.get("dtend")}
                if k == "StmtRq":
                    r["accttype"] = name.upper()
            rqs.append(r)
    gen = rng.random() < 0.8
    if not gen:
        argv.append("--nonewfileuid")
    return {"init": init, "uuids": [gen_uuid(rng) for _ in range(len(rqs) + 2)], "dtclient": gen_dt(rng, False, False) | {"off": 0, "libutc": True, "name": None},
            "op": {"kind": "statements", "password": CL.AUTH_PLACEHOLDER, "gen": gen, "requests": rqs}, "argv": argv}


def closed_twin(case):
    t = json.loads(json.dumps(case))
    t.pop("argv", None)
    t["init"]["close_elements"] = True
    if t["op"]["kind"] == "profile":
        t["op"]["close_elements"] = None
    return t


def eff_close(case):
    eff = effective(case)
    c = eff["close_elements"]
    if case["op"]["kind"] == "profile" and case["op"]["close_elements"] is not None:
        c = case["op"]["close_elements"]
    return c


# ------------------------------------------------------------------ one case through everything
def read_back_bytes(out):
    """(run outcome) -> (outcome, header fields, problems): the bytes read back by the independent reader and by the library"""
    if out[0] != "ok":
        return out, None, None
    data = out[1]
    problems = []
    try:
        header, fields, tree = tok_parse(data)
    except Malformed as e:
        return ("ok-unreadable", data), None, ["independent reader: " + str(e)]
    try:
        with warnings.catch_warnings():
            warnings.simplefilter("ignore")
            lhdr, ltree = lib_parse(data)
        if ltree != tree:
            problems.append("library reader and independent reader disagree on the tree")
        if str(lhdr.version) != fields["VERSION"]:
            problems.append("library reader and independent reader disagree on the header version")
    except Exception as e:
        problems.append("library reader: %s: %s" % (type(e).__name__, str(e)[:100]))
    return ("ok", header, tree), fields, problems


def run_frontdoor(cases):
    """the cases that carry an ofxget command line ("argv"), composed through ofxget.main() in a fresh interpreter with a
    temporary HOME / XDG configuration (tools/ofxv/c06_frontdoor.py) -> run outcomes like run_impl's"""
    import subprocess
    jobs = []
    for c in cases:
        d = c["dtclient"]
        jobs.append({"argv": c["argv"], "uuids": c["uuids"], "dtclient": [d["y"], d["mo"], d["d"], d["h"], d["mi"], d["s"], d["us"]]})
    env = dict(os.environ, PYTHONHASHSEED="0", PYTHONDONTWRITEBYTECODE="1")
    env.pop("PYTHONPATH", None)
    p = subprocess.run([C.PY, os.path.join(C.VERIF, "tools", "ofxv", "c06_frontdoor.py")], input=json.dumps({"repo": C.REPO, "jobs": jobs}),
                       stdout=subprocess.PIPE, stderr=subprocess.PIPE, text=True, env=env, timeout=600)
    if p.returncode != 0:
        raise RuntimeError("front-door worker failed: %s" % p.stderr[-800:])
    outs = []
    for r in json.loads(p.stdout):
        if "out" in r:
            outs.append(("ok", r["out"].encode("utf-8")))
        else:
            kind = "reject" if r["err"].split(":")[0] in ("ValueError", "TypeError", "SyntaxError", "OFXSpecError", "OFXTypeError", "OFXHeaderError") else "crash"
            outs.append((kind, r["err"]))
    return outs


def observe(case):
    """run the implementation (OFXClient API, or the ofxget command line when the case carries one); read the bytes back twice.
    -> (outcome, header fields, problems): outcome ('ok', header, tree) uses the independent reader's tree;
    problems lists what makes the bytes not a well-formed OFX file for the library's reader (parse + convert) and
    any difference between the two readers' trees."""
    if case.get("argv"):
        return read_back_bytes(run_frontdoor([case])[0])
    return read_back_bytes(run_impl(case))


def must_refuse(case):
    """"Versions 2xx refuse to omit end tags": the configuration (or the profile request's overrides) asks for a 2xx file
    without end tags"""
    eff = effective(case)
    v = eff["version"]
    if isinstance(v, int) and v >= 200 and eff["close_elements"] is False:
        return True
    if case["op"]["kind"] == "profile":
        pv = case["op"]["version"] if case["op"]["version"] is not None else v
        if isinstance(pv, int) and pv >= 200 and eff_close(case) is False:
            return True
    return False


def _observe_worker(w):
    try:
        return read_back_bytes(w[1]) if w[0] == "bytes" else observe(w[1])
    except Exception as e:              # a harness failure must not pass silently
        return ("harness-error", "%s: %s" % (type(e).__name__, e)), None, None


def observe_all(cases):
    """observe() over all cases, in forked worker processes (the library's convert() dominates the run time); the cases with
    an ofxget command line are composed in ONE fresh interpreter first"""
    import multiprocessing as mp
    fd = [i for i, c in enumerate(cases) if c.get("argv")]
    fd_out = dict(zip(fd, run_frontdoor([cases[i] for i in fd]))) if fd else {}
    work = [("bytes", fd_out[i]) if i in fd_out else ("case", c) for i, c in enumerate(cases)]
    n = min(8, C.NCPU)
    if len(cases) < 64 or n < 2:
        return [_observe_worker(w) for w in work]
    ctx = mp.get_context("fork")
    with ctx.Pool(n) as pool:
        return pool.map(_observe_worker, work, chunksize=16)


def run(rep, tier, rng):
    import ofxtools.Client as CL
    from ofxtools.models.i18n import LANG_CODES
    from ofxtools.models.bank.stmt import ACCTTYPES
    install_oracles()
    thorough = tier == "thorough"
    accttypes = list(ACCTTYPES)
    cases = []
    for p in sorted(glob.glob(os.path.join(C.VERIF, "corpus", PROP, "*.json"))):
        obj = json.load(open(p))
        for c in (obj["cases"] if "cases" in obj else [obj["case"]]):
            cases.append(("corpus:" + os.path.basename(p), c))
    n_valid, n_mal = (16000, 5000) if thorough else (800, 260)
    for _ in range(n_valid):
        cases.append(("valid", gen_case(rng, False, accttypes)))
    for _ in range(n_mal):
        cases.append(("malformed", gen_case(rng, True, accttypes)))
    for _ in range(3000 if thorough else 160):
        cases.append(("frontdoor", gen_frontdoor_case(rng)))     # the same requests asked for on the ofxget command line

    items, kept = [], []
    seen_fail = set()

    def fail(key, what, case, **extra):
        if (key, what) in seen_fail:
            return
        seen_fail.add((key, what))
        rep.failures.append(C.Failure(key, what, dict(case=case, **extra)))

    observed = observe_all([c for _, c in cases])
    for (origin, case), (outcome, fields, problems) in zip(cases, observed):
        if outcome[0] == "harness-error":
            raise RuntimeError("harness error on %s: %s" % (describe_case(case), outcome[1]))
        dom = in_domain(case, LANG_CODES, accttypes)
        eff = effective(case)
        refusal_expected = must_refuse(case)
        model_case, model_outcome = case, outcome
        if refusal_expected:
            # "Versions 2xx refuse to omit end tags": constructor and serialize
            if outcome[0] not in ("reject", "crash"):
                fail("v2-unclosed-not-refused", "%s: a version 2xx request without end tags was composed instead of refused" % describe_case(case), case)
        elif dom:
            bad = evaluate(case, outcome, fields, problems)
            twin_aspects = None
            if bad and not eff_close(case) and any(has_markup(s) for s in case_strings(case)):
                # is this the recorded defect of the unclosed writer?  yes for the differences that vanish when the
                # same request is written with end tags
                twin = closed_twin(case)
                t_out, t_fields, t_problems = observe(twin)
                twin_aspects = {b[0] for b in evaluate(twin, t_out, t_fields, t_problems)}
                model_case, model_outcome, problems = twin, t_out, t_problems
            keys = []
            for b in bad:
                if twin_aspects is not None and b[0] not in twin_aspects:
                    key = "unclosed-no-escaping"
                else:
                    key = classify(case, b)
                if key not in keys:
                    keys.append(key)
                    what = "%s: %s: expected %r, composed request has %r" % (describe_case(case), b[0], b[1], b[2])
                    fail(key, what, case, differences=[list(map(repr, x)) for x in bad[:6]])
        if model_outcome[0] == "ok-unreadable":
            if not eff_close(model_case) and any(has_markup(s) for s in case_strings(model_case)):
                # out-of-domain input hitting the same recorded defect of the unclosed writer: compare the closed twin
                model_case = closed_twin(model_case)
                model_outcome, _, problems = observe(model_case)
            if model_outcome[0] == "ok-unreadable":
                rep.disagreements.append({"case": model_case, "implementation": "bytes not readable back: %s" % (problems,)})
                continue
        elif model_outcome[0] == "ok" and not dom and not eff_close(model_case) and any(has_markup(s) for s in case_strings(model_case)):
            # out of the predicate's domain, unclosed writer, markup in a value: the tree read back may be damaged by the
            # recorded defect without the reader noticing; compare the model with the closed twin
            model_case = closed_twin(model_case)
            model_outcome, _, problems = observe(model_case)
            if model_outcome[0] == "ok-unreadable":
                rep.disagreements.append({"case": model_case, "implementation": "bytes not readable back: %s" % (problems,)})
                continue
        if model_outcome[0] == "ok":
            oc = ("ok", model_outcome[1], model_outcome[2])
        else:
            oc = (model_outcome[0],)
        items.append(coq_case(model_case, oc))
        kept.append((model_case, model_outcome))
        rep.count(json.dumps(model_case, sort_keys=True), nontrivial=(model_outcome[0] == "ok"),
                  kind="%s:%s:%s" % (origin.split(":")[0], case["op"]["kind"], "ok" if model_outcome[0] == "ok" else "refused"))
    for k in (0, len(kept) // 3, 2 * len(kept) // 3):
        if k < len(kept):
            mc, mo = kept[k]
            rep.sample({"case": mc, "implementation": mo[0] if mo[0] != "ok" else {"header": mo[1], "tree": mo[2]}})
    rep.rule = ("valid stream: versions %s x prettyprint x close_elements x presence of each optional identity field x 0..12 requests of the five kinds in "
                "random order (half of the larger ones concentrated on one or two kinds) x account ids / credentials over printable ASCII incl. & < > quotes, "
                "interior spaces, some non-ASCII x dates with arbitrary UTC offsets (minutes) and zone names x flags; account-info, tax and profile requests "
                "(profile with version/close_elements overrides); malformed stream: unsupported versions, 2xx with close_elements=False, empty / over-long / "
                "entity-bearing values, missing bank or broker id, naive dates, None flags, odd tax years. non-trivial = the implementation composed a request; "
                "distinct by the whole case" % (VERSIONS,))
    rep.extra["in_domain_failures_by_key"] = sorted({f.key for f in rep.failures})
    bad = C.coq_bad_indices(PROP, "compose", ["Base.ComposeBase", "Gen.ComposeGen", "Model.Compose", "Model.ComposeCases"],
                            "ccase_ok", "ccase", items, shard=(90 if not thorough else 350))
    for i in bad[:40]:
        mc, mo = kept[i]
        rep.disagreements.append({"case": mc, "implementation": mo[0] if mo[0] != "ok" else {"header": mo[1], "tree": mo[2]}})


def describe_case(case):
    if case.get("argv"):
        return "ofxget " + " ".join(("'%s'" % x if any(ch in x for ch in " []<>&;'\"") else x) for x in case["argv"])
    op = case["op"]
    a = case["init"]
    s = "OFXClient(%s)" % ", ".join("%s=%r" % (k, a[k]) for k in INIT_KEYS if k in a)
    if op["kind"] == "statements":
        return s + ".request_statements(%r, %s)" % (op["password"], ", ".join("%s(%r)" % (r.get("cls") or r["k"], r["acctid"]) for r in op["requests"]))
    if op["kind"] == "tax":
        return s + ".request_tax1099(%r, %s, acctnum=%r, recid=%r)" % (op["password"], ", ".join(map(repr, op["years"])), op["acctnum"], op["recid"])
    if op["kind"] == "accounts":
        return s + ".request_accounts(%r, ...)" % (op["password"],)
    return s + "._request_profile(version=%r, close_elements=%r)" % (op["version"], op["close_elements"])


def replay(obj):
    """bin/check C06 --replay FILE: FILE is a replay written by a run (failing input / disagreement list) or a corpus file"""
    C.use_repo()
    from ofxtools.models.i18n import LANG_CODES
    from ofxtools.models.bank.stmt import ACCTTYPES
    install_oracles()
    if "replay" in obj:
        cases = [obj["replay"]["case"]]
    elif "case" in obj:
        cases = [obj["case"]]
    elif "cases" in obj:
        cases = obj["cases"]
    else:
        cases = [d["case"] for d in obj.get("disagreements", []) if isinstance(d, dict) and "case" in d]
    status = 0
    for case in cases:
        outcome, fields, problems = observe(case)
        print("replay %s" % describe_case(case))
        if outcome[0] in ("reject", "crash"):
            print("  implementation refused: %s" % outcome[1])
        bad = []
        if must_refuse(case):
            if outcome[0] not in ("reject", "crash"):
                bad = [("versions 2xx refuse to omit end tags", "refusal", "a composed request")]
        elif in_domain(case, LANG_CODES, list(ACCTTYPES)):
            bad = evaluate(case, outcome, fields, problems)
        else:
            print("  (outside the domain of the property predicate: compared with the model only)")
        for b in bad:
            print("  %s: expected %r, observed %r  [%s]" % (b[0], b[1], b[2], classify(case, b)))
        if bad:
            print("VIOLATION property=C06 replay=(this file)")
            status = 1
    return status
