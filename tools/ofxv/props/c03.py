"""C03 - every data element reaches the model with the value its OFX data type assigns."""
import io, copy, warnings, datetime, decimal
import xml.etree.ElementTree as ET
from .. import common as C
from .. import schema_harness as H
from .. import translate_schema as TS
from . import c01 as P01

PROP = "C03"
COQ_EXTRA = ["theories/Model/ConvertCases.vo", "theories/Gen/SchemaS.vo", "theories/Model/TypedCases.vo", "theories/Gen/TypedGen.vo"]
IMPORTS = ["Model.Schema", "Model.Convert", "Model.ConvertCases", "Gen.SchemaGen", "Gen.SchemaS"]
PARTIAL = ["the generic theorems are the structural half (placement: from_etree = construct o denote, per-attribute field_rel); from_etree_places_typed_values instantiates them with the "
           "CONCRETE converters (C10's convert, C09's dt_convert / tm_convert): each attribute holds typed_value_of its child's text, and rendered_datetime_value composes C09's "
           "dt_convert_denotes (any rendering of a calendar-valid date-time gets the denoted instant); entities_decoded / entity_text_held_decoded prove the entity clause for every text of ampersand-free stretches and tokens over the regenerated table; comma_decimal_same_value proves the separator clause (Decimal refuses every text with a comma, so a comma text gets the outcome of the point text); the denotation of the remaining types (tokens) "
           "is stated in C10's obligations and, here, the real converters are compared on the whole lexical space with an independent implementation of the OFX type rules (python "
           "oracle); the typed model is run on every generated document (TFromM cases: no converter table)",
           "offsets strictly between GMT-1 and GMT are left to C09 (recorded/fixed there)"]
MANIFEST = {
    "engine": "Schema",
    "text": "Theorems over EVERY class table, converter oracle and document: conversion is the class constructor applied to exactly the values denoted by the children "
            "the class defines, in document order (from_etree_is_construct_of_denoted, by induction over the child list with the fold accumulator generalised), and every "
            "attribute of the result holds what the converter of its declared type makes of the child carrying its tag - nothing missing, nothing invented, same place "
            "(from_etree_places_values). The value clause is decided against an independent implementation of the OFX type rules: documents for every concrete class are "
            "written by the generator itself from typed values (all date-time notations and offsets, both decimal separators, signs, entity escapes, every enumeration "
            "token), parsed and converted by the library, and walked to (path, value) pairs. file_places_typed_values_v1/_v2 compose the header engine (C05), the "
            "tokenizer (C02) and the typed placement theorem over the BYTES of a file in any declared codec; the file-level stream writes such files (CHARSET 1252 / "
            "ISO-8859-1 / NONE, version 2) and reads them through OFXTree.parse + convert.",
    "note": "Trusted: Coq kernel; hand transcription Model/Convert.v validated by correspondence (CFrom cases on the generated documents); the python oracle of the type rules. "
            "Print Assumptions: closed under the global context.",
}


def translate():
    TS.generate()


# ---------------------------------------------------------------- independent rendering of typed values (the oracle)
def esc(s, rng):
    out = []
    for ch in s:
        if ch == "&": out.append("&amp;")
        elif ch == "<": out.append("&lt;")
        elif ch == ">": out.append("&gt;")
        elif ch == '"' and rng.random() < 0.5: out.append("&quot;")
        elif ch == "'" and rng.random() < 0.5: out.append("&apos;")
        else: out.append(ch)
    return "".join(out)


def fmt_offset(minutes, rng, name=None):
    sign = "-" if minutes < 0 else rng.choice(["+", ""])
    h, m = divmod(abs(minutes), 60)
    s = "%s%d" % (sign, h)
    if m or rng.random() < 0.2:
        s += ".%02d" % m
    if name is not None:
        s += ":" + name
    return "[" + s + "]"


def pick_offset(rng):
    cand = [0, 0, 60, -60, 330, -300, -480, 570, 840, -720, 345, -210, 765]
    return rng.choice(cand)          # never strictly between -60 and 0 (C09's subject)


def render_datetime(v, rng):
    """v: aware UTC datetime (ms precision) -> one of the OFX notations denoting the same instant"""
    v = v.astimezone(datetime.timezone.utc)      # the typed value is an instant; the zone it is WRITTEN in is chosen here
    off = pick_offset(rng)
    local = v + datetime.timedelta(minutes=off)
    ms = v.microsecond // 1000
    name = rng.choice([None, "EST", "XYZ", "GMT"])
    forms = []
    if off == 0 and v.hour == v.minute == v.second == 0 and ms == 0:
        forms.append(local.strftime("%Y%m%d"))
    if off == 0 and ms == 0:
        forms.append(local.strftime("%Y%m%d%H%M%S"))
    if off == 0:
        forms.append(local.strftime("%Y%m%d%H%M%S") + ".%03d" % ms)
    forms.append(local.strftime("%Y%m%d%H%M%S") + ".%03d" % ms + fmt_offset(off, rng, name))
    if ms == 0:
        forms.append(local.strftime("%Y%m%d%H%M%S") + fmt_offset(off, rng, name))     # offset without milliseconds (some banks)
    return rng.choice(forms)


def render_time(v, rng):
    vu = datetime.datetime(2000, 6, 15, v.hour, v.minute, v.second, v.microsecond, tzinfo=v.tzinfo).astimezone(datetime.timezone.utc)
    v = vu.timetz()
    off = pick_offset(rng)
    base = datetime.datetime(2000, 6, 15, v.hour, v.minute, v.second, v.microsecond, tzinfo=datetime.timezone.utc) + datetime.timedelta(minutes=off)
    ms = v.microsecond // 1000
    forms = []
    if off == 0 and ms == 0:
        forms.append(base.strftime("%H%M%S"))
    if off == 0:
        forms.append(base.strftime("%H%M%S") + ".%03d" % ms)
    forms.append(base.strftime("%H%M%S") + ".%03d" % ms + fmt_offset(off, rng, rng.choice([None, "PST"])))
    return rng.choice(forms)


def render_decimal(v, rng):
    s = format(v, "f")
    if rng.random() < 0.4:
        s = s.replace(".", ",")
    if not s.startswith("-") and rng.random() < 0.2:
        s = "+" + s
    return s


def render_value(ctx, t, v, rng):
    T = ctx.Types
    if isinstance(t, T.ListElement):
        t = t.converter
    if type(t) is T.Bool:
        return "Y" if v else "N"
    if type(t) in (T.String, T.NagString):
        return esc(v, rng)
    if type(t) is T.OneOf:
        return v
    if type(t) is T.Integer:
        s = str(v)
        if v >= 0 and rng.random() < 0.15: s = "+" + s
        return s
    if type(t) is T.Decimal:
        return render_decimal(v, rng)
    if type(t) is T.DateTime:
        return render_datetime(v, rng)
    if type(t) is T.Time:
        return render_time(v, rng)
    raise ValueError(t)


RENAME = {"MAIL": ("FRM", "FROM"), "MFINFO": ("YLD", "YIELD"), "STOCKINFO": ("YLD", "YIELD")}


def render_tree(ctx, obj, rng):
    """the generator's OWN document for a typed instance (does not call to_etree / unconvert)"""
    T = ctx.Types
    cls = type(obj)
    root = ET.Element(cls.__name__)
    ren = next((RENAME[b.__name__] for b in cls.__mro__ if b.__name__ in RENAME), None)
    done_list = False
    for k, t in cls.spec.items():
        if isinstance(t, T.Unsupported):
            continue
        if isinstance(t, (T.ListAggregate, T.ListElement)):
            if not done_list:
                done_list = True
                le = [tt for kk, tt in cls.spec.items() if isinstance(tt, T.ListElement)]
                lname = [kk for kk, tt in cls.spec.items() if isinstance(tt, T.ListElement)]
                for m in obj:
                    if isinstance(m, ctx.Aggregate):
                        root.append(render_tree(ctx, m, rng))
                    else:
                        ET.SubElement(root, lname[0].upper()).text = render_value(ctx, le[0], m, rng)
            continue
        v = obj.__dict__.get(k)
        if v is None:
            continue
        if isinstance(v, ctx.Aggregate):
            root.append(render_tree(ctx, v, rng))
        else:
            tag = k.upper()
            if ren and tag == ren[0]:
                tag = ren[1]
            ET.SubElement(root, tag).text = render_value(ctx, t, v, rng)
    return root


def inject_raw(ctx, obj, rng, edge=None):
    """put a few values into the typed instance WITHOUT passing them through the library's converters (the constructor converts what it is
    given, so a fault in a converter would otherwise shape the generator's own expectation): Unicode edge text in string elements, decimals with
    more significant digits than the decimal context's precision.  The document is then written from these raw values."""
    T = ctx.Types
    for k, t in H.spec_no_list(ctx, type(obj)):
        v = obj.__dict__.get(k)
        if isinstance(v, ctx.Aggregate):
            inject_raw(ctx, v, rng, edge)
        elif isinstance(v, str) and type(t) in (T.String, T.NagString) and rng.random() < (0.2 if edge is None else 0.5):
            e = rng.choice(edge or H.EDGE_TEXT)
            n = t.length or 40
            new = (v[:max(0, n - len(e))] + e)[:n].strip()
            if new and "&" not in new:
                obj.__dict__[k] = new
        elif isinstance(v, decimal.Decimal) and type(t) is T.Decimal and t.scale is None and rng.random() < 0.15:
            digits = rng.randrange(10 ** 28, 10 ** rng.randint(29, 31))
            obj.__dict__[k] = decimal.Decimal((rng.randint(0, 1), tuple(int(c) for c in str(digits)), -rng.randint(0, 6)))
    le = [t for k, t in type(obj).spec.items() if isinstance(t, T.ListElement)]
    for n, m in enumerate(obj):
        if isinstance(m, ctx.Aggregate):
            inject_raw(ctx, m, rng, edge)
        elif isinstance(m, str) and le and type(le[0].converter) in (T.String, T.NagString) and rng.random() < 0.6:
            # repeated character-data elements: entity-looking text in the HELD value (the document escapes its '&' once more), Unicode edge text
            ent = rng.choice(["R&amp;D", "5 &lt; 6", "x&nbsp;y", "&quot;q&quot;", "&amp;amp;", "a&apos;b"] + (edge or H.EDGE_TEXT))
            n_max = le[0].converter.length or 40
            if len(ent) <= n_max:
                list.__setitem__(obj, n, ent)


# the four ways a document reaches the parser as a FILE: (header version, CHARSET, the codec OFX 1.6 section 2.2 / XML prescribes for it -- the
# generator's own table, not the library's --, ENCODING, characters that tell the codecs apart)
W1252 = ["\u20ac 5", "\u201cq\u201d", "a\u2013b", "TM\u2122", "\u0153uvre", "\u0160koda", "\u2026", "d\u2019Or", "caf\u00e9", "\u00a3 9", "\u00fcber \u00df"]
LATIN1 = ["caf\u00e9", "\u00a3 9", "\u00fcber \u00df", "\u00a9 \u00ae", "a\u00adb", "\u00bfqu\u00e9?", "\u00fe\u00ff", "\u00d7\u00f7"]
FILE_FORMS = [("v1", "1252", "cp1252", "USASCII", W1252), ("v1", "ISO-8859-1", "latin-1", "USASCII", LATIN1),
              ("v1", "NONE", "utf-8", "UNICODE", W1252 + ["\u4e2d\u6587", "\U0001f4b0"]), ("v2", None, "utf-8", None, W1252 + ["\u4e2d\u6587", "\U0001f4b0"])]


def file_bytes(form, text, rng):
    ver, charset, codec, encoding, _ = form
    nl = rng.choice(["\r\n", "\n"])
    if ver == "v1":
        head = nl.join(["OFXHEADER:100", "DATA:OFXSGML", "VERSION:%s" % rng.choice(["102", "103", "151", "160"]), "SECURITY:NONE", "ENCODING:%s" % encoding,
                        "CHARSET:%s" % charset, "COMPRESSION:NONE", "OLDFILEUID:NONE", "NEWFILEUID:NONE"]) + nl + nl
    else:
        head = ('<?xml version="1.0" encoding="UTF-8" standalone="no"?>' + nl +
                '<?OFX OFXHEADER="200" VERSION="%s" SECURITY="NONE" OLDFILEUID="NONE" NEWFILEUID="NONE"?>' % rng.choice(["200", "211", "220"]) + nl)
    return (head + text).encode(codec)


def to_text(e, sgml, rng):
    ws = rng.choice(["", "\n", "\r\n", "  "])
    if len(e) == 0 and e.text is not None:
        return "<%s>%s%s%s" % (e.tag, e.text, "" if sgml else "</%s>" % e.tag, ws)
    return "<%s>%s%s</%s>%s" % (e.tag, ws, "".join(to_text(c, sgml, rng) for c in e), e.tag, ws)


def pairs(ctx, obj, path=""):
    """(path, canonical value) pairs of a real instance; list members carry their position"""
    T = ctx.Types
    out = []
    cls = type(obj)
    for k, t in H.spec_no_list(ctx, cls):
        if isinstance(t, T.Unsupported):
            continue
        v = obj.__dict__.get(k)
        if v is None:
            continue
        if isinstance(v, ctx.Aggregate):
            out += pairs(ctx, v, "%s/%s" % (path, k))
        else:
            out.append(("%s/%s" % (path, k), canon(ctx, v)))
    for n, m in enumerate(obj):
        if isinstance(m, ctx.Aggregate):
            out += pairs(ctx, m, "%s/[%d]%s" % (path, n, type(m).__name__))
        else:
            out.append(("%s/[%d]" % (path, n), canon(ctx, m)))
    return out


def canon(ctx, v):
    """value identity the OFX type rules care about: number (and exponent), instant (aware, UTC), text, bool"""
    if isinstance(v, bool): return ("bool", v)
    if isinstance(v, int): return ("int", v)
    if isinstance(v, str): return ("str", v)
    if isinstance(v, decimal.Decimal): return ("dec", str(v.normalize() + 0) if v == 0 else str(v.normalize()), v.as_tuple().exponent)
    if isinstance(v, (datetime.datetime, datetime.time)):
        return ctx.canon(v)       # aware values compare as instants (times: modulo 24 h), naive ones are their own kind
    return ("other", repr(v))


def run(rep, tier, rng):
    from ofxtools.Parser import TreeBuilder
    ctx = H.Ctx()
    H.ENTITY_VALUES = True       # the generator writes the document itself, escaping '&': held values may look like entities
    if ctx.d["problems"]:
        rep.broken.append("translator not complete: %s" % ctx.d["problems"][:3])
    per_class = 6 if tier == "thorough" else 2
    items, meta = [], []
    titems, tmeta = [], []
    lex = {}
    for cls in ctx.concrete:
        for _ in range(per_class):
            obj = H.gen_instance(ctx, cls, rng, depth=2, full=0.6)
            if obj is None:
                continue
            inject_raw(ctx, obj, rng)
            tree = render_tree(ctx, obj, rng)
            sgml = rng.random() < 0.5
            text = to_text(tree, sgml, rng)
            case = {"class": cls.__name__, "form": "sgml" if sgml else "xml", "document": text[:4000]}
            try:
                p = TreeBuilder(); p.feed(text); parsed = p.close()
            except Exception as e:
                rep.count(case, nontrivial=False, kind="tokenizer-error")
                continue          # tokenizer trouble is C02/C08's subject
            got, wtags = H.run_from_etree(ctx, parsed)
            want = pairs(ctx, obj)
            for pth, cv in want:
                lex[cv[0]] = lex.get(cv[0], 0) + 1
            rep.count(case, nontrivial=True, kind="document:" + ("sgml" if sgml else "xml"))
            if got[0] != "ok":
                if not H_lists_adjacent(ctx, obj):
                    continue          # recorded finding of C13 (TAX1099INT_V100 list attributes not adjacent)
                rep.failures.append(C.Failure("valid-document-rejected", "a document valid for %s, written from typed values by the generator, is rejected: %s" % (cls.__name__, got[1]), case))
            else:
                have = pairs(ctx, got[1])
                if have != want:
                    diff = [(a, b) for a, b in zip(want, have) if a != b][:3] or [("length", len(want), len(have))]
                    kinds = sorted({d[0][1][0] if isinstance(d[0], tuple) and len(d[0]) > 1 and isinstance(d[0][1], tuple) else "structure" for d in diff})
                    rep.failures.append(C.Failure("value-differs:%s" % ",".join(kinds), "%s: converted (path, value) pairs differ from the values the document was written from: %r" % (cls.__name__, diff), case))
            # correspondence: the model on the parsed tree
            c, out, _ = H.case_from(ctx, parsed); items.append(c); meta.append(case)
            # ... and the TYPED model (concrete converters of the C10 engine, date-times through the C09 engine: no converter table at all)
            try:
                exp = H.enc_result(got, lambda i: "(%s,[%s])" % (P01.enc_pinst(ctx, i), ";".join(H.cs(t) for t in wtags)))
                titems.append("TFromM %s (%s)" % (H.enc_etree(parsed), exp)); tmeta.append(case)
            except ValueError:
                pass
    file_pass(ctx, rep, tier)
    rep.extra["typed_values_by_kind"] = lex
    for m in meta[:3]:
        rep.sample(m)
    rep.rule = ("every concrete class x %d typed instance(s); the document is written by the generator itself (independent rendering of each OFX type: Y/N, signed integers, decimals with "
                "'.' or ',', entity-escaped strings, enumeration tokens, date-times/times in every notation with offsets -12:00..+14:00 and zone names), as XML or end-tag-less SGML with "
                "random inter-tag whitespace; parsed by TreeBuilder, converted by from_etree, walked to (path, value) pairs and compared with the typed values; model vs implementation "
                "on every parsed tree. distinct by document text" % per_class)
    bad = C.coq_bad_indices(PROP, "docs", IMPORTS, "ccase_ok S", "ccase", items, shard=150, prelude="Local Open Scope string_scope.")
    for i in bad[:30]:
        rep.disagreements.append(dict(meta[i], case=items[i][:1200]))
    rep.extra["typed_model_cases"] = len(titems)
    bad = C.coq_bad_indices(PROP, "typed", P01.TIMPORTS, "tcase_ok ety_table S", "tcase", titems, shard=150, prelude="Local Open Scope string_scope.")
    for i in bad[:30]:
        rep.disagreements.append(dict(tmeta[i], what="typed model", case=titems[i][:1500]))


def file_pass(ctx, rep, tier):
    """the same question asked of a FILE: the generator's document behind a v1 header (CHARSET 1252 / ISO-8859-1 / NONE) or a v2 header, encoded with
    the codec that charset prescribes, read by OFXTree.parse and converted by OFXTree.convert.  String values carry characters that tell the codecs
    apart (U+20AC is one byte in 1252, three in UTF-8, absent from ISO-8859-1).  Its own PRNG stream: the main stream's draws are left as they were."""
    import io, os, random
    from ofxtools.Parser import OFXTree
    frng = random.Random("c03-file-%s" % os.environ.get("VERIF_SEED", "20260101"))
    stats = {}
    with_str = [c for c in ctx.concrete if any(type(t) in (ctx.Types.String, ctx.Types.NagString) for k, t in H.spec_no_list(ctx, c))]
    n = 400 if tier == "thorough" else 120
    for i in range(n):
        cls = frng.choice(with_str if frng.random() < 0.8 else ctx.concrete)
        form = FILE_FORMS[i % len(FILE_FORMS)]
        obj = H.gen_instance(ctx, cls, frng, depth=2, full=0.6)
        if obj is None:
            continue
        inject_raw(ctx, obj, frng, edge=form[4])
        tree = render_tree(ctx, obj, frng)
        sgml = form[0] == "v1" and frng.random() < 0.6
        text = to_text(tree, sgml, frng)
        try:
            data = file_bytes(form, text, frng)
        except UnicodeEncodeError:
            form = FILE_FORMS[2]
            data = file_bytes(form, text, frng)
        label = "%s/%s" % (form[0], form[1] or "xml")
        nonascii = any(b > 127 for b in data)
        case = {"class": cls.__name__, "form": "file:" + label, "file_hex": data.hex()[:12000], "codec": form[2]}
        stats[label + (":non-ascii" if nonascii else ":ascii")] = stats.get(label + (":non-ascii" if nonascii else ":ascii"), 0) + 1
        rep.count(case, nontrivial=True, kind="file:" + label)
        want = pairs(ctx, obj)
        try:
            t = OFXTree(); t.parse(io.BytesIO(data)); got = t.convert()
        except Exception as e:
            if H_lists_adjacent(ctx, obj):
                rep.failures.append(C.Failure("file-valid-document-rejected:%s" % label, "a file valid for %s (header %s, body encoded as %s) is rejected by OFXTree.parse/convert: %s: %s"
                                              % (cls.__name__, label, form[2], type(e).__name__, e), case))
            continue
        have = pairs(ctx, got)
        if have != want:
            diff = [(a, b) for a, b in zip(want, have) if a != b][:3] or [("length", len(want), len(have))]
            rep.failures.append(C.Failure("file-value-differs:%s" % label, "%s: the values converted from the FILE differ from the values it was written from: %r" % (cls.__name__, diff), case))
    rep.extra["file_forms"] = stats


def H_lists_adjacent(ctx, obj):
    from .c13 import lists_adjacent
    ok = lists_adjacent(ctx, type(obj))
    for k, t in H.spec_no_list(ctx, type(obj)):
        v = obj.__dict__.get(k)
        if isinstance(v, ctx.Aggregate):
            ok = ok and H_lists_adjacent(ctx, v)
    for m in obj:
        if isinstance(m, ctx.Aggregate):
            ok = ok and H_lists_adjacent(ctx, m)
    return ok


def replay(obj):
    C.use_repo()
    from ofxtools.Parser import TreeBuilder
    ctx = H.Ctx()
    r = obj["replay"]
    if "file_hex" in r:
        import io
        from ofxtools.Parser import OFXTree
        data = bytes.fromhex(r["file_hex"])
        print("replay: file bytes (%s):" % r["codec"], data[:300])
        try:
            t = OFXTree(); t.parse(io.BytesIO(data)); got = t.convert()
        except Exception as e:
            print("replay: OFXTree.parse/convert ->", type(e).__name__, e); return 1
        print("replay: converted values ->", pairs(ctx, got)[:12])
        print("(the typed values the file was written from are in the 'what' field)")
        return 1
    p = TreeBuilder(); p.feed(r["document"]); parsed = p.close()
    got, _ = H.run_from_etree(ctx, parsed)
    print("replay: conversion ->", got[0], got[1] if got[0] != "ok" else pairs(ctx, got[1])[:10])
    print("(the typed values the document was written from are in the 'what' field)")
    return 0 if got[0] == "ok" else 1
