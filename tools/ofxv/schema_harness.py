"""Shared harness of the schema engine (C13, C04, C03, C07, C01, C16): instance generator driven by the live class
table, encoders Python object / element tree -> Coq terms of Model/ConvertCases.v, converter tables filled by the
REAL converters, tree mutators."""
import datetime, decimal, random, warnings, copy, string
import xml.etree.ElementTree as ET
from . import common as C
from . import translate_schema as TS


TABLES = ("spec", "spec_no_listaggregates", "elements", "subaggregates", "unsupported", "listaggregates", "listelements")


def touch_bases():
    """history stress shared by every schema check: an application (a schema lister, a subclassing user) may read the class-level tables of
    the abstract bases (Aggregate, ElementList, TrnRq, TrnRs, SyncRqList, ...) before any concrete class is used; what a class declares must
    not depend on that.  Every class's tables are read here bases-first (breadth-first from Aggregate), before anything else touches the
    models; C13's order probe compares this history with the opposite one in fresh interpreters."""
    M, Aggregate, ElementList, Types = TS.load()
    order, i = [Aggregate], 0
    while i < len(order):
        for s in order[i].__subclasses__():
            if s not in order:
                order.append(s)
        i += 1
    for c in order:
        for p in TABLES:
            try:
                getattr(c, p)
            except Exception:
                pass


class Ctx:
    """live classes + the translator's numbering of element types"""
    def __init__(self):
        touch_bases()
        self.d = TS.generate()
        self.M, self.Aggregate, self.ElementList, self.Types = TS.load()
        from ofxtools.models.base import UnknownTagWarning
        self.UnknownTagWarning = UnknownTagWarning
        seen = []

        def walk(c):
            for s in c.__subclasses__():
                if s not in seen:
                    seen.append(s); walk(s)
        walk(self.Aggregate)
        self.classes = seen
        self.concrete = [c for c in seen if getattr(self.M, c.__name__, None) is c and c.__name__.isupper()]
        self.byname = {c.__name__: c for c in seen}
        self.hooked = {r["name"] for r in self.d["raw"] if r.get("hook") is not None}      # classes with a validate_args hook of their own
        self.handles = {}      # canonical python value -> N
        self.rev_handles = {}

    # ---- element type ids, as the translator numbers them
    def eid(self, conv):
        T = self.Types
        if isinstance(conv, T.ListElement):
            conv = conv.converter
        desc = TS.describe_type(conv, T, self.d["enums"], [], "?")
        return self.d["etys"][desc]

    # ---- handles for scalar values
    def canon(self, v):
        if isinstance(v, bool): return ("bool", v)
        if isinstance(v, int): return ("int", v)
        if isinstance(v, str): return ("str", v)
        if isinstance(v, decimal.Decimal): return ("dec", v.as_tuple())
        if isinstance(v, datetime.datetime):
            off = v.utcoffset()
            if off is None:
                return ("naive-dt", v.isoformat())
            # date-times are equal as INSTANTS (the property's own equality): the zone they were written in is not part of the value
            u = v.astimezone(datetime.timezone.utc).replace(tzinfo=None)
            return ("dt", u.isoformat(timespec="microseconds"))
        if isinstance(v, datetime.time):
            off = v.utcoffset()
            if off is None:
                return ("naive-tm", v.isoformat())
            us = ((v.hour * 60 + v.minute) * 60 + v.second) * 10 ** 6 + v.microsecond - int(off.total_seconds()) * 10 ** 6
            return ("tm", us % (86400 * 10 ** 6))
        return ("other", repr(v))

    def handle(self, v):
        k = self.canon(v)
        if k not in self.handles:
            self.handles[k] = len(self.handles) + 1
            self.rev_handles[self.handles[k]] = v
        return self.handles[k]


def cs(s):
    """Coq string literal (names and tags are ASCII without quotes in every generated case)"""
    if not all(32 <= ord(c) < 127 and c != '"' for c in s):
        raise ValueError("non-ASCII name/tag in case: %r" % (s,))
    return '"%s"' % s


# ------------------------------------------------------------------ values
UTC = datetime.timezone.utc
# entity-looking text inside held values ('&lt;' as four characters) only makes sense for checks that go through the wire, where the
# serializer escapes it: to_etree()/from_etree() alone are not inverse on such text (by design: escaping is the serializer's job)
ENTITY_VALUES = False
# UTC offsets in minutes, incl. negative ones with a minutes part and the band between GMT-1 and GMT
ZONES = [60, -60, 330, 345, -210, -570, -30, -45, 765, -720, 840, -300, 570]
class DstZone(datetime.tzinfo):
    """a zone whose offset depends on the date (summer time April-September, or October-March in the south): ONE tzinfo object shared
    by values on both sides of the change, as zoneinfo / dateutil zones are"""
    def __init__(self, std, dst, std_min, dst_min, south=False):
        self.std_name, self.dst_name, self.std_min, self.dst_min, self.south = std, dst, std_min, dst_min, south

    def __getinitargs__(self):
        return (self.std_name, self.dst_name, self.std_min, self.dst_min, self.south)

    def _summer(self, dt):          # used for date-times only (see gen_value)
        return dt is not None and ((4 <= dt.month <= 9) != self.south)

    def utcoffset(self, dt):
        return datetime.timedelta(minutes=self.dst_min if self._summer(dt) else self.std_min)

    def dst(self, dt):
        return datetime.timedelta(minutes=(self.dst_min - self.std_min) if self._summer(dt) else 0)

    def tzname(self, dt):
        return self.dst_name if self._summer(dt) else self.std_name

    def __repr__(self):
        return "DstZone(%s/%s)" % (self.std_name, self.dst_name)


DST_ZONES = [DstZone("CET", "CEST", 60, 120), DstZone("EST", "EDT", -300, -240), DstZone("ACST", "ACDT", 570, 630, south=True),
             DstZone("NST", "NDT", -210, -150)]
STR_ALPHA = string.ascii_letters + string.digits + " .,;:-_/()#'\"&<>éü€"
# text at the edges of Unicode: sequences that normalisation (NFC / NFKC) would change, other scripts, non-ASCII digits and blanks inside,
# an astral character; values must reach the model and the wire code point for code point
EDGE_TEXT = ["Cafe\u0301", "n\u0303o", "\u1112\u1161\u11ab\u1100\u1173\u11af", "\u212b\u2126", "\ufa10", "a\u0323\u0301b", "q\u0307\u0323",
             "\uff11\uff12\uff13", "\u0663\u0664", "x\u00a0y", "x\u3000y", "\U0001d518\U0001f600", "\u6f22\u5b57", "\u0416\u0438", "\ufb01n", "\u1e9b\u0323"]


def gen_value(ctx, conv, rng):
    T = ctx.Types
    if isinstance(conv, T.ListElement):
        conv = conv.converter
    if type(conv) is T.Bool:
        return rng.choice([True, False])
    if type(conv) in (T.String, T.NagString):
        n = conv.length or 12
        k = rng.randint(1, min(n, 12)) if rng.random() < 0.9 else n
        s = "".join(rng.choice(STR_ALPHA) for _ in range(k)).strip()
        if rng.random() < 0.12:
            e = rng.choice(EDGE_TEXT)
            s = (s[:max(0, n - len(e))] + e)[:n].strip() or "x"
        if ENTITY_VALUES and rng.random() < 0.12 and (conv.length is None or conv.length >= 12):
            # the HELD value shall contain entity-looking text such as '&lt;' (String.convert un-escapes what it is given once)
            ent = rng.choice(["&amp;lt;", "&amp;gt;", "&amp;amp;", "&amp;quot;", "&amp;nbsp;", "&amp;#39;", "&amp;apos;"])
            cut = rng.randint(0, min(len(s), 3))
            s = (s[:cut] + ent + s[cut:cut + 2]).strip()
        return s or "x"
    if type(conv) is T.OneOf:
        return rng.choice([v for v in conv.valid])
    if type(conv) is T.Integer:
        n = conv.length or 9
        return rng.randrange(0, 10 ** min(n, 9)) if rng.random() < 0.9 else 10 ** n - 1
    if type(conv) is T.Decimal:
        q = conv.scale
        digits = rng.randrange(0, 10 ** rng.randint(1, 8))
        if q is None and rng.random() < 0.06:      # more significant digits than the decimal context's precision (28): held exactly
            digits = rng.randrange(10 ** 28, 10 ** rng.randint(29, 31))
        if q is not None:
            e = q.as_tuple().exponent
        else:
            e = -rng.randint(0, 6)
        return decimal.Decimal((rng.randint(0, 1), tuple(int(c) for c in str(digits)), e))
    if type(conv) is T.DateTime:
        r = rng.random()
        tz = UTC if r < 0.45 else (rng.choice(DST_ZONES) if r < 0.6 else datetime.timezone(datetime.timedelta(minutes=rng.choice(ZONES))))
        return datetime.datetime(rng.randint(1990, 2030), rng.randint(1, 12), rng.randint(1, 28), rng.randint(0, 23), rng.randint(0, 59),
                                 rng.randint(0, 59), rng.choice([0, 0, 123000, 999000]), tzinfo=tz)
    if type(conv) is T.Time:       # fixed offsets only: a time of day has no date, so a date-dependent zone gives it no offset (zoneinfo returns None)
        tz = UTC if rng.random() < 0.5 else datetime.timezone(datetime.timedelta(minutes=rng.choice(ZONES)))
        return datetime.time(rng.randint(0, 23), rng.randint(0, 59), rng.randint(0, 59), rng.choice([0, 500000]), tzinfo=tz)
    raise ValueError("no generator for %r" % (conv,))


# ------------------------------------------------------------------ instances
def gen_args(ctx, cls, rng, depth, full=0.5, force=None):
    """-> (args, kwargs) of a (most probably) valid instance of cls; depth-limited.  force: attribute that must be present."""
    T = ctx.Types
    spec = cls.spec
    kw, args = {}, []
    optional = lambda: depth > 0 and rng.random() < full
    chosen = {}
    for g in cls.requiredMutexes:
        live = [m for m in g if m in spec and not isinstance(spec[m], (T.ListAggregate, T.ListElement, T.Unsupported))]
        if live:
            chosen[tuple(g)] = force if force in live else rng.choice(live)
    banned = set()
    for g in list(cls.optionalMutexes) + list(cls.requiredMutexes):
        keep = chosen.get(tuple(g))
        if keep is None:
            cand = [m for m in g if m in spec and m not in banned]
            keep = force if force in cand else (rng.choice(cand) if cand and rng.random() < 0.5 else None)
        for m in g:
            if m != keep:
                banned.add(m)
    forced = set(chosen.values()) - banned
    for k, t in spec.items():
        if isinstance(t, T.Unsupported):
            continue
        if isinstance(t, T.ListAggregate):
            n = (rng.choice([1, 2]) if k == force else rng.choice([0, 1, 2]) if depth > 0 else 0)
            for _ in range(n):
                m = gen_instance(ctx, t.__type__, rng, depth - 1, full)
                if m is not None:
                    args.append(m)
            continue
        if isinstance(t, T.ListElement):
            for _ in range(rng.choice([1, 3]) if k == force else rng.choice([0, 1, 3])):
                args.append(t.converter.unconvert(gen_value(ctx, t, rng)))
            continue
        if k in banned:
            continue
        want = t.required or k in forced or k == force or optional()
        if not want:
            continue
        if isinstance(t, T.SubAggregate):
            if depth <= 0 and not (t.required or k in forced or k == force):
                continue
            sub = gen_instance(ctx, t.__type__, rng, depth - 1, full)
            if sub is not None:
                kw[k] = sub
        else:
            kw[k] = gen_value(ctx, t, rng)
    fix_hooks(ctx, cls, rng, args, kw, depth, full, force)
    if len(args) > 1 and rng.random() < 0.7:
        rng.shuffle(args)      # repeated children of different kinds may come in any order
    return args, kw


def fix_hooks(ctx, cls, rng, args, kw, depth, full, force=None):
    T = ctx.Types
    name = None
    for b in cls.__mro__:
        if "validate_args" in b.__dict__ and b is not ctx.Aggregate:
            name = b.__name__; break
    if name is None:
        return
    spec = cls.spec
    la = [(k, t) for k, t in spec.items() if isinstance(t, T.ListAggregate)]
    le = [(k, t) for k, t in spec.items() if isinstance(t, T.ListElement)]
    if name in ("MSGSETCORE", "MFACHALLENGERS", "CONTRIBINFO", "MSGSETLIST", "TAX1099MSGSRQV1", "TAX1099MSGSRSV1", "TAX1099MSGSETV1") and not args:
        if le and issubclass(cls, ctx.ElementList):
            args.append(le[0][1].converter.unconvert(gen_value(ctx, le[0][1], rng)))
        elif la:
            m = gen_instance(ctx, rng.choice(la)[1].__type__, rng, max(depth - 1, 0), full)
            if m is not None: args.append(m)
    elif name == "ACCTINFO":
        seen, out = set(), []
        for a in args:
            if type(a).__name__ not in seen:
                seen.add(type(a).__name__); out.append(a)
        args[:] = out
        if not args and la:
            m = gen_instance(ctx, rng.choice(la)[1].__type__, rng, max(depth - 1, 0), full)
            if m is not None: args.append(m)
    elif name == "TAX1099RS":
        if not any(type(a).__name__.startswith("TAX1099") for a in args):
            cand = [t for k, t in la if t.__type__.__name__.startswith("TAX1099")]
            m = gen_instance(ctx, rng.choice(cand).__type__, rng, max(depth - 1, 0), full)
            if m is not None: args.append(m)
    elif name == "EXTDPMT":
        if "extdpmtdsc" not in kw and not any(type(a).__name__ == "EXTDPMTINV" for a in args):
            kw["extdpmtdsc"] = gen_value(ctx, spec["extdpmtdsc"], rng)
    elif name == "EXTDPAYEE":
        if kw.get("payeeid"):
            for a in ("idscope", "name"):
                if not kw.get(a): kw[a] = gen_value(ctx, spec[a], rng)
    elif name == "SONRQ":
        if (force in ("userid", "userpass")) or (force != "userkey" and rng.random() < 0.5):
            kw.pop("userkey", None)
            for a in ("userid", "userpass"):
                if not kw.get(a): kw[a] = gen_value(ctx, spec[a], rng)
        else:
            kw.pop("userid", None); kw.pop("userpass", None)
            if not kw.get("userkey"): kw["userkey"] = gen_value(ctx, spec["userkey"], rng)
    elif name == "CONTRIBSECURITY":
        suf = force[-3:] if (force and force != "secid") else rng.choice(["pct", "amt"])
        for k in [k for k in kw if k != "secid" and not k.endswith(suf)]:
            del kw[k]
        if len(kw) < 2:
            k = rng.choice([k for k in spec if k.endswith(suf)])
            kw[k] = gen_value(ctx, spec[k], rng)
    elif name == "TAX1099R_V100":
        if any(t in kw for t in ("grossdist", "taxamt", "fedtaxwh", "sttaxwh", "lcltaxwh")) and "irasepsimp" not in kw:
            kw["irasepsimp"] = gen_value(ctx, spec["irasepsimp"], rng)
    elif name == "OFX":
        suf = force[-8:] if force else rng.choice(["msgsrqv1", "msgsrsv1"])
        for k in [k for k in kw if not k.endswith(suf)]:
            del kw[k]
        req = [k for k, t in spec.items() if getattr(t, "required", False) and k.endswith(suf)]
        for k in req:
            if k not in kw:
                sub = gen_instance(ctx, spec[k].__type__, rng, max(depth - 1, 0), full)
                if sub is not None: kw[k] = sub
        if not kw:
            k = "signon" + suf
            sub = gen_instance(ctx, spec[k].__type__, rng, max(depth - 1, 0), full)
            if sub is not None: kw[k] = sub


def gen_instance(ctx, cls, rng, depth=2, full=0.5, tries=6, force=None):
    """a valid instance of cls (real object) or None if the generator failed `tries` times"""
    for _ in range(tries):
        args, kw = gen_args(ctx, cls, rng, depth, full, force)
        try:
            with warnings.catch_warnings():
                warnings.simplefilter("ignore")
                return cls(*args, **kw)
        except Exception:
            depth = max(depth - 1, 0)
            continue
    return None


# ------------------------------------------------------------------ encoders
def spec_no_list(ctx, cls):
    T = ctx.Types
    return [(k, t) for k, t in cls.spec.items() if not isinstance(t, (T.ListAggregate, T.ListElement))]


def enc_inst(ctx, obj, unconv_tb=None):
    """real Aggregate instance -> Coq `inst hval`; optionally collects (eid, handle) -> unconvert outcome"""
    T = ctx.Types
    cls = type(obj)
    fields = []
    for k, t in spec_no_list(ctx, cls):
        v = None if isinstance(t, T.Unsupported) else obj.__dict__.get(k)
        if v is None:
            fields.append("(%s,FNone _)" % cs(k))
        elif isinstance(v, ctx.Aggregate):
            fields.append("(%s,FSub _ %s)" % (cs(k), enc_inst(ctx, v, unconv_tb)))
        else:
            h = ctx.handle(v)
            if unconv_tb is not None and not isinstance(t, T.SubAggregate):
                unconv_tb[(ctx.eid(t), h)] = outcome(t.unconvert, v)
            fields.append("(%s,FVal _ %d)" % (cs(k), h))
    mems = []
    le = [t for k, t in cls.spec.items() if isinstance(t, T.ListElement)]
    for m in obj:
        if isinstance(m, ctx.Aggregate):
            mems.append("MAgg _ %s" % enc_inst(ctx, m, unconv_tb))
        elif isinstance(obj, ctx.ElementList):
            if m is None:
                mems.append("MVal _ None")
            else:
                h = ctx.handle(m)
                if unconv_tb is not None and len(le) == 1:
                    unconv_tb[(ctx.eid(le[0]), h)] = outcome(le[0].unconvert, m)
                mems.append("MVal _ (Some %d)" % h)
        else:
            mems.append("MStr _ %s" % C.ctext(m))
    return "(Inst _ %s [%s] [%s])" % (cs(cls.__name__), ";".join(fields), ";".join(mems))


def enc_etree(e):
    return "(Node %s %s [%s])" % (cs(e.tag), "None" if e.text is None else "(Some %s)" % C.ctext(e.text), ";".join(enc_etree(c) for c in e))


def outcome(f, *a):
    try:
        with warnings.catch_warnings():
            warnings.simplefilter("ignore")
            return ("ok", f(*a))
    except (ValueError, TypeError) as e:
        return ("reject", type(e).__name__)
    except Exception as e:
        return ("crash", type(e).__name__)


def enc_result(out, enc):
    if out[0] == "ok":
        return "OK %s" % enc(out[1])
    return "Err Reject" if out[0] == "reject" else "Err Crash"


def enc_conv_outcome(ctx, out):
    return enc_result(out, lambda v: "None" if v is None else "(Some %d)" % ctx.handle(v))


def conv_table_for_tree(ctx, e, tb):
    """fill tb[(eid, ('T', text))] with what the REAL converter answers, for every data child met while walking the tree
    the way from_etree does (class looked up by tag)."""
    T = ctx.Types
    cls = getattr(ctx.M, e.tag, None)
    if not (isinstance(cls, type) and issubclass(cls, ctx.Aggregate)):
        return
    spec = cls.spec
    rename = {"MAIL": ("FROM", "FRM"), "MFINFO": ("YIELD", "YLD"), "STOCKINFO": ("YIELD", "YLD")}
    ren = None
    for b in cls.__mro__:
        if b.__name__ in rename:
            ren = rename[b.__name__]; break
    done = False
    for ch in e:
        tag = ch.tag
        if ren and not done and tag == ren[0]:
            tag, done = ren[1], True
        t = spec.get(tag.lower())
        if t is None:
            continue
        if ch.text and isinstance(t, T.Element) and not isinstance(t, T.SubAggregate):
            tb[(ctx.eid(t), ("T", ch.text))] = outcome(t.convert, ch.text)
        elif not ch.text:
            conv_table_for_tree(ctx, ch, tb)


def enc_conv_table(ctx, tb):
    items = []
    for (eid, (kind, x)), out in tb.items():
        sin = "SText _ %s" % C.ctext(x) if kind == "T" else "SNat _ %d" % x
        items.append("(%d,%s,%s)" % (eid, sin, enc_conv_outcome(ctx, out)))
    return "[" + ";".join(items) + "]"


def enc_unconv_table(ctx, tb):
    return "[" + ";".join("(%d,%d,%s)" % (eid, h, enc_result(out, C.ctext)) for (eid, h), out in tb.items()) + "]"


def run_from_etree(ctx, e):
    """Aggregate.from_etree on a deep copy; -> (outcome, warnings as list of tags)"""
    e2 = copy.deepcopy(e)
    with warnings.catch_warnings(record=True) as w:
        warnings.simplefilter("always")
        try:
            r = ("ok", ctx.Aggregate.from_etree(e2))
        except (ValueError, TypeError) as ex:
            r = ("reject", type(ex).__name__)
        except Exception as ex:
            r = ("crash", type(ex).__name__)
    tags = []
    for x in w:
        if issubclass(x.category, ctx.UnknownTagWarning):
            msg = str(x.message)
            tags.append(msg.split("unknown tag ")[1].split(";")[0])
    return r, tags


def case_from(ctx, e):
    tb = {}
    conv_table_for_tree(ctx, e, tb)
    out, tags = run_from_etree(ctx, e)
    exp = enc_result(out, lambda i: "(%s,[%s])" % (enc_inst(ctx, i), ";".join(cs(t) for t in tags)))
    return "CFrom %s %s (%s)" % (enc_conv_table(ctx, tb), enc_etree(e), exp), out, tags


def case_to(ctx, obj):
    tb = {}
    enc = enc_inst(ctx, obj, tb)
    out = outcome(obj.to_etree)
    return "CTo %s %s (%s)" % (enc_unconv_table(ctx, tb), enc, enc_result(out, enc_etree)), out


def enc_kwval(ctx, v, t, tb):
    """constructor argument -> kwval; native scalars become handles with a converter-table entry"""
    T = ctx.Types
    if v is None:
        return "KNone _"
    if isinstance(v, ctx.Aggregate):
        return "KInst _ %s" % enc_inst(ctx, v)
    conv = t.converter if isinstance(t, T.ListElement) else t
    if isinstance(v, str):
        if conv is not None and isinstance(conv, T.Element) and not isinstance(conv, T.SubAggregate):
            tb[(ctx.eid(conv), ("T", v))] = outcome(conv.convert, v)
        return "KText _ %s" % C.ctext(v)
    h = ctx.handle(v)
    if conv is not None and isinstance(conv, T.Element) and not isinstance(conv, T.SubAggregate):
        tb[(ctx.eid(conv), ("N", h))] = outcome(conv.convert, v)
    return "KNat _ %d" % h


def case_cons(ctx, cls, args, kw):
    T = ctx.Types
    tb = {}
    spec = cls.spec
    le = [t for k, t in spec.items() if isinstance(t, T.ListElement)]
    a_enc = [enc_kwval(ctx, a, le[0] if (le and issubclass(cls, ctx.ElementList)) else None, tb) for a in args]
    k_enc = ["(%s,%s)" % (cs(k), enc_kwval(ctx, v, spec.get(k) if not isinstance(spec.get(k), T.Unsupported) else None, tb)) for k, v in kw.items()]
    out = outcome(lambda: cls(*args, **kw))
    return "CCons %s %s [%s] [%s] (%s)" % (enc_conv_table(ctx, tb), cs(cls.__name__), ";".join(a_enc), ";".join(k_enc),
                                            enc_result(out, lambda i: enc_inst(ctx, i))), out


# ------------------------------------------------------------------ deep comparison of real instances
def inst_equal(ctx, a, b):
    if isinstance(a, ctx.Aggregate) or isinstance(b, ctx.Aggregate):
        if type(a) is not type(b) or len(a) != len(b):
            return False
        for k, t in spec_no_list(ctx, type(a)):
            if isinstance(t, ctx.Types.Unsupported):
                continue
            if not inst_equal(ctx, a.__dict__.get(k), b.__dict__.get(k)):
                return False
        return all(inst_equal(ctx, x, y) for x, y in zip(a, b))
    if a is None or b is None:
        return a is None and b is None
    return ctx.canon(a) == ctx.canon(b) or (isinstance(a, (datetime.datetime, datetime.time)) and type(a) is type(b) and a == b)
