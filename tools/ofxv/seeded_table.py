"""print a markdown table of /verif/seeded/*: which check catches which seeded change (from the recorded runs)"""
import json, glob, os
V = os.path.dirname(os.path.dirname(os.path.dirname(os.path.abspath(__file__))))
rows = []
def natural(d):
    a, b = os.path.basename(d).split("-")
    return (a, int(b))


for d in sorted(glob.glob(os.path.join(V, "seeded", "*")), key=natural):
    m = json.load(open(os.path.join(d, "meta.json")))
    runs = m.get("runs", [])
    hist = []
    for r in runs:
        for c, res in r["checks"].items():
            v = res["violation_lines"]
            if res["exit"] == 0:
                hist.append("%s: missed" % c)
            elif any("no-failing-input-found" in x for x in v) and not any("no-failing-input-found" not in x for x in v):
                hist.append("%s: reported, no failing input" % c)
            else:
                key = v[0].split("replay=")[1].split("/")[-1].rsplit("-", 1)[0] if v else "?"
                hist.append("%s: failing input (%s)" % (c, key))
    demo = "%s/%s" % (runs[-1]["demo_without_patch"], runs[-1]["demo_with_patch"]) if runs else "-"
    rows.append("| %s | %s | %s | %s | %s |" % (os.path.basename(d), m.get("summary", "")[:110].replace("|", "/").replace("\n", " "), m.get("needs", "")[:90].replace("|", "/").replace("\n", " "), demo, (("first run: %s; last run: %s (%d runs)" % (hist[0], hist[-1], len(hist))) if len(hist) > 1 else (hist[0] if hist else "not run"))))
print("| seeded change | what it does | needs | demo exit (clean/patched) | check runs (first and last of the recorded runs) |\n|---|---|---|---|---|")
print("\n".join(rows))
