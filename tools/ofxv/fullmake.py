"""Full .vo build of the whole development under the build lock (what MANIFEST.setup_cmd does after the translators)."""
import sys, os
sys.path.insert(0, os.path.dirname(os.path.dirname(os.path.abspath(__file__))))
from ofxv import common as C
with C.build_lock():
    C.regen_coqproject()
    rc, out = C.sh(["timeout", "3000", "make", "-f", "Makefile.coq", "-k", "-j%d" % C.NCPU], cwd=C.COQ, timeout=3100)
    errs = [l for l in out.splitlines() if "Error" in l or l.startswith("make") and "***" in l]
    print("\n".join(errs[-40:]) if errs else "build complete: no errors")
