"""import_benign.py Cxx <srcdir> : copy <srcdir>/{patch,demo,meta}<i> into /verif/benign/Cxx-<i>/ (patch.diff, demo.py, meta.json):
behaviour-preserving changes written by fresh sub-agents, used to measure false alarms (tools/ofxv/run_seeded.py benign/<id>)."""
import sys, os, json, shutil, glob
V = os.path.dirname(os.path.dirname(os.path.dirname(os.path.abspath(__file__))))
pid, src = sys.argv[1], sys.argv[2]
for p in sorted(glob.glob(os.path.join(src, "patch*.diff"))):
    i = os.path.basename(p)[5:-5]
    d = os.path.join(V, "benign", "%s-%s" % (pid, i)); os.makedirs(d, exist_ok=True)
    shutil.copy(p, os.path.join(d, "patch.diff"))
    shutil.copy(os.path.join(src, "demo%s.py" % i), os.path.join(d, "demo.py"))
    m = json.load(open(os.path.join(src, "meta%s.json" % i)))
    m.setdefault("property", pid); m["kind"] = "benign"
    m["origin"] = "fresh sub-agent given only the property text and a scratch worktree, asked for a behaviour-preserving change in the anchored code (round 9)"
    json.dump(m, open(os.path.join(d, "meta.json"), "w"), indent=1)
    print(d)
