"""Merge notes/findings/*.json (workers' proposals) into known_findings.json, filling in fix: commit ids from /repo's log.
Run by the coordinator only; never at check time."""
import json, glob, os, re, subprocess
V = os.path.dirname(os.path.dirname(os.path.dirname(os.path.abspath(__file__))))
log = subprocess.run(["git", "-C", "/repo", "log", "--format=%h %s"], capture_output=True, text=True).stdout.splitlines()
commit_of = {}
for f in glob.glob(os.path.join(V, "fixes", "*.msg")):
    msg = open(f).readline().strip()
    for line in log:
        h, s = line.split(" ", 1)
        if s.strip() == msg:
            commit_of[os.path.basename(f)[:-4]] = h
kf = json.load(open(os.path.join(V, "known_findings.json")))
have = {(f["property"], f["key"]) for f in kf["findings"]}
for p in sorted(glob.glob(os.path.join(V, "notes", "findings", "*.json"))):
    for f in json.load(open(p))["findings"]:
        if f.get("optional"):
            continue
        k = (f["property"], f["key"])
        if k in have:
            continue
        if f["status"] == "fixed":
            blob = json.dumps(f)
            m = re.search(r"(C\d\d-\d)", blob.replace(f["property"] + " ", "", 1) if False else blob[blob.find("fix"):] )
            cands = [n for n in commit_of if any(tag in blob for tag in (n, n.split("-")[0] + "-" + n.split("-")[1]))]
            f["commit"] = commit_of[cands[0]] if cands else f.get("commit", "")
            f["what"] = re.sub(r"<commit[^>]*>|C\d\d-\d(?= )", f["commit"], f["what"])
            f.pop("fix", None)
        kf["findings"].append(f); have.add(k)
json.dump(kf, open(os.path.join(V, "known_findings.json"), "w"), indent=1)
print("commits:", commit_of)
print("findings:", len(kf["findings"]), "known:", [(f["property"], f["key"]) for f in kf["findings"] if f["status"] == "known"])
print("fixed without commit:", [(f["property"], f["key"]) for f in kf["findings"] if f["status"] == "fixed" and not re.fullmatch(r"[0-9a-f]{7,}", f.get("commit", ""))])
