"""Worker of the C06 check: composes requests through the PUBLIC command line `ofxget <request> ... --dryrun`
(ofxtools/scripts/ofxget.py main() -> request_stmt / request_stmtend -> OFXClient.request_statements) in a fresh interpreter
whose HOME / XDG directories are a temporary directory (no user configuration, no network: --url is given, --dryrun returns
before any connection).  stdin: {"repo": path, "jobs": [{"argv": [...], "uuids": [...], "dtclient": [y,mo,d,h,mi,s,us]}]};
stdout: one JSON list with, per job, {"out": printed text} or {"err": "Class: message"}."""
import sys, os, json, io, tempfile, shutil, contextlib, datetime, warnings


def main():
    req = json.load(sys.stdin)
    tmp = tempfile.mkdtemp(prefix="ofxv-c06-fd-")
    try:
        os.environ["HOME"] = tmp
        for k, d in (("XDG_CONFIG_HOME", "config"), ("XDG_CACHE_HOME", "cache"), ("XDG_DATA_HOME", "data")):
            os.environ[k] = os.path.join(tmp, d)
        sys.path.insert(0, req["repo"])
        import ofxtools
        if not os.path.abspath(ofxtools.__file__).startswith(os.path.abspath(req["repo"]) + os.sep):
            raise RuntimeError("ofxtools imported from %s" % ofxtools.__file__)
        import ofxtools.Client as CL
        from ofxtools.utils import classproperty, UTC
        from ofxtools.scripts import ofxget
        state = {"it": iter(()), "dt": None}
        CL.OFXClient.uuid = classproperty(classmethod(lambda cls: next(state["it"])))
        CL.OFXClient.dtclient = lambda self: state["dt"]
        res = []
        for job in req["jobs"]:
            state["it"] = iter(job["uuids"])
            state["dt"] = datetime.datetime(*job["dtclient"], tzinfo=UTC)
            out = io.StringIO()
            old = sys.argv
            sys.argv = ["ofxget"] + job["argv"]
            try:
                with warnings.catch_warnings():
                    warnings.simplefilter("ignore")
                    with contextlib.redirect_stdout(out), contextlib.redirect_stderr(io.StringIO()):
                        ofxget.main()
                res.append({"out": out.getvalue()})
            except SystemExit as e:
                res.append({"err": "SystemExit: %s" % (e.code,)})
            except Exception as e:
                res.append({"err": "%s: %s" % (type(e).__name__, str(e)[:200])})
            finally:
                sys.argv = old
        json.dump(res, sys.stdout)
    finally:
        shutil.rmtree(tmp, ignore_errors=True)


if __name__ == "__main__":
    main()
