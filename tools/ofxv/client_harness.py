"""Shared harness of the client checks C14 (HttpClient) and C15 (ProfileCache).

* `FakeNet`: an in-process fake HTTP server installed UNDER urllib's opener (HTTPHandler.http_open /
  HTTPSHandler.https_open are replaced), so `OFXClient.post_request`, `build_opener`, `HTTPCookieProcessor`,
  `Request` and the cookie jar all run for real; it sees URL, method, every header, body, Cookie.
* builders of valid OFX profile responses made with the library's own models.
* `FsWorld` (C15): the file-system calls `request_profile` makes on the cache directory are routed through a
  logged, *steppable* re-enactment (open-truncate / buffered write / flush on close / mkstemp / replace are
  separate steps performed with os.* on the real directory), so that a step can be the last one before a
  simulated kill (nothing is flushed afterwards) and two calls can be interleaved under an explicit schedule.

Nothing here imports ofxtools at module import time: call `setup_env(tag)` first (it points XDG_*_HOME at a scratch
directory under /verif/build, never at HOME or /tmp), then `lib()`."""
import os, sys, io, re, datetime, shutil, threading, types, email.message, contextlib, builtins
from . import common as C

EPOCH = datetime.datetime(2020, 1, 1, tzinfo=datetime.timezone.utc)
_LIB = None


def setup_env(tag):
    root = os.path.join(C.BUILD, "scratch", tag, "xdg-%d" % os.getpid())
    shutil.rmtree(root, ignore_errors=True)
    os.makedirs(root)
    os.environ["XDG_DATA_HOME"] = os.path.join(root, "data")
    os.environ["XDG_CONFIG_HOME"] = os.path.join(root, "config")
    os.environ["XDG_CACHE_HOME"] = os.path.join(root, "cache")
    os.environ["HOME"] = os.path.join(root, "home")
    return root


def lib():
    """import the implementation (after setup_env + common.use_repo)."""
    global _LIB
    if _LIB is None:
        assert "XDG_DATA_HOME" in os.environ and os.environ["XDG_DATA_HOME"].startswith(C.BUILD)
        C.use_repo()
        import ofxtools, ofxtools.config, ofxtools.Client, ofxtools.models, ofxtools.Parser, ofxtools.utils
        assert os.path.realpath(ofxtools.__file__).startswith(os.path.realpath(C.REPO)), (ofxtools.__file__, C.REPO)
        assert str(ofxtools.config.DATADIR).startswith(C.BUILD), ofxtools.config.DATADIR
        _LIB = types.SimpleNamespace(config=ofxtools.config, Client=ofxtools.Client, M=ofxtools.models,
                                     Parser=ofxtools.Parser, utils=ofxtools.utils, OFXClient=ofxtools.Client.OFXClient)
    return _LIB


def date_of(n):
    """model date n (small integer) -> the datetime written into DTPROFUP."""
    return EPOCH + datetime.timedelta(days=n)


def n_of_date(dt):
    """inverse of date_of; 1990-01-01 (the library's 'no profile held' value) -> None."""
    if dt is None:
        return None
    if dt.year == 1990:
        return None
    d = dt - EPOCH
    assert d.seconds == 0 and d.microseconds == 0, dt
    return d.days


# ------------------------------------------------------------------ OFX responses built with the library
SETKINDS = ("bank", "cc", "inv", "other")


def make_profile(n, sets, tag=""):
    """complete PROFRS document: DTPROFUP = date_of(n); sets = [(kind, url, closingavail)], kind in SETKINDS.
    `tag` makes two profiles of the same date differ (and varies the length)."""
    L = lib(); M = L.M
    core = lambda url: M.MSGSETCORE("ENG", ver=1, url=url, ofxsec="NONE", transpsec=True, signonrealm="R",
                                    syncmode="LITE", respfileer=True)
    ep = M.EMAILPROF(canemail=False, cannotify=False)
    ms = []
    # MSGSETLIST members must follow the declared class order (signup, bank, creditcard, invstmt); stable within a class
    rank = {"other": 1, "bank": 2, "cc": 3, "inv": 4}
    for kind, url, closing in sorted(sets, key=lambda s: rank[s[0]]):
        if kind == "bank":
            ms.append(M.BANKMSGSET(bankmsgsetv1=M.BANKMSGSETV1(msgsetcore=core(url), closingavail=closing, emailprof=ep)))
        elif kind == "cc":
            ms.append(M.CREDITCARDMSGSET(creditcardmsgsetv1=M.CREDITCARDMSGSETV1(msgsetcore=core(url), closingavail=closing)))
        elif kind == "inv":
            ms.append(M.INVSTMTMSGSET(invstmtmsgsetv1=M.INVSTMTMSGSETV1(
                msgsetcore=core(url), trandnld=True, oodnld=False, posdnld=True, baldnld=True, canemail=False)))
        else:
            ms.append(M.SIGNUPMSGSET(signupmsgsetv1=M.SIGNUPMSGSETV1(
                msgsetcore=core(url), clientenroll=M.CLIENTENROLL(acctrequired=False), chguserinfo=False, availaccts=True, clientactreq=False)))
    msl = M.MSGSETLIST(*ms)
    si = M.SIGNONINFOLIST(M.SIGNONINFO(signonrealm="R", min=1, max=32, chartype="ALPHAORNUMERIC", casesen=True,
                                        special=True, spaces=False, pinch=False, chgpinfirst=False))
    dt = date_of(n)
    profrs = M.PROFRS(msgsetlist=msl, signoninfolist=si, dtprofup=dt, finame="FI" + tag[:30], addr1="1 Main St", city="c",
                      state="NY", postalcode="1", country="USA")
    trn = M.PROFTRNRS(trnuid="1", status=M.STATUS(code=0, severity="INFO"), profrs=profrs)
    return _wrap(trn, dt)


def make_status_only(code):
    """PROFTRNRS with a STATUS and no PROFRS: code 1 = 'client is up to date' (OFX 7.2), anything else an error status."""
    M = lib().M
    sev = "INFO" if code in (0, 1) else "ERROR"
    trn = M.PROFTRNRS(trnuid="1", status=M.STATUS(code=code, severity=sev))
    return _wrap(trn, date_of(0))


def _wrap(trn, dt):
    L = lib(); M = L.M
    son = M.SIGNONMSGSRSV1(sonrs=M.SONRS(status=M.STATUS(code=0, severity="INFO"), dtserver=dt, language="ENG"))
    ofx = M.OFX(signonmsgsrsv1=son, profmsgsrsv1=M.PROFMSGSRSV1(trn))
    return L.OFXClient("http://unused.example/").serialize(ofx)


GARBAGE = [b"", b"<html><body>Service unavailable</body></html>", b"OFXHEADER:100\r\nDATA:OFXSGML\r\n\r\n<OFX><SIGNONMSGSRSV1>",
           b"\xff\xfe\x00binary"]


# ------------------------------------------------------------------ fake HTTP under urllib
class Req:
    __slots__ = ("url", "method", "headers", "body", "cookie", "host")

    def __init__(self, r):
        self.url = r.full_url
        self.method = r.get_method()
        self.headers = {k.lower(): v for k, v in r.header_items()}
        self.body = r.data
        self.cookie = self.headers.get("cookie")
        self.host = r.host

    def cookies(self):
        if not self.cookie:
            return []
        out = []
        for part in self.cookie.split(";"):
            part = part.strip()
            if part:
                k, _, v = part.partition("=")
                out.append((k, v))
        return sorted(out)


class Resp:
    """what the fake server answers: transport=False -> URLError before any response; status != 200 -> HTTPError
    raised by urllib AFTER the cookie processor saw the response."""
    def __init__(self, body=b"", cookies=(), status=200, transport=True):
        self.body, self.cookies, self.status, self.transport = body, list(cookies), status, transport


_TLS_CTX = None


class HarnessKill(BaseException):
    """raised inside a patched call to end a simulated process at that point (C15 crash injection)."""


class FakeNet:
    def __init__(self, responder):
        self.internal_error = None
        self.responder = responder
        self.log = []
        self.lock = threading.Lock()

    def _open(self, handler, req):
        import urllib.response, urllib.error
        rq = Req(req)
        with self.lock:
            self.log.append(rq)
        try:
            resp = self.responder(rq)
        except BaseException as e:        # a bug of the harness must not pass for a behaviour of the client
            if not isinstance(e, HarnessKill):
                self.internal_error = e
            raise
        if not resp.transport:
            raise urllib.error.URLError("fake: connection refused")
        h = email.message.Message()
        h["Content-Type"] = "application/x-ofx"
        for k, v in resp.cookies:
            h["Set-Cookie"] = "%s=%s; Path=/" % (k, v)
        r = urllib.response.addinfourl(io.BytesIO(resp.body), h, req.full_url, resp.status)
        r.msg = "OK" if resp.status == 200 else "ERR"
        return r

    def __enter__(self):
        import urllib.request as U, http.client
        global _TLS_CTX
        # build_opener instantiates HTTPSHandler, which loads the system certificate store (45 ms) for a context that
        # the fake https_open never uses: TLS is outside the model, so hand urllib one cached context
        if _TLS_CTX is None:
            _TLS_CTX = (http.client._create_https_context, http.client._create_https_context(http.client.HTTPSConnection._http_vsn))
            http.client._create_https_context = lambda *a, **k: _TLS_CTX[1]
        self._saved = (U.HTTPHandler.http_open, U.HTTPSHandler.https_open)
        net = self
        U.HTTPHandler.http_open = lambda h, req: net._open(h, req)
        U.HTTPSHandler.https_open = lambda h, req: net._open(h, req)
        return self

    def __exit__(self, *a):
        import urllib.request as U
        U.HTTPHandler.http_open, U.HTTPSHandler.https_open = self._saved
        if self.internal_error is not None:
            raise RuntimeError("fake server failed: %r" % (self.internal_error,)) from self.internal_error
        return False


@contextlib.contextmanager
def frozen_client_clock():
    """uuid and dtclient fixed, so that a dry run yields byte-for-byte the request a real run posts."""
    L = lib()
    cls = L.OFXClient
    saved_uuid = cls.__dict__["uuid"]
    saved_dt = cls.__dict__["dtclient"]
    cls.uuid = "00000000-0000-4000-8000-000000000000"
    cls.dtclient = lambda self: datetime.datetime(2021, 6, 1, 12, 0, 0, tzinfo=datetime.timezone.utc)
    try:
        yield
    finally:
        cls.uuid = saved_uuid
        cls.dtclient = saved_dt


def set_datadir(path):
    """fresh data directory for one case (request_profile reads config.DATADIR at call time)."""
    import pathlib
    L = lib()
    os.makedirs(path, exist_ok=True)
    L.config.DATADIR = pathlib.Path(path)
    return os.path.join(path, "fiprofiles")


def read_request(body):
    """what a posted body says: (kind, userid, userpass, dtprofup-as-n or None).  kind in profile/stmt/acct/tax/other."""
    L = lib()
    p = L.Parser.OFXTree()
    p.parse(io.BytesIO(body))
    ofx = p.convert()
    son = ofx.signonmsgsrqv1.sonrq
    kinds, dtp = [], None
    for attr, k in (("profmsgsrqv1", "profile"), ("bankmsgsrqv1", "stmt"), ("creditcardmsgsrqv1", "stmt"), ("invstmtmsgsrqv1", "stmt"),
                    ("signupmsgsrqv1", "acct"), ("tax1099msgsrqv1", "tax")):
        v = getattr(ofx, attr, None)
        if v is not None:
            kinds.append(k)
            if k == "profile":
                dtp = n_of_date(v[0].profrq.dtprofup)
    kind = kinds[0] if len(set(kinds)) == 1 else "other"
    return kind, son.userid, son.userpass, dtp


def read_profile(data):
    """(n, [(kind,url,closing)]) of a profile document, or None if it is not one (independent reader: regex on the text)."""
    try:
        s = data.decode("utf-8")
    except Exception:
        return None
    m = re.search(r"<DTPROFUP>(\d{8})", s)
    if not m or "<PROFRS>" not in s or not s.rstrip().endswith("</OFX>"):
        return None
    d = datetime.datetime.strptime(m.group(1), "%Y%m%d").replace(tzinfo=datetime.timezone.utc)
    sets = []
    for mm in re.finditer(r"<(BANK|CREDITCARD|INVSTMT|SIGNUP)MSGSET>(.*?)</\1MSGSET>", s, re.S):
        kind = {"BANK": "bank", "CREDITCARD": "cc", "INVSTMT": "inv", "SIGNUP": "other"}[mm.group(1)]
        u = re.search(r"<URL>([^<]*)</URL>", mm.group(2)).group(1)
        cl = re.search(r"<CLOSINGAVAIL>([YN])", mm.group(2))
        sets.append((kind, u, bool(cl and cl.group(1) == "Y")))
    return (d - EPOCH).days, sets


def service_url(sets):
    """independent statement of what `_get_service_urls` + the single-URL assertion compute:
    the one URL advertised for statement downloads, or None when there is none or more than one."""
    urls = {}
    for kind, url, closing in sets:
        if kind in ("bank", "cc", "inv"):
            urls[kind] = url
    for kind in ("bank", "cc"):
        first = [s for s in sets if s[0] == kind]
        if first and first[0][2]:
            urls[kind + "end"] = first[0][1]
    vals = set(urls.values())
    return vals.pop() if len(vals) == 1 else None


# ------------------------------------------------------------------ running many cases on all cores
def _pmap_worker(args):
    fn, tag, chunk = args
    lib()
    wd = os.path.join(C.BUILD, "scratch", tag, "w%d" % os.getpid())
    out = [fn(case, wd) for case in chunk]
    shutil.rmtree(wd, ignore_errors=True)
    return out


def pmap(fn, cases, tag, chunk=8, workers=None):
    """[fn(case, private_workdir) for case in cases], spread over processes (fork).  fn must be a module-level function
    whose result is picklable and depends on nothing but the case (every random choice seeded inside the case)."""
    import multiprocessing as mp
    from concurrent.futures import ProcessPoolExecutor
    workers = workers or C.NCPU
    if len(cases) <= chunk or workers == 1:
        return _pmap_worker((fn, tag, cases))
    chunks = [cases[i:i + chunk] for i in range(0, len(cases), chunk)]
    with ProcessPoolExecutor(workers, mp_context=mp.get_context("fork")) as ex:
        res = list(ex.map(_pmap_worker, [(fn, tag, ch) for ch in chunks]))
    return [x for r in res for x in r]
