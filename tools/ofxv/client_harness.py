"""Shared harness of the client checks C14 (HttpClient) and C15 (ProfileCache).

* `FakeNet`: an in-process fake HTTP server installed UNDER urllib's opener (HTTPHandler.http_open /
  HTTPSHandler.https_open are replaced), so `OFXClient.post_request`, `build_opener`, `HTTPCookieProcessor`,
  `Request` and the cookie jar all run for real; it sees URL, method, every header, body, Cookie.
* builders of valid OFX profile responses made with the library's own models.
* `FsWorld` (C15): the file-system calls `request_profile` makes on the cache directory are routed through a
  logged, *steppable* re-enactment (open-truncate / buffered write / flush on close / mkstemp / replace are
  separate steps performed with os.* on the real directory), so that a step can be the last one before a
  simulated kill (nothing is flushed afterwards) and two calls can be interleaved under an explicit schedule.

Nothing here imports ofxtools at module import time: call `setup_env(tag)` first (it points XDG_*_HOME at a scratch
directory under /verif/build, never at HOME or /tmp), then `lib()`."""
import os, sys, io, re, datetime, shutil, threading, types, email.message, contextlib, builtins
from . import common as C

EPOCH = datetime.datetime(2020, 1, 1, tzinfo=datetime.timezone.utc)
_LIB = None


def setup_env(tag):
    root = os.path.join(C.BUILD, "scratch", tag, "xdg-%d" % os.getpid())
    shutil.rmtree(root, ignore_errors=True)
    os.makedirs(root)
    os.environ["XDG_DATA_HOME"] = os.path.join(root, "data")
    os.environ["XDG_CONFIG_HOME"] = os.path.join(root, "config")
    os.environ["XDG_CACHE_HOME"] = os.path.join(root, "cache")
    os.environ["HOME"] = os.path.join(root, "home")
    return root


def lib():
    """import the implementation (after setup_env + common.use_repo)."""
    global _LIB
    if _LIB is None:
        assert "XDG_DATA_HOME" in os.environ and os.environ["XDG_DATA_HOME"].startswith(C.BUILD)
        C.use_repo()
        import ofxtools, ofxtools.config, ofxtools.Client, ofxtools.models, ofxtools.Parser, ofxtools.utils
        assert os.path.realpath(ofxtools.__file__).startswith(os.path.realpath(C.REPO)), (ofxtools.__file__, C.REPO)
        assert str(ofxtools.config.DATADIR).startswith(C.BUILD), ofxtools.config.DATADIR
        _LIB = types.SimpleNamespace(config=ofxtools.config, Client=ofxtools.Client, M=ofxtools.models,
                                     Parser=ofxtools.Parser, utils=ofxtools.utils, OFXClient=ofxtools.Client.OFXClient)
    return _LIB


_ZONES = [datetime.timezone.utc, datetime.timezone(datetime.timedelta(hours=-5), "EST"),
          datetime.timezone(datetime.timedelta(hours=5, minutes=30), "IST"), datetime.timezone(datetime.timedelta(hours=-3, minutes=-30), "NST")]


def date_of(n):
    """model date n (small integer) -> the datetime written into DTPROFUP: day n, never a whole second (OFX dates carry milliseconds)
    and written in one of four zones, so that 'asks with the date of the profile held' means the exact INSTANT."""
    ms = 250 + (n * 137) % 700
    utc = EPOCH + datetime.timedelta(days=n, hours=12, minutes=(n * 7) % 60, seconds=(n * 11) % 60, milliseconds=ms)
    return utc.astimezone(_ZONES[n % len(_ZONES)])


def n_of_date(dt):
    """inverse of date_of; 1990-01-01 (the library's 'no profile held' value) -> None; an instant that is no profile's date -> -2."""
    if dt is None:
        return None
    if dt.year == 1990:
        return None
    n = (dt.astimezone(datetime.timezone.utc) - EPOCH).days
    return n if date_of(n) == dt else -2


# ------------------------------------------------------------------ institution identities (ORG, FID) used by the C14 / C15 histories
# index 0 = not configured (None).  1-2: plain tokens; the rest is what request_profile's path construction is really exposed to:
# pairs taken from the bundled config/fi.cfg (dots, dashes, blanks, '&', a shared dotted ORG with different FIDs: [ms] msdw.com/1235 and
# [msbank] msdw.com/14137), a leading dot, non-ASCII, a decimal point in the FID, and two pairs that RENDER to the same '<org>-<fid>'.
ORGS = [None, "ORG1", "ORG2", "msdw.com", "HFS-Cavion", "Fifth Third Bank", "BB&T", "tiaa-cref.org", "T. Rowe Price", "B\u00e4nk \u00dcn\u00efcode",
        "292-3", "a-b", "a", ".org"]
FIDS = [None, "FID1", "FID2", "1235", "14137", "5829", "BB&T", "SWBTX", "0417", "c", "b-c", "12.50"]
# path separators are left out on purpose: fi.cfg's 'Cavion/Phoenix' makes EVERY request_profile fail after the download (the file name
# contains a directory that does not exist) - no cache is ever written, so nothing C15 states is violated; noted in notes/status/C15.md.


def org_str(n): return None if n is None else ORGS[n]
def fid_str(n): return None if n is None else FIDS[n]


def cache_file(org_n, fid_n):
    """the cache file name as ofxtools/Client.py:487 builds it (pinned by Gen/ClientGen.v: f'{self.org}-{self.fid}.profrs')."""
    return "%s-%s.profrs" % (org_str(org_n), fid_str(fid_n))


_ALL_NAMES = sorted({"%s-%s.profrs" % (o, f) for o in ORGS for f in FIDS})


def model_key(org_n, fid_n):
    """the model's cache key (option N * option N) of a configuration: the identity of the FILE NAME it renders to -
    (None, None) for the unconfigured client, otherwise (Some index-of-the-name, Some 0); two (org, fid) pairs that render to the
    same text therefore get the same key, as they do on disk."""
    if org_n is None and fid_n is None:
        return (None, None)
    return (_ALL_NAMES.index(cache_file(org_n, fid_n)), 0)


def key_of_file(name):
    if name == "None-None.profrs":
        return (None, None)
    return (_ALL_NAMES.index(name), 0) if name in _ALL_NAMES else None


# ------------------------------------------------------------------ OFX responses built with the library
SETKINDS = ("bank", "cc", "inv", "other", "prof")


def make_profile(n, sets, tag="", pad=0):
    """complete PROFRS document: DTPROFUP = date_of(n); sets = [(kind, url, closingavail)], kind in SETKINDS.
    `tag` makes two profiles of the same date differ; `pad` (0..50) lengthens the document by that many bytes."""
    L = lib(); M = L.M
    core = lambda url: M.MSGSETCORE("ENG", ver=1, url=url, ofxsec="NONE", transpsec=True, signonrealm="R",
                                    syncmode="LITE", respfileer=True)
    ep = M.EMAILPROF(canemail=False, cannotify=False)
    ms = []
    # MSGSETLIST members must follow the declared class order (signup, bank, creditcard, invstmt); stable within a class
    rank = {"other": 1, "bank": 2, "cc": 3, "inv": 4, "prof": 5}
    for kind, url, closing in sorted(sets, key=lambda s: rank[s[0]]):
        if kind == "bank":
            ms.append(M.BANKMSGSET(bankmsgsetv1=M.BANKMSGSETV1(msgsetcore=core(url), closingavail=closing, emailprof=ep)))
        elif kind == "cc":
            ms.append(M.CREDITCARDMSGSET(creditcardmsgsetv1=M.CREDITCARDMSGSETV1(msgsetcore=core(url), closingavail=closing)))
        elif kind == "prof":        # the profile message set itself, with its own URL (the client must keep asking at the CONFIGURED url)
            ms.append(M.PROFMSGSET(profmsgsetv1=M.PROFMSGSETV1(msgsetcore=core(url))))
        elif kind == "inv":
            ms.append(M.INVSTMTMSGSET(invstmtmsgsetv1=M.INVSTMTMSGSETV1(
                msgsetcore=core(url), trandnld=True, oodnld=False, posdnld=True, baldnld=True, canemail=False)))
        else:
            ms.append(M.SIGNUPMSGSET(signupmsgsetv1=M.SIGNUPMSGSETV1(
                msgsetcore=core(url), clientenroll=M.CLIENTENROLL(acctrequired=False), chguserinfo=False, availaccts=True, clientactreq=False)))
    msl = M.MSGSETLIST(*ms)
    si = M.SIGNONINFOLIST(M.SIGNONINFO(signonrealm="R", min=1, max=32, chartype="ALPHAORNUMERIC", casesen=True,
                                        special=True, spaces=False, pinch=False, chgpinfirst=False))
    dt = date_of(n)
    profrs = M.PROFRS(msgsetlist=msl, signoninfolist=si, dtprofup=dt, finame="FI" + tag[:30], addr1="1 Main St" + "x" * min(pad, 23), city="c" + "y" * max(0, pad - 23),
                      state="NY", postalcode="1", country="USA")
    trn = M.PROFTRNRS(trnuid="1", status=M.STATUS(code=0, severity="INFO"), profrs=profrs)
    return _wrap(trn, dt)


def make_status_only(code):
    """PROFTRNRS with a STATUS and no PROFRS: code 1 = 'client is up to date' (OFX 7.2), anything else an error status."""
    M = lib().M
    sev = "INFO" if code in (0, 1) else "ERROR"
    trn = M.PROFTRNRS(trnuid="1", status=M.STATUS(code=code, severity=sev))
    return _wrap(trn, date_of(0))


def _wrap(trn, dt):
    L = lib(); M = L.M
    son = M.SIGNONMSGSRSV1(sonrs=M.SONRS(status=M.STATUS(code=0, severity="INFO"), dtserver=dt, language="ENG"))
    ofx = M.OFX(signonmsgsrsv1=son, profmsgsrsv1=M.PROFMSGSRSV1(trn))
    return L.OFXClient("http://unused.example/").serialize(ofx)


GARBAGE = [b"", b"<html><body>Service unavailable</body></html>", b"OFXHEADER:100\r\nDATA:OFXSGML\r\n\r\n<OFX><SIGNONMSGSRSV1>",
           b"\xff\xfe\x00binary"]


# ------------------------------------------------------------------ fake HTTP under urllib
class Req:
    __slots__ = ("url", "method", "headers", "body", "cookie", "host")

    def __init__(self, r):
        self.url = r.full_url
        self.method = r.get_method()
        self.headers = {k.lower(): v for k, v in r.header_items()}
        self.body = r.data
        self.cookie = self.headers.get("cookie")
        self.host = r.host

    def cookies(self):
        if not self.cookie:
            return []
        out = []
        for part in self.cookie.split(";"):
            part = part.strip()
            if part:
                k, _, v = part.partition("=")
                out.append((k, v))
        return sorted(out)


class Resp:
    """what the fake server answers: transport=False -> URLError before any response; status != 200 -> HTTPError
    raised by urllib AFTER the cookie processor saw the response."""
    def __init__(self, body=b"", cookies=(), status=200, transport=True, set_cookie=()):
        self.body, self.cookies, self.status, self.transport = body, list(cookies), status, transport
        self.set_cookie = list(set_cookie)        # complete Set-Cookie header values (attributes included)


_TLS_CTX = None


class HarnessKill(BaseException):
    """raised inside a patched call to end a simulated process at that point (C15 crash injection)."""


class FakeNet:
    def __init__(self, responder):
        self.internal_error = None
        self.responder = responder
        self.log = []
        self.lock = threading.Lock()

    def _open(self, handler, req):
        import urllib.response, urllib.error
        rq = Req(req)
        with self.lock:
            self.log.append(rq)
        try:
            resp = self.responder(rq)
        except BaseException as e:        # a bug of the harness must not pass for a behaviour of the client
            if not isinstance(e, HarnessKill):
                self.internal_error = e
            raise
        if not resp.transport:
            raise urllib.error.URLError("fake: connection refused")
        h = email.message.Message()
        h["Content-Type"] = "application/x-ofx"
        for k, v in resp.cookies:
            h["Set-Cookie"] = "%s=%s; Path=/" % (k, v)
        for line in resp.set_cookie:
            h["Set-Cookie"] = line
        r = urllib.response.addinfourl(io.BytesIO(resp.body), h, req.full_url, resp.status)
        r.msg = "OK" if resp.status == 200 else "ERR"
        return r

    def __enter__(self):
        import urllib.request as U, http.client
        global _TLS_CTX
        # build_opener instantiates HTTPSHandler, which loads the system certificate store (45 ms) for a context that
        # the fake https_open never uses: TLS is outside the model, so hand urllib one cached context
        if _TLS_CTX is None:
            _TLS_CTX = (http.client._create_https_context, http.client._create_https_context(http.client.HTTPSConnection._http_vsn))
            http.client._create_https_context = lambda *a, **k: _TLS_CTX[1]
        self._saved = (U.HTTPHandler.http_open, U.HTTPSHandler.https_open)
        net = self
        U.HTTPHandler.http_open = lambda h, req: net._open(h, req)
        U.HTTPSHandler.https_open = lambda h, req: net._open(h, req)
        return self

    def __exit__(self, *a):
        import urllib.request as U
        U.HTTPHandler.http_open, U.HTTPSHandler.https_open = self._saved
        if self.internal_error is not None:
            raise RuntimeError("fake server failed: %r" % (self.internal_error,)) from self.internal_error
        return False


@contextlib.contextmanager
def frozen_client_clock():
    """uuid and dtclient fixed, so that a dry run yields byte-for-byte the request a real run posts."""
    L = lib()
    cls = L.OFXClient
    saved_uuid = cls.__dict__["uuid"]
    saved_dt = cls.__dict__["dtclient"]
    cls.uuid = "00000000-0000-4000-8000-000000000000"
    cls.dtclient = lambda self: datetime.datetime(2021, 6, 1, 12, 0, 0, tzinfo=datetime.timezone.utc)
    try:
        yield
    finally:
        cls.uuid = saved_uuid
        cls.dtclient = saved_dt


def set_datadir(path):
    """fresh data directory for one case (request_profile reads config.DATADIR at call time)."""
    import pathlib
    L = lib()
    os.makedirs(path, exist_ok=True)
    L.config.DATADIR = pathlib.Path(path)
    return os.path.join(path, "fiprofiles")


def read_request(body):
    """what a posted body says: (kind, userid, userpass, dtprofup-as-n or None).  kind in profile/stmt/acct/tax/other."""
    L = lib()
    p = L.Parser.OFXTree()
    p.parse(io.BytesIO(body))
    ofx = p.convert()
    son = ofx.signonmsgsrqv1.sonrq
    kinds, dtp = [], None
    for attr, k in (("profmsgsrqv1", "profile"), ("bankmsgsrqv1", "stmt"), ("creditcardmsgsrqv1", "stmt"), ("invstmtmsgsrqv1", "stmt"),
                    ("signupmsgsrqv1", "acct"), ("tax1099msgsrqv1", "tax")):
        v = getattr(ofx, attr, None)
        if v is not None:
            kinds.append(k)
            if k == "profile":
                dtp = n_of_date(v[0].profrq.dtprofup)
    kind = kinds[0] if len(set(kinds)) == 1 else "other"
    return kind, son.userid, son.userpass, dtp


def read_profile(data):
    """(n, [(kind,url,closing)]) of a profile document, or None if it is not one (independent reader: regex on the text)."""
    try:
        s = data.decode("utf-8")
    except Exception:
        return None
    m = re.search(r"<DTPROFUP>(\d{8})", s)
    if not m or "<PROFRS>" not in s or not s.rstrip().endswith("</OFX>"):
        return None
    d = datetime.datetime.strptime(m.group(1), "%Y%m%d").replace(tzinfo=datetime.timezone.utc)
    sets = []
    for mm in re.finditer(r"<(BANK|CREDITCARD|INVSTMT|SIGNUP)MSGSET>(.*?)</\1MSGSET>", s, re.S):
        kind = {"BANK": "bank", "CREDITCARD": "cc", "INVSTMT": "inv", "SIGNUP": "other"}[mm.group(1)]
        u = re.search(r"<URL>([^<]*)</URL>", mm.group(2)).group(1)
        cl = re.search(r"<CLOSINGAVAIL>([YN])", mm.group(2))
        sets.append((kind, u, bool(cl and cl.group(1) == "Y")))
    return (d - EPOCH).days, sets


def service_url(sets):
    """independent statement of what `_get_service_urls` + the single-URL assertion compute:
    the one URL advertised for statement downloads, or None when there is none or more than one."""
    urls = {}
    for kind, url, closing in sets:
        if kind in ("bank", "cc", "inv"):
            urls[kind] = url
    for kind in ("bank", "cc"):
        first = [s for s in sets if s[0] == kind]
        if first and first[0][2]:
            urls[kind + "end"] = first[0][1]
    vals = set(urls.values())
    return vals.pop() if len(vals) == 1 else None


# ------------------------------------------------------------------ running many cases on all cores
def _pmap_worker(args):
    fn, tag, chunk = args
    lib()
    wd = os.path.join(C.BUILD, "scratch", tag, "w%d" % os.getpid())
    out = [fn(case, wd) for case in chunk]
    shutil.rmtree(wd, ignore_errors=True)
    return out


def pmap(fn, cases, tag, chunk=8, workers=None):
    """[fn(case, private_workdir) for case in cases], spread over processes (fork).  fn must be a module-level function
    whose result is picklable and depends on nothing but the case (every random choice seeded inside the case)."""
    import multiprocessing as mp
    from concurrent.futures import ProcessPoolExecutor
    workers = workers or C.NCPU
    if len(cases) <= chunk or workers == 1:
        return _pmap_worker((fn, tag, cases))
    chunks = [cases[i:i + chunk] for i in range(0, len(cases), chunk)]
    with ProcessPoolExecutor(workers, mp_context=mp.get_context("fork")) as ex:
        res = list(ex.map(_pmap_worker, [(fn, tag, ch) for ch in chunks]))
    return [x for r in res for x in r]


# ------------------------------------------------------------------ C15: steppable file system + scheduler
class Sched:
    """explicit schedule for calls running in real threads: exactly one runs at a time, from one gate to the next."""
    def __init__(self, tids):
        self.cv = threading.Condition()
        self.at_gate = {t: False for t in tids}
        self.finished = {t: False for t in tids}
        self.turn = None

    def gate(self, tid):
        with self.cv:
            self.at_gate[tid] = True
            self.cv.notify_all()
            if not self.cv.wait_for(lambda: self.turn == tid, timeout=60):
                raise RuntimeError("scheduler: call %d was never granted its step" % tid)
            self.turn = None
            self.at_gate[tid] = False

    def finish(self, tid):
        with self.cv:
            self.finished[tid] = True
            self.cv.notify_all()

    def grant(self, tid):
        """let call `tid` perform its next step; False if it has already returned."""
        with self.cv:
            if not self.cv.wait_for(lambda: self.at_gate[tid] or self.finished[tid], timeout=60):
                raise RuntimeError("scheduler: call %d neither reached a step nor returned" % tid)
            if self.finished[tid]:
                return False
            self.turn = tid
            self.cv.notify_all()
            if not self.cv.wait_for(lambda: self.turn is None and (self.at_gate[tid] or self.finished[tid]), timeout=60):
                raise RuntimeError("scheduler: call %d did not come back from its step" % tid)
            return True


class WFile:
    """re-enactment of a buffered binary writer whose buffer really is lost on a kill: write() only buffers,
    flush()/close() hand the buffer to os.write.  (Python's BufferedWriter writes through above 8 KiB; the harness's
    documents are ~3 KiB, so 'buffered until flush/close' is what the real object does with them too.)"""
    def __init__(self, world, fd, path):
        self.world, self.fd, self.path, self.buf, self.closed = world, fd, path, b"", False
        world.open_fds.add(fd)

    def write(self, data):
        self.world.step("write", self.path)
        self.buf += bytes(data)
        self.world.snap()
        return len(data)

    def _drain(self):
        with self.world.own():
            while self.buf:
                n = os.write(self.fd, self.buf)
                self.buf = self.buf[n:]

    def flush(self):
        self.world.step("flush", self.path)
        self._drain()
        self.world.snap()

    def fileno(self):
        return self.fd

    def close(self):
        if self.closed:
            return
        self.world.step("close", self.path)
        self._drain()
        with self.world.own():
            os.close(self.fd)
        self.world.open_fds.discard(self.fd)
        self.world.tmp_fd.pop(self.fd, None)
        self.closed = True
        self.world.snap()

    def __enter__(self):
        return self

    def __exit__(self, *a):
        self.close()
        return False


class FsWorld:
    """While installed, every file-system call that touches `root` (the fiprofiles directory) is one logged step:
    exists / openread / opentrunc / write / flush / close / mkstemp / fsync / replace / unlink, plus the network exchange
    ('net', announced by the fake server).  A call can be killed before any step (nothing it buffered reaches the disk,
    none of its cleanup code has an effect) and several calls can be stepped under an explicit schedule."""
    def __init__(self, root):
        self.root = os.path.realpath(root)
        self.lock = threading.Lock()
        self.tid_of = {}          # thread ident -> call number
        self.dead = set()
        self.kill_at = {}         # call number -> index of the step it does not live to perform
        self.nsteps = {}
        self.sched = None
        self.log = []             # [call, "step name" | "kill", snapshot of the directory after it]
        self.open_fds = set()
        self.tmp_fd = {}          # fd from mkstemp / os.open -> path
        self.tmp_owner = {}       # temporary path -> call number
        self.inside = threading.local()   # set while the harness itself calls a primitive (tempfile.mkstemp uses os.open, WFile uses os.write/os.close)

    # -- bookkeeping
    def register(self, tid):
        self.tid_of[threading.get_ident()] = tid
        self.nsteps.setdefault(tid, 0)

    def mine(self, path):
        try:
            p = os.path.realpath(os.fspath(path))
        except TypeError:
            return False
        return p == self.root or p.startswith(self.root + os.sep)

    def snapshot(self):
        out = {}
        if os.path.isdir(self.root):
            for n in sorted(os.listdir(self.root)):
                p = os.path.join(self.root, n)
                if os.path.isfile(p):
                    with self._orig_open(p, "rb") as f:
                        out[n] = f.read()
        return out

    def busy(self):
        return getattr(self.inside, "n", 0) > 0

    @contextlib.contextmanager
    def own(self):
        self.inside.n = getattr(self.inside, "n", 0) + 1
        try:
            yield
        finally:
            self.inside.n -= 1

    def step(self, name, path=None):
        tid = self.tid_of.get(threading.get_ident())
        if tid is None:
            raise RuntimeError("file-system step %s from a thread the harness does not know" % name)
        if tid in self.dead:
            raise HarnessKill()
        if self.sched is not None:
            self.sched.gate(tid)
        if self.kill_at.get(tid) == self.nsteps[tid]:
            self.dead.add(tid)
            self.log.append([tid, "kill", self.snapshot()])
            raise HarnessKill()
        self.nsteps[tid] += 1
        self.log.append([tid, name, None])

    def snap(self):
        self.log[-1][2] = self.snapshot()

    # -- the patched entry points
    def __enter__(self):
        import pathlib, tempfile, io
        w = self
        self._saved = (builtins.open, io.open, pathlib.Path.exists, tempfile.mkstemp, os.fdopen, os.fsync, os.replace, os.rename, os.unlink, os.remove,
                       os.open, os.write, os.close)
        o_open, o_ioopen, o_exists, o_mkstemp, o_fdopen, o_fsync, o_replace, o_rename, o_unlink, o_remove, o_osopen, o_oswrite, o_osclose = self._saved
        self._orig_open = o_open

        def p_osopen(path, flags, *a, **k):
            """os.open on the cache directory (an implementation may bypass open()/mkstemp): a step like the others, the
            descriptor is tracked so that os.fdopen / os.write / os.fsync / os.close on it are steps too."""
            if w.busy() or isinstance(path, int) or not w.mine(path) or not (flags & (os.O_WRONLY | os.O_RDWR)):
                return o_osopen(path, flags, *a, **k)
            existed = os.path.exists(os.fspath(path))
            w.step("opentrunc" if (flags & os.O_TRUNC or not existed) else "openwrite", path)
            with w.own():
                fd = o_osopen(path, flags, *a, **k)
            w.tmp_fd[fd] = os.fspath(path)
            w.open_fds.add(fd)
            w.snap()
            return fd

        def p_oswrite(fd, data):
            if w.busy() or fd not in w.tmp_fd:
                return o_oswrite(fd, data)
            w.step("flush", w.tmp_fd[fd])          # an unbuffered write reaches the file at once: what flush is for a buffered one
            with w.own():
                n = o_oswrite(fd, data)
            w.snap()
            return n

        def p_osclose(fd):
            if w.busy() or fd not in w.tmp_fd:
                return o_osclose(fd)
            w.step("close", w.tmp_fd[fd])
            with w.own():
                o_osclose(fd)
            w.tmp_fd.pop(fd, None); w.open_fds.discard(fd)
            w.snap()

        def p_open(file, mode="r", *a, **k):
            if isinstance(file, int) or not w.mine(file):
                return o_open(file, mode, *a, **k)
            if "b" not in mode:
                raise RuntimeError("harness: text-mode access to the profile cache is not modelled")
            if "r" in mode and "+" not in mode:
                w.step("openread", file)
                with o_open(file, "rb") as f:
                    data = f.read()
                w.snap()
                return io.BytesIO(data)
            if "w" in mode and "+" not in mode:
                w.step("opentrunc", file)
                with w.own():
                    fd = os.open(os.fspath(file), os.O_WRONLY | os.O_CREAT | os.O_TRUNC, 0o666)
                w.snap()
                return WFile(w, fd, os.fspath(file))
            raise RuntimeError("harness: open mode %r on the profile cache is not modelled" % mode)

        def p_exists(self_, *a, **k):
            if not w.mine(self_) or os.path.realpath(str(self_)) == w.root:
                return o_exists(self_, *a, **k)
            w.step("exists", self_)
            r = o_exists(self_, *a, **k)
            w.snap()
            return r

        def p_mkstemp(*a, **k):
            d = k.get("dir", a[2] if len(a) > 2 else None)
            if d is None or not w.mine(d):
                return o_mkstemp(*a, **k)
            w.step("mkstemp", d)
            with w.own():
                fd, name = o_mkstemp(*a, **k)
            w.tmp_fd[fd] = name
            w.tmp_owner[os.path.basename(name)] = w.tid_of[threading.get_ident()]
            w.open_fds.add(fd)
            w.snap()
            return fd, name

        def p_fdopen(fd, mode="r", *a, **k):
            if fd in w.tmp_fd:
                if "b" not in mode or "w" not in mode:
                    raise RuntimeError("harness: fdopen mode %r is not modelled" % mode)
                return WFile(w, fd, w.tmp_fd[fd])
            return o_fdopen(fd, mode, *a, **k)

        def p_fsync(fd):
            if fd in w.open_fds:
                w.step("fsync")
                o_fsync(fd)
                w.snap()
                return None
            return o_fsync(fd)

        def p_replace(src, dst, *a, **k):
            if w.mine(dst) or w.mine(src):
                w.step("replace", dst)
                r = o_replace(src, dst, *a, **k)
                w.snap()
                return r
            return o_replace(src, dst, *a, **k)

        def p_unlink(path, *a, **k):
            if w.mine(path):
                w.step("unlink", path)
                r = o_unlink(path, *a, **k)
                w.snap()
                return r
            return o_unlink(path, *a, **k)

        builtins.open = p_open; io.open = p_open
        pathlib.Path.exists = p_exists
        tempfile.mkstemp = p_mkstemp
        os.fdopen = p_fdopen; os.fsync = p_fsync
        os.replace = p_replace; os.rename = p_replace
        os.unlink = p_unlink; os.remove = p_unlink
        os.open = p_osopen; os.write = p_oswrite; os.close = p_osclose
        return self

    def __exit__(self, *a):
        import pathlib, tempfile, io
        (builtins.open, io.open, pathlib.Path.exists, tempfile.mkstemp, os.fdopen, os.fsync, os.replace, os.rename, os.unlink, os.remove,
         os.open, os.write, os.close) = self._saved
        for fd in list(self.open_fds):          # descriptors of killed calls: closed by the OS, nothing flushed
            try:
                os.close(fd)
            except OSError:
                pass
        self.open_fds.clear()
        return False


# ------------------------------------------------------------------ C15: real process death (no exception, no handler, no flush)
DEATH_NAMES = {"open", "fdopen", "mkstemp", "write", "writelines", "flush", "fsync", "fdatasync", "close", "__exit__", "replace", "rename",
               "truncate", "ftruncate", "unlink", "remove", "link", "symlink", "write_bytes", "write_text", "copyfile", "move", "sendfile",
               "copy_file_range", "readinto", "splice", "pwrite", "writev", "utime", "chmod", "setxattr", "listxattr"}


def death_child(argfile):
    """runs in a SUBPROCESS: one request_profile against a fake server that answers with the given document; after the answer
    is in, the process os._exit()s right after the k-th return of a C-level file primitive (counted with sys.setprofile, so
    whatever route the implementation takes to the disk is seen).  Nothing buffered is flushed, no except/finally/atexit runs."""
    import json
    a = json.load(open(argfile))
    for k_, v in a["env"].items():
        os.environ[k_] = v
    import tempfile
    if a.get("tmpdir"):                       # the system temp directory on ANOTHER file system than the cache directory
        os.environ["TMPDIR"] = a["tmpdir"]
        tempfile.tempdir = a["tmpdir"]
    if a.get("fake_exdev"):                   # no second file system here: make rename/replace across directories fail like one
        import errno
        _ren, _rep = os.rename, os.replace

        def _x(orig):
            def f(src, dst, *aa, **kk):
                if os.path.dirname(os.path.realpath(os.fspath(src))) != os.path.dirname(os.path.realpath(os.fspath(dst))):
                    raise OSError(errno.EXDEV, "Invalid cross-device link (simulated)")
                return orig(src, dst, *aa, **kk)
            return f
        os.rename, os.replace = _x(_ren), _x(_rep)
    L = lib()
    set_datadir(a["datadir"])
    body = open(a["body_file"], "rb").read()
    st = {"armed": False, "n": 0, "names": []}

    def on_disk(arg):
        """a C function of the os / io modules, or a method of a real file object (not of a str, a BytesIO, a tree builder ...)"""
        o = getattr(arg, "__self__", None)
        if isinstance(o, types.ModuleType):
            return o.__name__ in ("posix", "nt", "os", "_io", "io", "_posixshmem", "fcntl", "mmap")
        return isinstance(o, io.IOBase) and not isinstance(o, (io.BytesIO, io.StringIO))

    def prof(frame, event, arg):
        if st["armed"] and event == "c_return":
            nm = getattr(arg, "__name__", "")
            if nm in DEATH_NAMES and on_disk(arg):
                st["names"].append(nm)
                if st["n"] == a["k"]:
                    os.write(1, ("DIED after %d:%s\n" % (st["n"], nm)).encode())
                    os._exit(77)
                st["n"] += 1

    def responder(rq):
        st["armed"] = True
        return Resp(body=body)
    of = lambda n, pre: None if n is None else "%s%d" % (pre, n)
    cl = L.OFXClient(a["url"], org=of(a["cfg"][1], "ORG"), fid=of(a["cfg"][2], "FID"))
    with FakeNet(responder):
        sys.setprofile(prof)
        try:
            cl.request_profile()
        finally:
            sys.setprofile(None)
    os.write(1, ("COMPLETED %d primitives: %s\n" % (st["n"], ",".join(st["names"]))).encode())
    os._exit(0)


def run_death_child(args, workdir):
    """-> (exit code, stdout) of the child."""
    import json, subprocess
    os.makedirs(workdir, exist_ok=True)
    af = os.path.join(workdir, "death-args.json")
    with open(af, "w") as f:
        json.dump(args, f)
    tools = os.path.dirname(os.path.dirname(os.path.abspath(__file__)))
    code = "import sys; sys.path.insert(0, %r); from ofxv import client_harness as H; H.death_child(sys.argv[1])" % tools
    env = dict(os.environ, PYTHONHASHSEED="0", PYTHONDONTWRITEBYTECODE="1", OFXV_REPO=C.REPO)
    p = subprocess.run([C.PY, "-c", code, af], stdout=subprocess.PIPE, stderr=subprocess.STDOUT, env=env, timeout=900)
    return p.returncode, p.stdout.decode("utf-8", "replace")


def other_device_dir(ref, tag):
    """a fresh writable directory on a DIFFERENT file system than `ref` (st_dev differs), or None.  Never under /tmp."""
    try:
        dev = os.stat(ref).st_dev
    except OSError:
        return None
    for cand in ("/dev/shm", "/run/shm", "/var/tmp", "/run/user/%d" % os.getuid(), os.path.expanduser("~")):
        try:
            if os.path.isdir(cand) and os.access(cand, os.W_OK) and os.stat(cand).st_dev != dev:
                d = os.path.join(cand, "ofxv-%s-%d" % (tag, os.getpid()))
                os.makedirs(d, exist_ok=True)
                return d
        except OSError:
            continue
    return None


# ------------------------------------------------------------------ C14: the front door - `ofxget stmt|stmtend <server> [--all]` through ofxget.main()
def make_acctinfo(accts):
    """ACCTINFORS document listing bank accounts [(acctid, accttype, svcstatus)]."""
    L = lib(); M = L.M
    infos = [M.ACCTINFO(M.BANKACCTINFO(bankacctfrom=M.BANKACCTFROM(bankid="123456789", acctid=a, accttype=t), suptxdl=True, xfersrc=False, xferdest=False, svcstatus=st))
             for a, t, st in accts]
    dt = date_of(3)
    trn = M.ACCTINFOTRNRS(trnuid="1", status=M.STATUS(code=0, severity="INFO"), acctinfors=M.ACCTINFORS(*infos, dtacctup=dt))
    son = M.SIGNONMSGSRSV1(sonrs=M.SONRS(status=M.STATUS(code=0, severity="INFO"), dtserver=dt, language="ENG"))
    return L.OFXClient("http://unused.example/").serialize(M.OFX(signonmsgsrsv1=son, signupmsgsrsv1=M.SIGNUPMSGSRSV1(trn)))


def cli_child(argfile):
    """runs in a SUBPROCESS (ofxget reads its configuration at import time): writes the user configuration, installs the fake
    institution under urllib, runs ofxget.main() with the given command line and prints what was posted where, as JSON."""
    import json, contextlib
    a = json.load(open(argfile))
    for k_, v in a["env"].items():
        os.environ[k_] = v
    cfgdir = os.path.join(os.environ["XDG_CONFIG_HOME"], "ofxtools")
    os.makedirs(cfgdir, exist_ok=True)
    with open(os.path.join(cfgdir, "ofxget.cfg"), "w") as f:
        f.write("[%s]\n" % a["server"] + "".join("%s = %s\n" % kv for kv in a["config"].items()))
    L = lib()
    set_datadir(a["datadir"])
    import ofxtools.scripts.ofxget as G
    prof = make_profile(10, [(k, u, c) for k, u, c in a["sets"]], tag="cli")
    acct = make_acctinfo([tuple(x) for x in a["accounts"]])
    seen = []

    def responder(rq):
        body = rq.body or b""
        kind = "profile" if b"<PROFRQ>" in body else ("acctinfo" if b"<ACCTINFORQ>" in body else ("stmtend" if b"STMTENDRQ>" in body else ("stmt" if b"STMTRQ>" in body else "other")))
        seen.append({"url": rq.url, "method": rq.method, "kind": kind, "userid": a["userid"].encode() in body, "password": a["password"].encode() in body,
                     "placeholder": L.Client.AUTH_PLACEHOLDER.encode() in body})
        return Resp(body=prof if kind == "profile" else (acct if kind == "acctinfo" else b"OFXHEADER:100\r\n\r\n<OFX></OFX>"))
    err = None
    sys.argv = ["ofxget"] + a["argv"]
    with FakeNet(responder), contextlib.redirect_stdout(io.StringIO()), contextlib.redirect_stderr(io.StringIO()):
        try:
            G.main()
        except SystemExit as e:
            err = "SystemExit(%r)" % (e.code,)
        except Exception as e:      # noqa
            err = "%s: %s" % (type(e).__name__, e)
    os.write(1, (json.dumps({"requests": seen, "error": err}) + "\n").encode())
    os._exit(0)


def run_child(fn_name, args, workdir, timeout=900):
    """run client_harness.<fn_name>(argfile) in a fresh interpreter -> (exit code, stdout)."""
    import json, subprocess
    os.makedirs(workdir, exist_ok=True)
    af = os.path.join(workdir, "%s-args.json" % fn_name)
    with open(af, "w") as f:
        json.dump(args, f)
    tools = os.path.dirname(os.path.dirname(os.path.abspath(__file__)))
    code = "import sys; sys.path.insert(0, %r); from ofxv import client_harness as H; H.%s(sys.argv[1])" % (tools, fn_name)
    env = dict(os.environ, PYTHONHASHSEED="0", PYTHONDONTWRITEBYTECODE="1", OFXV_REPO=C.REPO)
    p = subprocess.run([C.PY, "-c", code, af], stdout=subprocess.PIPE, stderr=subprocess.STDOUT, env=env, timeout=timeout)
    return p.returncode, p.stdout.decode("utf-8", "replace")
