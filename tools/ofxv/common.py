"""Shared machinery of every check: paths, the one PRNG, Coq literals, the Coq
case-file evaluator (correspondence), obligation compilation with
`Print Assumptions` capture, known findings, evidence writer.

Run as  PYTHONHASHSEED=0 /venv/bin/python  (bin/check arranges this)."""
import os, sys, re, json, time, random, hashlib, subprocess, fcntl, shutil, glob, contextlib
from concurrent.futures import ThreadPoolExecutor

VERIF = os.path.dirname(os.path.dirname(os.path.dirname(os.path.abspath(__file__))))
REPO = os.environ.get("OFXV_REPO", "/repo")
BUILD = os.path.join(VERIF, "build")
COQ = os.path.join(VERIF, "coq")
if REPO != "/repo":
    # checks pointed at a scratch copy of the repository (seeded changes, workers' repairs) regenerate Gen/*.v from THAT copy:
    # give them their own build tree so that they never disturb the tree built from /repo
    _alt = os.path.join(BUILD, "alt", hashlib.sha1(REPO.encode()).hexdigest()[:10], "coq")
    if not os.path.isdir(_alt):
        os.makedirs(os.path.dirname(_alt), exist_ok=True)
        subprocess.run(["cp", "-a", COQ, _alt], check=True)
    else:   # pick up edited sources (newer files only), keep the alternative tree's own Gen
        subprocess.run(["rsync", "-a", "--update", "--exclude", "theories/Gen/", "--exclude", "*.vo", "--exclude", "*.vos", "--exclude", "*.vok",
                        "--exclude", "*.glob", "--exclude", ".*.aux", COQ + "/", _alt + "/"], check=False)
    COQ = _alt
THEORIES = os.path.join(COQ, "theories")
WORK = BUILD if REPO == "/repo" else os.path.dirname(COQ)     # case files, obligation outputs, replays
EVIDENCE = os.path.join(VERIF, "evidence") if REPO == "/repo" else os.path.join(WORK, "evidence")
PY = "/venv/bin/python"
COQFLAGS = ["-Q", "theories", "OfxV", "-w",
            "-notation-overridden,-deprecated-hint-without-locality,-deprecated-instance-without-locality,-abstract-large-number"]
NCPU = min(16, os.cpu_count() or 4)


def use_repo():
    """make `import ofxtools` resolve to REPO's working tree (before the editable install)."""
    if REPO not in sys.path[:1]:
        sys.path.insert(0, REPO)
    os.environ["PYTHONPATH"] = REPO
    os.environ.setdefault("PYTHONHASHSEED", "0")


def _cap_memory(gb):
    def f():
        import resource
        resource.setrlimit(resource.RLIMIT_AS, (gb << 30, gb << 30))
    return f


def sh(cmd, timeout=1800, cwd=None, env=None, mem_gb=None):
    """mem_gb: address-space cap for the command and its children (a runaway coqc once took 56 GB before its time limit)"""
    p = subprocess.run(cmd, cwd=cwd, env=env, stdout=subprocess.PIPE, stderr=subprocess.STDOUT,
                       timeout=timeout, text=True, errors="replace", preexec_fn=_cap_memory(mem_gb) if mem_gb else None)
    return p.returncode, p.stdout


@contextlib.contextmanager
def build_lock():
    os.makedirs(BUILD, exist_ok=True)
    with open(os.path.join(os.path.dirname(COQ), ".lock") if REPO != "/repo" else os.path.join(BUILD, ".lock"), "w") as f:
        fcntl.flock(f, fcntl.LOCK_EX)
        try:
            yield
        finally:
            fcntl.flock(f, fcntl.LOCK_UN)


def write_if_changed(path, content):
    os.makedirs(os.path.dirname(path), exist_ok=True)
    try:
        with open(path, encoding="utf-8") as f:
            if f.read() == content:
                return False
    except FileNotFoundError:
        pass
    with open(path, "w", encoding="utf-8") as f:
        f.write(content)
    return True


# ---------------------------------------------------------------- Coq literals
def cN(n):
    assert n >= 0
    return "%d" % n


def cZ(n):
    return "(%d)" % n if n < 0 else "%d" % n


def cnat(n):
    return "%d%%nat" % n


def cbool(b):
    return "true" if b else "false"


def ctext(s):
    """Python str (code points) or bytes -> Coq `text` literal in N scope."""
    if isinstance(s, (bytes, bytearray)):
        return "[" + ";".join("%d" % b for b in s) + "]"
    return "[" + ";".join("%d" % ord(c) for c in s) + "]"


def clist(items):
    return "[" + ";".join(items) + "]"


def copt(x, f=lambda v: v):
    return "None" if x is None else "(Some %s)" % f(x)


def cpair(a, b):
    return "(%s,%s)" % (a, b)


# ---------------------------------------------------------------- build
def regen_coqproject():
    files = sorted(os.path.relpath(p, COQ) for p in glob.glob(os.path.join(THEORIES, "**", "*.v"), recursive=True))
    head = "-Q theories OfxV\n-arg -w -arg %s\n" % COQFLAGS[-1]
    changed = write_if_changed(os.path.join(COQ, "_CoqProject"), head + "\n".join(files) + "\n")
    if changed or not os.path.exists(os.path.join(COQ, "Makefile.coq")):
        rc, out = sh(["coq_makefile", "-f", "_CoqProject", "-o", "Makefile.coq"], cwd=COQ)
        if rc:
            raise RuntimeError("coq_makefile failed:\n" + out)


def make(targets, timeout=3000):
    """full .vo build of the given targets (paths relative to coq/), -k so one failure does not hide others."""
    regen_coqproject()
    if not targets:
        return 0, ""
    cmd = ["timeout", str(timeout), "make", "-f", "Makefile.coq", "-k", "-j%d" % NCPU] + list(targets)
    return sh(cmd, timeout=timeout + 60, cwd=COQ, mem_gb=16)


GATE_RE = re.compile(r"\b(Admitted|admit|Axiom|Axioms|Parameter|Parameters|Conjecture|Conjectures|Admit Obligations|bypass_check|native_compute)\b"
                     r"|Unset\s+(Guard|Positivity|Universe)|type-in-type|impredicative-set")


def strip_coq_comments(src):
    out, depth, i = [], 0, 0
    while i < len(src):
        if src.startswith("(*", i):
            depth += 1; i += 2
        elif src.startswith("*)", i) and depth:
            depth -= 1; i += 2
        else:
            if not depth:
                out.append(src[i])
            i += 1
    return "".join(out)


def grep_gate():
    """no Admitted/admit/Axiom/Parameter/... anywhere in the development (comments and strings aside);
    `Variable`/`Hypothesis` only inside a Section."""
    bad = []
    for p in glob.glob(os.path.join(THEORIES, "**", "*.v"), recursive=True):
        src = strip_coq_comments(open(p, encoding="utf-8").read())
        src_nostr = re.sub(r'"[^"]*"', '""', src)
        for m in GATE_RE.finditer(src_nostr):
            bad.append("%s: %s" % (os.path.relpath(p, VERIF), m.group(0)))
        depth = 0
        for line in src_nostr.splitlines():
            s = line.strip()
            if re.match(r"Section\s+\w+", s):
                depth += 1
            elif re.match(r"End\s+\w+", s) and depth:
                depth -= 1
            elif depth == 0 and re.match(r"(Variable|Variables|Hypothesis|Hypotheses|Context)\b", s):
                bad.append("%s: section-less %s" % (os.path.relpath(p, VERIF), s[:40]))
    return bad


def compile_obligations(prop, extra=()):
    """Each file under Props/<prop>/ holds one property theorem closed by `exact <lemma>` plus
    `Print Assumptions`.  Build their dependencies with make, then compile every file on its own so that
    (a) one broken obligation does not hide the others and (b) its assumptions are captured on every run."""
    files = sorted(glob.glob(os.path.join(THEORIES, "Props", prop, "*.v")))
    rel_vo = [os.path.relpath(f, COQ) + "o" for f in files]
    rc, out = make(rel_vo + list(extra))
    logdir = os.path.join(WORK, "log"); os.makedirs(logdir, exist_ok=True)
    with open(os.path.join(logdir, prop + ".make.log"), "w") as f:
        f.write(out)
    outdir = os.path.join(WORK, "props", prop); os.makedirs(outdir, exist_ok=True)

    def one(f):
        name = os.path.splitext(os.path.basename(f))[0]
        rc1, o = sh(["timeout", "600", "coqc"] + COQFLAGS + ["-o", os.path.join(outdir, name + ".vo"), os.path.relpath(f, COQ)], cwd=COQ, timeout=700)
        assum = parse_assumptions(o) if rc1 == 0 else []
        thms = re.findall(r"^\s*(?:Theorem|Corollary)\s+(\w+)", strip_coq_comments(open(f).read()), re.M)
        return {"file": os.path.relpath(f, VERIF), "theorems": thms, "ok": rc1 == 0, "assumptions": assum,
                "log": "" if rc1 == 0 else o[-3000:]}
    with ThreadPoolExecutor(NCPU) as ex:
        res = list(ex.map(one, files))
    return res, out


def parse_assumptions(out):
    """-> list of strings: 'Closed under the global context' or axiom names."""
    res = []
    blocks = re.split(r"(?=Closed under the global context|Axioms:)", out)
    for b in blocks:
        if b.startswith("Closed under the global context"):
            res.append("Closed under the global context")
        elif b.startswith("Axioms:"):
            for m in re.finditer(r"^([A-Za-z_][\w.']*)\s*:", b[len("Axioms:"):], re.M):
                res.append("axiom " + m.group(1))
    return res


# ---------------------------------------------------------------- Coq case evaluation
_STRLIT = re.compile(r'"[^"]*"')
def coq_bad_indices(prop, name, imports, ok_fun, case_type, items, shard=400, prelude="", timeout=900):
    """Correspondence by evaluation inside the proof assistant.  `items` are Coq terms of type `case_type`
    (each holding the input and what the IMPLEMENTATION answered); `ok_fun : case_type -> bool` runs the
    model on the input and compares.  Returns the sorted list of indices on which model and implementation
    differ.  One file per shard, `Eval vm_compute in bad_indices ok cases`, run under xargs-like parallelism."""
    d = os.path.join(WORK, "cases", prop, "%s-%d" % (name, os.getpid()))     # per process: concurrent runs of one check must not share it
    shutil.rmtree(d, ignore_errors=True)
    os.makedirs(d)
    shards = [items[i:i + shard] for i in range(0, len(items), shard)]
    paths = []
    for k, sh_items in enumerate(shards):
        p = os.path.join(d, "s%04d.v" % k)
        # string literals are by far the slowest thing for coqc to elaborate (~0.7 ms each): intern them per shard
        table = {}
        def intern(m):
            return "(nm__ %d)" % table.setdefault(m.group(0), len(table))
        sh_items = [_STRLIT.sub(intern, it) for it in sh_items]
        with open(p, "w") as f:
            f.write("From OfxV Require Import Base.Prelude.\n")
            for imp in imports:
                f.write("From OfxV Require Import %s.\n" % imp)
            f.write("Definition names__ : list string := [%s]%%list.\n" % ";".join("%s%%string" % lit for lit in table))
            f.write("Definition nm__ (k : N) : string := nth (N.to_nat k) names__ EmptyString.\n")
            f.write("Local Open Scope N_scope.\n")
            f.write(prelude + "\n")
            f.write("Definition cases : list (%s) :=\n [ " % case_type)
            f.write("\n ; ".join(sh_items))
            f.write("\n ].\nEval vm_compute in (bad_indices (%s) cases).\n" % ok_fun)
        paths.append(p)

    def run(p):
        rc, out = sh(["timeout", str(timeout), "coqc"] + COQFLAGS + ["-o", p[:-2] + ".vo", p], cwd=COQ, timeout=timeout + 30)
        if rc != 0:
            return None, out
        m = re.search(r"=\s*\[(.*?)\]\s*:\s*list nat", out, re.S)
        if not m:
            return None, out
        body = m.group(1).replace("%nat", "").strip()
        idx = [int(x) for x in re.findall(r"\d+", body)]
        return idx, out
    bad, errors = [], []
    with ThreadPoolExecutor(NCPU) as ex:
        results = list(ex.map(run, paths))
    for k, (idx, out) in enumerate(results):
        if idx is None:      # a coqc killed under memory pressure leaves no output: one more try, alone
            idx, out = run(paths[k])
        if idx is None:
            errors.append("shard %d: %s" % (k, out[-1500:]))
        else:
            bad.extend(k * shard + i for i in idx)
    for junk in glob.glob(os.path.join(d, "*.vo*")) + glob.glob(os.path.join(d, "*.glob")) + glob.glob(os.path.join(d, ".*.aux")):
        try:
            os.remove(junk)
        except OSError:
            pass
    if not errors and not bad:
        shutil.rmtree(d, ignore_errors=True)
    if errors:
        raise RuntimeError("case evaluation failed in Coq (%s/%s):\n%s" % (prop, name, "\n".join(errors[:3])))
    return sorted(bad)


def coq_eval(prop, name, imports, term, prelude="", timeout=300):
    """evaluate one closed term with vm_compute and return Coq's printed answer (for replay files)."""
    d = os.path.join(WORK, "cases", prop); os.makedirs(d, exist_ok=True)
    p = os.path.join(d, "eval_%s.v" % name)
    with open(p, "w") as f:
        f.write("From OfxV Require Import Base.Prelude.\n")
        for imp in imports:
            f.write("From OfxV Require Import %s.\n" % imp)
        f.write("Local Open Scope N_scope.\n" + prelude + "\nEval vm_compute in (%s).\n" % term)
    rc, out = sh(["timeout", str(timeout), "coqc"] + COQFLAGS + ["-o", p[:-2] + ".vo", p], cwd=COQ, timeout=timeout + 30)
    return out.strip()


# ---------------------------------------------------------------- findings, evidence, verdict
def load_findings(prop):
    p = os.path.join(VERIF, "known_findings.json")
    try:
        data = json.load(open(p))
    except FileNotFoundError:
        return [], []
    known = [f for f in data.get("findings", []) if f["property"] == prop and f.get("status") == "known"]
    fixed = [f for f in data.get("findings", []) if f["property"] == prop and f.get("status") == "fixed"]
    return known, fixed


class Failure:
    """the property predicate failed on the IMPLEMENTATION for a concrete input.
    key: stable identifier of *which* defect this is (compared with known_findings.json)."""
    def __init__(self, key, what, replay):
        self.key, self.what, self.replay = key, what, replay


class Report:
    def __init__(self, prop, tier, seed):
        self.prop, self.tier, self.seed = prop, tier, seed
        self.t0 = time.time()
        self.evaluations = 0
        self.nontrivial = set()      # hashes of distinct non-trivial cases
        self.samples = []
        self.rule = ""
        self.distribution = {}
        self.disagreements = []      # model vs implementation
        self.failures = []           # Failure objects: property predicate false on the implementation
        self.broken = []             # names of obligations / correspondences that no longer check
        self.assumptions = []
        self.partial = []
        self.extra = {}

    def count(self, case_repr, nontrivial=True, kind=None):
        self.evaluations += 1
        if nontrivial:
            self.nontrivial.add(hashlib.blake2b(repr(case_repr).encode("utf-8", "replace"), digest_size=8).digest())
        if kind is not None:
            self.distribution[kind] = self.distribution.get(kind, 0) + 1

    def sample(self, x, limit=8):
        if len(self.samples) < limit:
            self.samples.append(x)


def write_replay(prop, name, obj):
    d = os.path.join(WORK, "replay"); os.makedirs(d, exist_ok=True)
    h = hashlib.sha1(json.dumps(obj, sort_keys=True, default=str).encode()).hexdigest()[:10]
    p = os.path.join(d, "%s-%s-%s.json" % (prop, name, h))
    with open(p, "w") as f:
        json.dump(obj, f, indent=1, default=str, sort_keys=True)
    return p


def finish(rep, obligations, gate, checker_cmd, level_note_partial):
    """print KNOWN-FINDING / VIOLATION lines, write evidence, return the exit status."""
    prop = rep.prop
    known, fixed = load_findings(prop)
    known_keys = {f["key"]: f for f in known}
    lines, status = [], 0
    seen_known, new_fail = {}, {}
    for fl in rep.failures:
        if fl.key in known_keys:
            seen_known.setdefault(fl.key, fl)
        else:
            new_fail.setdefault(fl.key, fl)
    for k, f in known_keys.items():
        lines.append("KNOWN-FINDING: property=%s %s%s" % (prop, f["what"], "" if k in seen_known else " (recorded; not re-exhibited by this run's budget)"))
    for k, fl in new_fail.items():
        p = write_replay(prop, re.sub(r"\W+", "_", k)[:40], {"property": prop, "kind": "failing-input", "key": k, "what": fl.what, "replay": fl.replay,
                                                            "command": "bin/check %s --replay <this file>" % prop})
        lines.append("VIOLATION property=%s replay=%s" % (prop, p))
        status = 1
    n_obl = len(obligations)
    n_ok = sum(1 for o in obligations if o["ok"])
    broken = list(rep.broken) + [o["file"] + " (" + ",".join(o["theorems"]) + ")" for o in obligations if not o["ok"]]
    if gate:
        broken.append("grep gate: " + "; ".join(gate[:5]))
    if rep.disagreements:
        broken.append("correspondence model<->implementation: %d disagreement(s)" % len(rep.disagreements))
    if broken and not new_fail:
        p = write_replay(prop, "unproved", {"property": prop, "kind": "no-failing-input-found", "no_longer_checks": broken,
                                           "disagreements": rep.disagreements[:10],
                                           "obligation_logs": {o["file"]: o["log"] for o in obligations if not o["ok"]}})
        lines.append("VIOLATION property=%s replay=%s no-failing-input-found" % (prop, p))
        status = 1
    elif broken and new_fail:
        write_replay(prop, "context", {"property": prop, "no_longer_checks": broken, "disagreements": rep.disagreements[:10]})
    tb = sorted(set(a for o in obligations for a in o["assumptions"]))
    ev = {
        "property_id": prop, "tier": rep.tier, "seed": rep.seed, "level": "proof",
        "coverage": {
            "obligations": n_obl, "discharged": n_ok,
            "checker_cmd": checker_cmd,
            "trusted_base": ["Coq 8.16.1 kernel (coqc; vm_compute for finite obligations; no native_compute)"] +
                            ["Print Assumptions: " + a for a in tb] + TRUSTED_COMMON,
            "obligation_files": [{"file": o["file"], "theorems": o["theorems"], "discharged": o["ok"], "assumptions": o["assumptions"]} for o in obligations],
            "evaluations": rep.evaluations, "distinct_nontrivial": len(rep.nontrivial),
            "rule": rep.rule, "samples": rep.samples[:8], "input_distribution": rep.distribution,
            "correspondence_disagreements": len(rep.disagreements),
            "partial": level_note_partial,
            "known_findings_reported": sorted(known_keys), "fixed_findings_watched": [f["key"] for f in fixed],
            "no_longer_checks": broken,
        },
        "assumptions": level_note_partial,
        "wall_s": round(time.time() - rep.t0, 2),
        "violations": len(new_fail) + (1 if (broken and not new_fail) else 0),
    }
    ev["coverage"].update(rep.extra)
    # keys the evidence schema types: keep them well-typed whatever a property module put there
    for k, ty in (("exhaustive", bool), ("evaluations", int), ("distinct_nontrivial", int), ("states", int), ("transitions", int)):
        if k in ev["coverage"] and not isinstance(ev["coverage"][k], ty):
            ev["coverage"][k + "_note"] = ev["coverage"].pop(k)
    os.makedirs(EVIDENCE, exist_ok=True)
    with open(os.path.join(EVIDENCE, prop + ".json"), "w") as f:
        json.dump(ev, f, indent=1, default=str)
    for l in lines:
        print(l)
    print("%s %s: obligations %d/%d discharged; correspondence %d cases (%d distinct non-trivial), %d disagreement(s); %d new failing input(s); %.1fs"
          % (prop, rep.tier, n_ok, n_obl, rep.evaluations, len(rep.nontrivial), len(rep.disagreements), len(new_fail), time.time() - rep.t0))
    return status


TRUSTED_COMMON = [
    "translator tools/ofxv/translate*.py (regenerates Gen/*.v from /repo on every run; fail-closed)",
    "correspondence harness tools/ofxv (same cases to implementation and to the Gallina model evaluated by vm_compute inside coqc; no extraction)",
    "hand-written Model/*.v are transcriptions of the Python they name; validated by correspondence only (a changed source of a transcribed function is a tripwire: "
    "the correspondence and property search are then run under two more seeds before the tree is accepted; regenerated tables fail closed)",
]
