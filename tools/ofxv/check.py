"""bin/check Cxx [--tier quick|thorough] [--replay FILE]

One run = regenerate Gen/*.v from /repo's working tree, full .vo build of the property's obligations
(Props/Cxx/*.v and everything they depend on), grep gate, correspondence of the executable Gallina models with
the implementation on the same cases, search for a concrete failing input, verdict, evidence."""
import sys, os, argparse, importlib, random, json, traceback
sys.path.insert(0, os.path.dirname(os.path.dirname(os.path.abspath(__file__))))
from ofxv import common as C


def main():
    ap = argparse.ArgumentParser()
    ap.add_argument("prop")
    ap.add_argument("--tier", default=os.environ.get("VERIF_TIER", "quick"), choices=["quick", "thorough"])
    ap.add_argument("--replay")
    a = ap.parse_args()
    prop = a.prop.upper()
    seed = int(os.environ.get("VERIF_SEED", "20260101"))
    C.use_repo()
    mod = importlib.import_module("ofxv.props." + prop.lower())
    if a.replay:
        return mod.replay(json.load(open(a.replay)))
    rep = C.Report(prop, a.tier, seed)
    rng = random.Random(seed)
    with C.build_lock():          # translate + make share coq/; the correspondence run below does not need the lock
        try:
            mod.translate()
        except Exception as e:   # fail closed: the model is no longer tied to the source
            rep.broken.append("translator failed: %r" % (e,))
            traceback.print_exc()
        obligations, makelog = C.compile_obligations(prop, getattr(mod, 'COQ_EXTRA', []))
        gate = C.grep_gate()
    try:
        mod.run(rep, a.tier, rng)
    except Exception as e:
        traceback.print_exc()
        rep.broken.append("harness error (check could not complete): %r" % (e,))
    checker = "cd /verif/coq && make -f Makefile.coq -k theories/Props/%s/*.vo && coqc -Q theories OfxV theories/Props/%s/<each>.v" % (prop, prop)
    return C.finish(rep, obligations, gate, checker, getattr(mod, "PARTIAL", []))


if __name__ == "__main__":
    sys.exit(main())
