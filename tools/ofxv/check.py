"""bin/check Cxx [--tier quick|thorough] [--replay FILE]

One run = regenerate Gen/*.v from /repo's working tree, full .vo build of the property's obligations
(Props/Cxx/*.v and everything they depend on), grep gate, correspondence of the executable Gallina models with
the implementation on the same cases, search for a concrete failing input, verdict, evidence."""
import sys, os, argparse, importlib, random, json, traceback, re, glob, subprocess
sys.path.insert(0, os.path.dirname(os.path.dirname(os.path.abspath(__file__))))
from ofxv import common as C


# which property module's translate() regenerates which Gen/*.v (a property whose obligations import another engine's generated
# tables has those regenerated from /repo as well, in their own interpreters: several translators set up their environment before
# importing ofxtools)
GEN_OWNER = {"SchemaGen": "c01", "SchemaS": "c01", "TypedGen": "c01", "SgmlGen": "c02", "HeaderGen": "c05", "ComposeGen": "c06", "DateTimeGen": "c09",
             "ScalarsGen": "c10", "ClientGen": "c14", "LookupGen": "c16", "OfxgetGen": "c18", "IdentGen": "c20"}
_MODREF = re.compile(r"\b(?:OfxV\.)?((?:Base|Model|Gen|Proofs)\.[A-Za-z0-9_]+)\b")


def gen_deps(prop, extra=()):
    """names of the Gen modules the property's obligations (and case-file imports) reach, by scanning module references"""
    th = os.path.join(C.COQ, "theories")
    todo = glob.glob(os.path.join(th, "Props", prop, "*.v")) + [os.path.join(C.COQ, e[:-1]) for e in extra]
    seen, gens = set(), set()
    while todo:
        f = todo.pop()
        if f in seen or not os.path.exists(f):
            continue
        seen.add(f)
        for m in set(_MODREF.findall(open(f).read())):
            if m.startswith("Gen."):
                gens.add(m[4:])
            todo.append(os.path.join(th, *m.split(".")) + ".v")
    return gens


def translate_others(prop, mod, rep):
    own = prop.lower()
    gens = gen_deps(prop, getattr(mod, "COQ_EXTRA", []))
    owners = set()
    for g in sorted(gens):
        if g not in GEN_OWNER:
            rep.broken.append("generated module Gen.%s has no registered translator" % g)
        elif GEN_OWNER[g] != own:
            owners.add(GEN_OWNER[g])
    procs = []
    for name in sorted(owners):
        code = ("import sys; sys.path.insert(0, %r); from ofxv import common as C; C.use_repo(); import importlib; "
                "importlib.import_module('ofxv.props.%s').translate()" % (os.path.join(C.VERIF, "tools"), name))
        procs.append((name, subprocess.Popen([C.PY, "-c", code], cwd=C.VERIF, env=dict(os.environ, PYTHONHASHSEED="0", PYTHONDONTWRITEBYTECODE="1"),
                                             stdout=subprocess.PIPE, stderr=subprocess.STDOUT, text=True)))
    for name, pr in procs:
        try:
            out, _ = pr.communicate(timeout=600)
        except subprocess.TimeoutExpired:
            pr.kill(); out = "timeout"
        if pr.returncode:
            rep.broken.append("translator of %s (its generated tables are imported by %s's obligations) failed: %s" % (name.upper(), prop, out.strip()[-400:]))


def main():
    ap = argparse.ArgumentParser()
    ap.add_argument("prop")
    ap.add_argument("--tier", default=os.environ.get("VERIF_TIER", "quick"), choices=["quick", "thorough"])
    ap.add_argument("--replay")
    a = ap.parse_args()
    prop = a.prop.upper()
    seed = int(os.environ.get("VERIF_SEED", "20260101"))
    # nothing the properties describe may depend on the local time zone of the process: every check (and every child it starts) runs in a
    # zone that is NOT UTC, so that a naive value interpreted as local time shows (seeded C03-13)
    import time
    os.environ["TZ"] = os.environ.get("OFXV_TZ", "IST-5:30"); time.tzset()
    C.use_repo()
    mod = importlib.import_module("ofxv.props." + prop.lower())
    if a.replay:
        return mod.replay(json.load(open(a.replay)))
    rep = C.Report(prop, a.tier, seed)
    rng = random.Random(seed)
    with C.build_lock():          # translate + make share coq/; the correspondence run below does not need the lock
        try:
            mod.translate()
        except Exception as e:   # fail closed: the model is no longer tied to the source
            rep.broken.append("translator failed: %r" % (e,))
            traceback.print_exc()
        translate_others(prop, mod, rep)
        obligations, makelog = C.compile_obligations(prop, getattr(mod, 'COQ_EXTRA', []))
        gate = C.grep_gate()
    try:
        mod.run(rep, a.tier, rng)
    except Exception as e:
        traceback.print_exc()
        rep.broken.append("harness error (check could not complete): %r" % (e,))
    # a tie no longer checks (an obligation fails, a translator or source pin is broken) and the search found no failing input: search twice more
    # under other seeds before reporting `no-failing-input-found` (never reached on a tree where everything checks)
    tie_broken = bool(rep.broken) or not all(o.get("ok") for o in obligations)
    # tripwires of the translators loaded in this process: hand-transcribed functions whose source is no longer the one their transcription
    # was validated against (translate_schema.LAST["source_changes"]; any other translator: a module-level list SOURCE_CHANGES)
    ts = sys.modules.get("ofxv.translate_schema")
    source_changes = list((getattr(ts, "LAST", None) or {}).get("source_changes", [])) if ts else []
    for name, m in sorted(sys.modules.items()):
        if name.startswith("ofxv.translate_") and m is not None:
            source_changes += [x for x in getattr(m, "SOURCE_CHANGES", []) if x not in source_changes]
    known_keys = {f["key"] for f in C.load_findings(prop)[0]}
    new_failures = lambda: [f for f in rep.failures if f.key not in known_keys]
    if (tie_broken or source_changes) and not new_failures() and not rep.disagreements and not any("harness error" in b for b in rep.broken):
        for extra in (1, 2):
            os.environ["VERIF_SEED"] = str(seed + extra)
            try:
                mod.run(rep, a.tier, random.Random(seed + extra))
            except Exception as e:
                traceback.print_exc()
                rep.broken.append("harness error in the extended search (seed %d): %r" % (seed + extra, e))
                break
            rep.extra["extended_search_seeds"] = rep.extra.get("extended_search_seeds", []) + [seed + extra]
            if new_failures() or rep.disagreements:
                break
        os.environ["VERIF_SEED"] = str(seed)
    if source_changes:
        rep.extra["source_changed_since_transcription_validated"] = source_changes
        if not tie_broken and not rep.broken and not new_failures() and not rep.disagreements:
            rep.extra["tie_reestablished_by"] = "correspondence check under seeds %s: %d cases, 0 disagreements, 0 failing inputs" % (
                [seed] + rep.extra.get("extended_search_seeds", []), rep.evaluations)
            print("NOTE property=%s the source of hand-transcribed functions changed (%s); their tie to the model is the correspondence check, "
                  "re-run under seeds %s: %d cases, 0 disagreements" % (prop, "; ".join(source_changes)[:300], [seed] + rep.extra.get("extended_search_seeds", []), rep.evaluations))
        else:
            rep.broken.append("source of hand-transcribed functions changed: %s" % source_changes[:4])
    checker = "cd /verif/coq && make -f Makefile.coq -k theories/Props/%s/*.vo && coqc -Q theories OfxV theories/Props/%s/<each>.v" % (prop, prop)
    return C.finish(rep, obligations, gate, checker, getattr(mod, "PARTIAL", []))


if __name__ == "__main__":
    sys.exit(main())
