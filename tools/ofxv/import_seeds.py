"""import_seeds.py Cxx [srcdir [offset]] : copy <srcdir>/{patch,demo,meta}<i> (default /tmp/seed-Cxx/out) into
/verif/seeded/Cxx-<i+offset>/ (patch.diff, demo.py, meta.json)"""
import sys, os, json, shutil, glob
V = os.path.dirname(os.path.dirname(os.path.dirname(os.path.abspath(__file__))))
pid = sys.argv[1]
src = sys.argv[2] if len(sys.argv) > 2 else "/tmp/seed-%s/out" % pid
off = int(sys.argv[3]) if len(sys.argv) > 3 else 0
for p in sorted(glob.glob(os.path.join(src, "patch*.diff"))):
    i = os.path.basename(p)[5:-5]
    d = os.path.join(V, "seeded", "%s-%d" % (pid, int(i) + off)); os.makedirs(d, exist_ok=True)
    shutil.copy(p, os.path.join(d, "patch.diff"))
    shutil.copy(os.path.join(src, "demo%s.py" % i), os.path.join(d, "demo.py"))
    m = json.load(open(os.path.join(src, "meta%s.json" % i)))
    m.setdefault("property", pid); m["origin"] = "fresh sub-agent given only the property text and a scratch worktree" + (" (round %d)" % {3: 4, 5: 5, 7: 6, 9: 7, 11: 8, 13: 10}.get(off, 0) if off else "")
    json.dump(m, open(os.path.join(d, "meta.json"), "w"), indent=1)
    print(d)
