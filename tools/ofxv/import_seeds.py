"""import_seeds.py Cxx : copy /tmp/seed-Cxx/out/{patch,demo,meta}<i> into /verif/seeded/Cxx-<i>/ (patch.diff, demo.py, meta.json)"""
import sys, os, json, shutil, glob
V = os.path.dirname(os.path.dirname(os.path.dirname(os.path.abspath(__file__))))
pid = sys.argv[1]
src = "/tmp/seed-%s/out" % pid
for p in sorted(glob.glob(os.path.join(src, "patch*.diff"))):
    i = os.path.basename(p)[5:-5]
    d = os.path.join(V, "seeded", "%s-%s" % (pid, i)); os.makedirs(d, exist_ok=True)
    shutil.copy(p, os.path.join(d, "patch.diff"))
    shutil.copy(os.path.join(src, "demo%s.py" % i), os.path.join(d, "demo.py"))
    m = json.load(open(os.path.join(src, "meta%s.json" % i)))
    m.setdefault("property", pid); m["origin"] = "fresh sub-agent given only the property text and a scratch worktree"
    json.dump(m, open(os.path.join(d, "meta.json"), "w"), indent=1)
    print(d)
