"""Gen/HeaderGen.v regenerated from /repo's ofxtools/header.py (+ the Types validators it instantiates) and
from the Python runtime's Unicode / codec tables, on every run of bin/check C12 / C05.

From the live module: the OneOf domains, Integer / String limits of OFXHeaderV1 / OFXHeaderV2, the `codecs` map,
OFXHeaderV2.codec, the three regex pattern strings (watched: a pattern that differs from the one the hand
recognisers were written against switches the correspondence run to its deep setting).
From the runtime: the code points for which str.isspace() holds (re's \\s, str.strip), the ranges of re's \\w
(str.isalnum() or '_'), the zeros of the decimal decades (re's \\d, int()), the cp1252 decoding table.
Fail closed: anything not understood raises."""
import os, re, importlib, codecs, unicodedata, inspect, ast, textwrap, hashlib, functools, json
from . import common as C

# the patterns the hand-written recognisers of Model/Header.v transcribe
PINNED_V1 = r"""\s*
            OFXHEADER:\s*(?P<OFXHEADER>\d+)\s*
            DATA:\s*(?P<DATA>[A-Z]+)\s*
            VERSION:\s*(?P<VERSION>\d+)\s*
            SECURITY:\s*(?P<SECURITY>[\w]+)\s*
            ENCODING:\s*(?P<ENCODING>[A-Z0-9-]+)\s*
            CHARSET:\s*(?P<CHARSET>[\w-]+)\s*
            (?:COMPRESSION:\s*(?P<COMPRESSION>[A-Z]+)\s*)?
            OLDFILEUID:\s*(?P<OLDFILEUID>[\w-]+)\s*
            NEWFILEUID:\s*(?P<NEWFILEUID>[\w-]+)
        """
PINNED_V2 = r"""<\?OFX\s+
                       OFXHEADER=\"(?P<ofxheader>\d+)\"\s+
                       VERSION=\"(?P<version>\d+)\"\s+
                       SECURITY=\"(?P<security>[\w]+)\"\s+
                       OLDFILEUID=\"(?P<oldfileuid>[\w-]+)\"\s+
                       NEWFILEUID=\"(?P<newfileuid>[\w-]+)\"\s*
                       \?>\s*"""
PINNED_XML = r"""(<\?xml\s+
        (version=(?P<versionquote>[\"'])(?P<xmlversion>[\d.]+)(?P=versionquote))?\s*
        (encoding=(?P<encodingquote>[\"'])(?P<encoding>[\w-]+)(?P=encodingquote))?\s*
        (standalone=(?P<standalonequote>[\"'])(?P<standalone>[\w]+)(?P=standalonequote))?\s*
        \?>)\s*"""
CODEC_IDS = {"iso8859-1": 0, "cp1252": 1, "utf-8": 2}
# normalised-AST hashes (docstrings and comments dropped) of every function Model/Header.v transcribes by hand.  The hash is a TRIPWIRE, not
# the tie: the tie between a hand-transcribed function and its model is the correspondence check, run on every check.  A changed hash is
# listed in the module-level SOURCE_CHANGES (reset at each translate); tools/ofxv/check.py then re-runs the correspondence and the property
# search under two more seeds and prints a NOTE (exit 0) when model and code still agree everywhere, or reports as usual otherwise.
# (A helper that was renamed / inlined, so that it can no longer be hashed, is a source change like any other; `header_source_is_pinned`
# stays in Gen/HeaderGen.v for hard problems, of which there is currently no kind.)  Everything REGENERATED (OneOf domains, Integer/String limits,
# version tables, the codecs map) stays fail-closed as before; a changed regex pattern / flags switches the run to its deep setting.
SOURCE_CHANGES = []
SOURCE_PINS = {
    "OFXHeaderBase.parse": "eef6dab1ad29", "OFXHeaderV1.__init__": "7b4e52b3ee9e", "OFXHeaderV1.__str__": "0a44b560134b",
    "OFXHeaderV1.codec": "a3576a0230ef", "OFXHeaderV2.__init__": "61ec438ca00c", "OFXHeaderV2.__str__": "472bcc817f94",
    "parse_header": "97a24e0ea98d", "make_header": "2302adeaaf18",
    "Types.Element.__set__": "a5e4c1b82b8c", "Types.Element.__get__": "7dbb84c6a0f9", "Types.Element.enforce_required": "5f6cb55094a3",
    "Types.OneOf.convert": "da93f0dd8a0d", "Types.OneOf._convert_default": "6b8c18bc12ee", "Types.OneOf._convert_str": "94ebab42900f",
    "Types.OneOf._convert_none": "c0635597f8af", "Types.Integer.enforce_length": "6a7edd3bdfe4", "Types.Integer.convert": "834ea3359fb8",
    "Types.Integer._convert_int": "1b147f25ea76", "Types.Integer.convert_str": "8420725ad59f", "Types.Integer._convert_none": "c0635597f8af",
    "Types.String.convert": "1e75d2b01137", "Types.String.enforce_length": "6235435979bc", "Types.String._convert_str": "948651ab8682",
    "Types.String._convert_none": "c0635597f8af",
}


def _unwrap(f):
    if isinstance(f, functools.singledispatchmethod):
        f = f.func
    if isinstance(f, (classmethod, staticmethod)):
        f = f.__func__
    if isinstance(f, property):
        f = f.fget
    return getattr(f, "__func__", f)


def ast_hash(f):
    src = textwrap.dedent(inspect.getsource(_unwrap(f)))
    t = ast.parse(src)
    for n in ast.walk(t):
        if isinstance(n, ast.FunctionDef) and n.body and isinstance(n.body[0], ast.Expr) \
                and isinstance(getattr(n.body[0], "value", None), ast.Constant) and isinstance(n.body[0].value.value, str):
            n.body = n.body[1:] or [ast.Pass()]
    return hashlib.sha1(ast.dump(t).encode()).hexdigest()[:12]


def source_pins(H, T):
    """-> (hashes, problems): which transcribed functions differ from the source the model was written against."""
    items = {}
    for cls, names in ((H.OFXHeaderBase, ["parse"]), (H.OFXHeaderV1, ["__init__", "__str__", "codec"]), (H.OFXHeaderV2, ["__init__", "__str__"])):
        for n in names:
            items["%s.%s" % (cls.__name__, n)] = cls.__dict__.get(n)
    items["parse_header"] = getattr(H, "parse_header", None)
    items["make_header"] = getattr(H, "make_header", None)
    for cls, names in ((T.Element, ["__set__", "__get__", "enforce_required"]), (T.OneOf, ["convert", "_convert_default", "_convert_str", "_convert_none"]),
                       (T.Integer, ["enforce_length", "convert", "_convert_int", "convert_str", "_convert_none"]),
                       (T.String, ["convert", "enforce_length", "_convert_str", "_convert_none"])):
        for n in names:
            items["Types.%s.%s" % (cls.__name__, n)] = cls.__dict__.get(n)
    hashes, problems, changes = {}, [], []
    for k, f in items.items():
        try:
            hashes[k] = ast_hash(f)
        except Exception as e:
            hashes[k] = None
            changes.append("%s: no longer there / cannot be hashed (%s)" % (k, type(e).__name__))     # renamed or inlined helper: a source change like any other
            continue
        if hashes[k] != SOURCE_PINS.get(k):
            changes.append("%s changed (hash %s, pinned %s)" % (k, hashes[k], SOURCE_PINS.get(k)))
    # methods added to the header classes (an override the model knows nothing about)
    for cls, known in ((H.OFXHeaderBase, {"parse", "__init__"}), (H.OFXHeaderV1, {"__init__", "__str__", "codec"}), (H.OFXHeaderV2, {"__init__", "__str__"})):
        for n, v in cls.__dict__.items():
            if (callable(v) or isinstance(v, (property, classmethod, staticmethod))) and n not in known and not isinstance(v, (T.Element, re.Pattern)):
                changes.append("%s.%s: method added" % (cls.__name__, n))
    return hashes, problems, changes


def _norm(ws):
    return re.sub(r"\s+", "", ws)


def _ranges(l):
    out = []
    for c in l:
        if out and out[-1][1] == c - 1:
            out[-1][1] = c
        else:
            out.append([c, c])
    return out


def cstring(s):
    """Python str -> Coq string literal (ASCII only)."""
    if any(ord(c) > 126 or (ord(c) < 32 and c not in "\n") for c in s):
        raise ValueError("non-ASCII / control character in a pattern string: %r" % s)
    return '"' + s.replace('"', '""') + '"'


def unicode_tables():
    allc = "".join(chr(c) for c in range(0x110000))
    space = [c for c in range(0x110000) if chr(c).isspace()]
    word = [c for c in range(0x110000) if chr(c).isalnum() or c == 95]
    dec = [c for c in range(0x110000) if chr(c).isdecimal()]
    # the regex engine and str methods must agree (they share the Unicode database; checked, not assumed)
    if [ord(m) for m in re.findall(r"\s", allc)] != space:
        raise ValueError("re \\s differs from str.isspace()")
    if [ord(m) for m in re.findall(r"\w", allc)] != word:
        raise ValueError("re \\w differs from str.isalnum() or '_'")
    if [ord(m) for m in re.findall(r"\d", allc)] != dec:
        raise ValueError("re \\d differs from str.isdecimal()")
    zeros = [c for c in dec if unicodedata.decimal(chr(c)) == 0]
    dset = set(dec)
    for z in zeros:
        for i in range(10):
            if (z + i) not in dset or unicodedata.decimal(chr(z + i)) != i or int(chr(z + i)) != i:
                raise ValueError("decimal decade at U+%04X is not contiguous" % z)
    if len(dec) != 10 * len(zeros):
        raise ValueError("decimal digits outside the decades")
    cp1252 = []
    for b in range(256):
        try:
            cp1252.append(ord(bytes([b]).decode("cp1252")))
        except UnicodeDecodeError:
            cp1252.append(None)
    for b in range(256):
        if ord(bytes([b]).decode("latin_1")) != b:
            raise ValueError("latin_1 is not the identity")
    return space, _ranges(word), zeros, cp1252


_TABLES = None


def _validator(cls, name, kind):
    import ofxtools.Types as T
    v = cls.__dict__.get(name)
    if type(v) is not getattr(T, kind):
        raise ValueError("%s.%s is %r, expected Types.%s" % (cls.__name__, name, v, kind))
    if getattr(v, "required", False):
        raise ValueError("%s.%s is required=True (not modelled)" % (cls.__name__, name))
    return v


def _oneof_text(cls, name):
    v = _validator(cls, name, "OneOf")
    for t in v.valid:
        if not isinstance(t, str) or not t or any(ord(c) > 126 for c in t):
            raise ValueError("%s.%s: token %r is not a non-empty ASCII str" % (cls.__name__, name, t))
    return list(v.valid)


def _oneof_int(cls, name):
    v = _validator(cls, name, "OneOf")
    for t in v.valid:
        if type(t) is not int:
            raise ValueError("%s.%s: token %r is not an int" % (cls.__name__, name, t))
    return list(v.valid)


def _length(cls, name, kind):
    import ofxtools.Types as T
    v = _validator(cls, name, kind)
    if kind == "String" and v.strict is not True:
        raise ValueError("%s.%s is not strict" % (cls.__name__, name))
    if v.length is not None and (type(v.length) is not int or v.length < 0):
        raise ValueError("%s.%s: length %r" % (cls.__name__, name, v.length))
    return v.length


def read_header_module():
    """-> dict of everything taken from the live module (also used by the harness)."""
    C.use_repo()
    import ofxtools.Types as T
    import ofxtools.header as H
    # (no importlib.reload: re-executing Types.py would orphan the Element instances the model classes were built with)
    V1, V2 = H.OFXHeaderV1, H.OFXHeaderV2
    d = {}
    # no validator other than the modelled ones
    for cls, names in ((V1, ["ofxheader", "data", "version", "security", "encoding", "charset", "compression", "oldfileuid", "newfileuid"]),
                       (V2, ["ofxheader", "version", "security", "oldfileuid", "newfileuid"])):
        have = [k for k, v in cls.__dict__.items() if isinstance(v, (T.Element, T.Unsupported))]
        if sorted(have) != sorted(names):
            raise ValueError("%s validators are %r, expected %r" % (cls.__name__, have, names))
    if not issubclass(T.OFXSpecError, ValueError):
        raise ValueError("OFXSpecError is no longer a ValueError")
    d["v1_ofxheader"] = _oneof_int(V1, "ofxheader")
    d["v1_data"] = _oneof_text(V1, "data")
    d["v1_version_len"] = _length(V1, "version", "Integer")
    d["v1_security"] = _oneof_text(V1, "security")
    d["v1_encoding"] = _oneof_text(V1, "encoding")
    d["v1_charset"] = _oneof_text(V1, "charset")
    d["v1_compression"] = _oneof_text(V1, "compression")
    d["v1_old_len"] = _length(V1, "oldfileuid", "String")
    d["v1_new_len"] = _length(V1, "newfileuid", "String")
    if not isinstance(V1.codecs, dict):
        raise ValueError("OFXHeaderV1.codecs is not a dict")
    cm = []
    for k, v in V1.codecs.items():
        if not isinstance(k, str) or not isinstance(v, str):
            raise ValueError("codecs entry %r: %r" % (k, v))
        nm = codecs.lookup(v).name
        if nm not in CODEC_IDS:
            raise ValueError("codec %r (%s) has no executable model" % (v, nm))
        cm.append((k, CODEC_IDS[nm]))
    d["v1_codecs"] = cm
    if not isinstance(V1.__dict__.get("codec"), property):
        raise ValueError("OFXHeaderV1.codec is not a property")
    d["v2_ofxheader"] = _oneof_int(V2, "ofxheader")
    d["v2_version"] = _oneof_int(V2, "version")
    d["v2_security"] = _oneof_text(V2, "security")
    d["v2_old_len"] = _length(V2, "oldfileuid", "String")
    d["v2_new_len"] = _length(V2, "newfileuid", "String")
    nm = codecs.lookup(V2.codec).name
    if nm not in CODEC_IDS:
        raise ValueError("OFXHeaderV2.codec %r has no executable model" % (V2.codec,))
    d["v2_codec"] = CODEC_IDS[nm]
    pats = {}
    for key, rx, pinned, flags in (("v1", V1.regex, PINNED_V1, re.VERBOSE), ("v2", V2.regex, PINNED_V2, re.VERBOSE), ("xml", H.XML_REGEX, PINNED_XML, re.VERBOSE)):
        if not isinstance(rx, re.Pattern):
            raise ValueError("%s regex is not a compiled pattern" % key)
        same = _norm(rx.pattern) == _norm(pinned) and (rx.flags & ~re.UNICODE) == flags
        pats[key] = (rx.pattern, same)
    d["patterns"] = pats
    d["source_hashes"], d["source_problems"], d["source_changes"] = source_pins(H, T)
    SOURCE_CHANGES[:] = d["source_changes"]
    d["module"] = H
    return d


def gen_header():
    global _TABLES
    d = read_header_module()
    if _TABLES is None:
        _TABLES = unicode_tables()
    space, word, zeros, cp1252 = _TABLES
    tl = lambda l: C.clist([C.ctext(x) for x in l])
    zl = lambda l: C.clist(["%s%%Z" % C.cZ(x) for x in l])
    on = lambda x: C.copt(x, C.cN)
    o = []
    o.append("(** GENERATED by tools/ofxv/translate_header.py from /repo/ofxtools/header.py (validators of OFXHeaderV1/V2, codecs,\n"
             "    regex patterns) and from the Python runtime (Unicode classes, cp1252) -- do not edit *)")
    o.append("From OfxV Require Import Base.Prelude.\nLocal Open Scope N_scope.")
    o.append("Definition v1_ofxheader_valid : list Z := %s." % zl(d["v1_ofxheader"]))
    o.append("Definition v1_data_valid : list text := %s." % tl(d["v1_data"]))
    o.append("Definition v1_version_len : option N := %s." % on(d["v1_version_len"]))
    o.append("Definition v1_security_valid : list text := %s." % tl(d["v1_security"]))
    o.append("Definition v1_encoding_valid : list text := %s." % tl(d["v1_encoding"]))
    o.append("Definition v1_charset_valid : list text := %s." % tl(d["v1_charset"]))
    o.append("Definition v1_compression_valid : list text := %s." % tl(d["v1_compression"]))
    o.append("Definition v1_old_len : option N := %s." % on(d["v1_old_len"]))
    o.append("Definition v1_new_len : option N := %s." % on(d["v1_new_len"]))
    o.append("(* OFXHeaderV1.codecs: CHARSET token -> codec (0 = latin_1, 1 = cp1252, 2 = utf_8) *)")
    o.append("Definition v1_codecs : list (text * N) := %s." % C.clist([C.cpair(C.ctext(k), C.cN(v)) for k, v in d["v1_codecs"]]))
    o.append("Definition v2_ofxheader_valid : list Z := %s." % zl(d["v2_ofxheader"]))
    o.append("Definition v2_version_valid : list Z := %s." % zl(d["v2_version"]))
    o.append("Definition v2_security_valid : list text := %s." % tl(d["v2_security"]))
    o.append("Definition v2_old_len : option N := %s." % on(d["v2_old_len"]))
    o.append("Definition v2_new_len : option N := %s." % on(d["v2_new_len"]))
    o.append("Definition v2_codec : N := %s." % C.cN(d["v2_codec"]))
    for key in ("v1", "v2", "xml"):
        pat, same = d["patterns"][key]
        o.append("(* watched constant: the pattern of the live module, and whether it is the one the recogniser transcribes *)")
        o.append("Definition %s_regex_pattern : string := %s%%string." % (key, cstring(pat)))
        o.append("Definition %s_regex_is_pinned : bool := %s." % (key, C.cbool(same)))
    o.append("(* the hand-transcribed functions of header.py / Types.py are the ones Model/Header.v was written against (normalised-AST hashes) *)")
    o.append("Definition header_source_is_pinned : bool := %s." % C.cbool(not d["source_problems"]))
    o.append("(* source problems: %s *)" % json.dumps(d["source_problems"]).replace("*)", "* )").replace("(*", "( *").replace('"', "'"))
    o.append("(* source changes (tripwire only; tie = correspondence): %s *)" % json.dumps(d["source_changes"]).replace("*)", "* )").replace("(*", "( *").replace('"', "'"))
    o.append("(* code points with str.isspace() (= re \\s) *)")
    o.append("Definition space_table : list N := %s." % C.clist([C.cN(c) for c in space]))
    o.append("(* inclusive ranges of str.isalnum() or '_' (= re \\w) *)")
    o.append("Definition word_ranges : list (N * N) :=\n %s." % C.clist([C.cpair(C.cN(a), C.cN(b)) for a, b in word]))
    o.append("(* zero of every decade of decimal digits (str.isdecimal() = re \\d; int() reads them) *)")
    o.append("Definition decimal_zeros : list N := %s." % C.clist([C.cN(c) for c in zeros]))
    o.append("(* bytes.decode('cp1252'), byte by byte *)")
    o.append("Definition cp1252_table : list (option N) :=\n %s." % C.clist([C.copt(c, C.cN) for c in cp1252]))
    C.write_if_changed(os.path.join(C.THEORIES, "Gen", "HeaderGen.v"), "\n".join(o) + "\n")
    return d
