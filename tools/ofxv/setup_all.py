"""MANIFEST.setup_cmd: regenerate every Gen/*.v from /repo (one fresh interpreter per property module: several translators
need their own environment set before ofxtools is imported), then a full .vo build of the whole development."""
import sys, os, glob, subprocess
sys.path.insert(0, os.path.dirname(os.path.dirname(os.path.abspath(__file__))))
from ofxv import common as C
with C.build_lock():
    for p in sorted(glob.glob(os.path.join(C.VERIF, "tools/ofxv/props/c[0-9][0-9].py"))):
        name = os.path.basename(p)[:-3]
        code = ("import sys; sys.path.insert(0, %r); from ofxv import common as C; C.use_repo(); import importlib; "
                "importlib.import_module('ofxv.props.%s').translate()" % (os.path.join(C.VERIF, "tools"), name))
        r = subprocess.run([C.PY, "-c", code], cwd=C.VERIF, env=dict(os.environ, PYTHONHASHSEED="0", PYTHONDONTWRITEBYTECODE="1"),
                           stdout=subprocess.PIPE, stderr=subprocess.STDOUT, text=True, timeout=600)
        if r.returncode:
            print("translate %s failed:\n%s" % (name, r.stdout[-1500:]))
    C.regen_coqproject()
    rc, out = C.sh(["timeout", "3000", "make", "-f", "Makefile.coq", "-k", "-j%d" % C.NCPU], cwd=C.COQ, timeout=3100)
    errs = [l for l in out.splitlines() if "Error" in l or l.startswith("make") and "***" in l]
    print("\n".join(errs[-40:]) if errs else "build complete: no errors")
    # a broken proof is reported by the checks, not by setup
    sys.exit(0)
