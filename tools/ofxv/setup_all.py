import sys, os, glob, importlib, traceback
sys.path.insert(0, os.path.dirname(os.path.dirname(os.path.abspath(__file__))))
from ofxv import common as C
C.use_repo()
with C.build_lock():
    for p in sorted(glob.glob(os.path.join(C.VERIF, "tools/ofxv/props/c[0-9][0-9].py"))):
        name = os.path.basename(p)[:-3]
        try:
            importlib.import_module("ofxv.props." + name).translate()
        except Exception:
            traceback.print_exc()
    C.regen_coqproject()
    rc, out = C.sh(["timeout", "3000", "make", "-f", "Makefile.coq", "-k", "-j%d" % C.NCPU], cwd=C.COQ, timeout=3100)
    print(out[-4000:])
    # a broken proof is reported by the checks, not by setup
    sys.exit(0)
