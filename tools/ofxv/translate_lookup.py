"""Translator of the Lookup engine (C16): live classes of ofxtools.models -> coq/theories/Gen/LookupGen.v.

Emits, from the interpreter's own view of the classes (dir(), the MRO, first hit in the class dictionaries):
  * base_attrs   : dir(Aggregate) - every name an Aggregate instance answers at class level without being a spec attribute
  * class_extra  : per class, the dir()-level names beyond base_attrs that are not spec attributes, each with its kind:
                   a shortcut property (descriptor of its body, chosen by the normalised-AST hash of the body) or KOther
  * none_attrs   : dir(None) (what getattr(None, name) answers while the proxy walks an absent sub-aggregate)
  * first_fetch_in_try : which of the two known forms of Aggregate.__getattr__ the tree has (hash)
Fail-closed: a property whose body hash is not in SHORTCUTS, a class overriding part of the attribute / copy protocol,
a class-level name that shadows a spec attribute or the other way round, a shortcut reading a name that is not a
non-list spec attribute of a class carrying it -> `lookup_translator_complete := false` with the reasons."""
import os, json
from . import common as C
from . import translate_schema as TS

STMT6 = ["bankmsgsrqv1", "creditcardmsgsrqv1", "invstmtmsgsrqv1", "bankmsgsrsv1", "creditcardmsgsrsv1", "invstmtmsgsrsv1"]
STAPLE = ["trnuid", "cltcookie"]
# normalised-AST hash of the property body -> (property name, descriptor (Model/Shortcuts.v), names read through `self.`)
SHORTCUTS = {
    "784863b42136": ("statement", ("SCAlias", "stmtrs")),
    "5f378e139f2b": ("statement", ("SCAlias", "ccstmtrs")),
    "9f7645f27eeb": ("statement", ("SCAlias", "ccstmtendrs")),
    "99e6fa90a0c5": ("statement", ("SCAlias", "invstmtrs")),
    "5d964dcba860": ("profile", ("SCAlias", "profrs")),
    "2ad815f56218": ("fid", ("SCVia", "fi", "fid")),
    "7ba6529a10df": ("org", ("SCVia", "fi", "org")),
    "cb82853c57d5": ("currate", ("SCCur", "currency", "origcurrency", "currate")),
    "b94018e9a71a": ("cursym", ("SCCur", "currency", "origcurrency", "cursym")),
    "6aaa6bf0eadc": ("curtype", ("SCCur", "currency", "origcurrency", None)),
    "7d44ad0c0227": ("account", ("SCAlias", "bankacctfrom")),
    "b464c681e5c7": ("account", ("SCAlias", "ccacctfrom")),
    "ec24a63b68a9": ("account", ("SCAlias", "invacctfrom")),
    "0bf8b71d131f": ("balance", ("SCAlias", "ledgerbal")),
    "a3fb88a2d433": ("transactions", ("SCAlias", "banktranlist")),
    "3a3462737576": ("transactions", ("SCAlias", "invtranlist")),
    "37cf348178c0": ("positions", ("SCAlias", "invposlist")),
    "9fe451731085": ("balances", ("SCAlias", "invbal")),
    # BANKMSGSRQV1.statements: as found (tests STMTTRNRQ twice) and repaired (fixes/C16-2)
    "c56b36f417b3": ("statements", ("SCWrapped", [], False, [("STMTTRNRQ", "stmtrq"), ("STMTTRNRQ", "stmtendrq")])),
    "776183b3be81": ("statements", ("SCWrapped", [], False, [("STMTTRNRQ", "stmtrq"), ("STMTENDTRNRQ", "stmtendrq")])),
    "fe44d3ccfbc8": ("statements", ("SCWrapped", STAPLE, False, [("STMTTRNRS", "stmtrs"), ("STMTENDTRNRS", "stmtendrs")])),
    "f73d02e46d6a": ("statements", ("SCWrapped", [], False, [("CCSTMTTRNRQ", "ccstmtrq"), ("CCSTMTENDTRNRQ", "ccstmtendrq")])),
    "f79744271f4c": ("statements", ("SCWrapped", STAPLE, True, [("CCSTMTTRNRS", "ccstmtrs"), ("CCSTMTENDTRNRS", "ccstmtendrs")])),
    "5809bf70c088": ("statements", ("SCWrapped", [], False, [("INVSTMTTRNRQ", "invstmtrq")])),
    "3834ad3c0b91": ("statements", ("SCWrapped", STAPLE, False, [("INVSTMTTRNRS", "invstmtrs")])),
    "d5b121330b4b": ("securities", ("SCMembersOf", "SECLIST")),
    "9bc926004db7": ("securities", ("SCTruthyVia", "seclistmsgsrsv1", "securities")),
    "981a676448d5": ("signon", ("SCSignon", "signonmsgsrqv1", "sonrq", "signonmsgsrsv1", "sonrs")),
    "db007216d237": ("statements", ("SCConcat", STMT6, "statements")),
}
# Aggregate.__getattr__: first `getattr(self, subaggregate)` outside the try (as found) / inside it (fixes/C16-1)
GETATTR_FORMS = {"d88a710230c2": False, "bad7c6b00a88": True}
# properties of the base class that are not shortcuts (repr helper): answered at class level, value not modelled
BASE_PROPERTIES_OTHER = ("_spec_repr",)
PROTOCOL = ("__getattr__", "__getattribute__", "__setattr__", "__delattr__", "__getstate__", "__setstate__", "__reduce__", "__reduce_ex__",
            "__copy__", "__deepcopy__", "__new__", "__getnewargs__", "__getnewargs_ex__", "__slots__", "__iter__", "__len__", "__bool__", "__eq__")


def cs(s):
    return TS.cstr(s)


def strs(l):
    return "[" + ";".join(cs(x) for x in l) + "]"


def coq_sc(d):
    k = d[0]
    if k == "SCAlias":
        return "SCAlias %s" % cs(d[1])
    if k == "SCVia":
        return "SCVia %s %s" % (cs(d[1]), cs(d[2]))
    if k == "SCCur":
        return "SCCur %s %s %s" % (cs(d[1]), cs(d[2]), "None" if d[3] is None else "(Some %s)" % cs(d[3]))
    if k == "SCSignon":
        return "SCSignon %s %s %s %s" % tuple(cs(x) for x in d[1:])
    if k == "SCTruthyVia":
        return "SCTruthyVia %s %s" % (cs(d[1]), cs(d[2]))
    if k == "SCConcat":
        return "SCConcat %s %s" % (strs(d[1]), cs(d[2]))
    if k == "SCWrapped":
        return "SCWrapped %s %s [%s]" % (strs(d[1]), C.cbool(d[2]), ";".join("(%s,%s)" % (cs(a), cs(b)) for a, b in d[3]))
    if k == "SCMembersOf":
        return "SCMembersOf %s" % cs(d[1])
    raise ValueError(d)


def self_reads(d):
    """names the body reads with `self.<name>` / getattr(self, <name>): must be non-list spec attributes of the carrying class"""
    k = d[0]
    if k in ("SCAlias", "SCVia", "SCTruthyVia"):
        return [d[1]]
    if k == "SCCur":
        return [d[1], d[2]]
    if k == "SCSignon":
        return [d[1], d[3]]
    if k == "SCConcat":
        return list(d[1])
    return []


def recognise(prop):
    """Structural reading of a shortcut property's source, for the two simplest shapes -- so that a NEW alias (or a moved /
    re-documented one) is translated from what the code says instead of failing closed on an unknown hash:
        @property def n(self): return self.a      -> SCAlias a
        @property def n(self): return self.a.b    -> SCVia a b
    Anything else -> None (the hash table above decides, or the property is reported as not understood).  For the known
    hashes the two readings are compared on every run (a self-check of this recogniser)."""
    import ast, inspect, textwrap
    try:
        t = ast.parse(textwrap.dedent(inspect.getsource(prop.fget)))
    except (TypeError, OSError, SyntaxError):
        return None
    if len(t.body) != 1 or not isinstance(t.body[0], ast.FunctionDef):
        return None
    f = t.body[0]
    decs = f.decorator_list
    if not (len(decs) == 1 and isinstance(decs[0], ast.Name) and decs[0].id == "property"):
        return None
    a = f.args
    if a.posonlyargs or a.kwonlyargs or a.vararg or a.kwarg or a.defaults or len(a.args) != 1 or a.args[0].arg != "self":
        return None
    body = list(f.body)
    if body and isinstance(body[0], ast.Expr) and isinstance(body[0].value, ast.Constant) and isinstance(body[0].value.value, str):
        body = body[1:]
    if len(body) != 1 or not isinstance(body[0], ast.Return) or body[0].value is None:
        return None
    e, path = body[0].value, []
    while isinstance(e, ast.Attribute) and isinstance(e.ctx, ast.Load):
        path.append(e.attr); e = e.value
    if not (isinstance(e, ast.Name) and e.id == "self"):
        return None
    path.reverse()
    if len(path) == 1:
        return (f.name, ("SCAlias", path[0]))
    if len(path) == 2:
        return (f.name, ("SCVia", path[0], path[1]))
    return None


def static_lookup(cls, name):
    for b in cls.__mro__:
        if name in b.__dict__:
            return b, b.__dict__[name]
    return None, None


def extract():
    M, Aggregate, ElementList, Types = TS.load()
    seen = []

    def walk(c):
        for s in c.__subclasses__():
            if s not in seen:
                seen.append(s); walk(s)
    walk(Aggregate)
    problems = []
    base = sorted(dir(Aggregate))
    base_set = set(base)
    if list(Aggregate.spec):
        problems.append("Aggregate itself declares spec attributes")
    for n in base:
        _, v = static_lookup(Aggregate, n)
        if type(v) is property and n not in BASE_PROPERTIES_OTHER:
            problems.append("Aggregate.%s: property of the base class is not modelled" % n)
        if isinstance(v, (Types.Element, Types.Unsupported)):
            problems.append("Aggregate.%s: descriptor on the base class" % n)
    h = TS.ast_hash(Aggregate.__dict__["__getattr__"])
    getattr_known = h in GETATTR_FORMS
    fixed = GETATTR_FORMS.get(h, True)
    extra, used = [], {}
    for c in seen:
        spec = c.spec
        for k in PROTOCOL:
            if k in c.__dict__:
                problems.append("%s.%s: override of the attribute / copy protocol is not modelled" % (c.__name__, k))
        rows = []
        for n in sorted(dir(c)):
            owner, v = static_lookup(c, n)
            is_desc = isinstance(v, (Types.Element, Types.Unsupported))
            if is_desc != (n in spec) or (is_desc and spec[n] is not v):
                problems.append("%s.%s: class-level lookup and spec disagree (shadowing)" % (c.__name__, n))
            if is_desc:
                if getattr(v, "name", n) != n and not isinstance(v, Types.Unsupported):
                    problems.append("%s.%s: descriptor bound under another name (%s)" % (c.__name__, n, v.name))
                continue
            if n in base_set and owner in (Aggregate, list, object):
                continue
            if type(v) is property:
                hh = TS.ast_hash(v)
                ent = SHORTCUTS.get(hh)
                rec = recognise(v)
                if ent is not None and rec is not None and (rec[0] != ent[0] or tuple(rec[1]) != tuple(ent[1])):
                    problems.append("%s.%s: structural reading %r differs from the table entry %r" % (c.__name__, n, rec, ent))
                if ent is None:
                    ent = rec
                if ent is None or ent[0] != n or v.fset is not None or v.fdel is not None:
                    problems.append("%s.%s: property with unknown body (hash %s, defined in %s)" % (c.__name__, n, hh, owner.__name__))
                    rows.append((n, "KOther"))
                    continue
                T = Types
                for r in self_reads(ent[1]):
                    t = spec.get(r)
                    if t is None or isinstance(t, (T.ListAggregate, T.ListElement)):
                        problems.append("%s.%s reads self.%s, which is not a non-list spec attribute of %s" % (c.__name__, n, r, c.__name__))
                rows.append((n, "KShortcut (%s)" % coq_sc(ent[1])))
                used.setdefault(hh, []).append(c.__name__)
            else:
                if n in base_set:
                    problems.append("%s.%s: base-class attribute overridden in %s" % (c.__name__, n, owner.__name__)) if n not in TS.IGNORED_NAMES and n not in (
                        "validate_args", "groom", "ungroom", "listaggregates", "_apply_args", "_listAppend", "__repr__") else None
                    continue
                rows.append((n, "KOther"))
        if rows:
            extra.append((c.__name__, rows))
    none_attrs = sorted(dir(None))
    return dict(problems=problems, base=base, extra=extra, none=none_attrs, fixed=fixed, getattr_hash=h, getattr_known=getattr_known,
                used=used, n_classes=len(seen))


def generate():
    d = extract()
    out = ["(** GENERATED by tools/ofxv/translate_lookup.py from /repo's ofxtools.models -- do not edit *)",
           "From OfxV Require Import Base.Prelude Model.Schema Model.Shortcuts.", "Local Open Scope string_scope.", ""]
    out.append("Definition lookup_translator_complete : bool := %s." % C.cbool(not d["problems"]))
    out.append("(* problems: %s *)" % json.dumps(d["problems"]).replace("*)", "* )").replace("(*", "( *"))
    out.append("(** Aggregate.__getattr__ (models/base.py): normalised-AST hash %s = %s *)" % (
        d["getattr_hash"], ("the repaired form (first fetch inside the try)" if d["fixed"] else "the form found (first fetch OUTSIDE the try)")
        if d["getattr_known"] else "UNKNOWN form, watched: modelled as the repaired form, the correspondence run decides"))
    out.append("Definition first_fetch_in_try : bool := %s." % C.cbool(d["fixed"]))
    out.append("Definition base_attrs : list string := %s." % strs(d["base"]))
    out.append("Definition none_attrs : list string := %s." % strs(d["none"]))
    out.append("Definition class_extra : list (string * list (string * ckind)) :=\n [ " + "\n ; ".join(
        "(%s, [%s])" % (cs(cn), "; ".join("(%s, %s)" % (cs(n), k) for n, k in rows)) for cn, rows in d["extra"]) + " ].")
    out.append("Definition LT : ltab := mk_ltab base_attrs class_extra none_attrs.")
    C.write_if_changed(os.path.join(C.THEORIES, "Gen", "LookupGen.v"), "\n".join(out) + "\n")
    return d


if __name__ == "__main__":
    d = generate()
    print("classes", d["n_classes"], "with extras", len(d["extra"]), "getattr fixed", d["fixed"], "problems", d["problems"])
