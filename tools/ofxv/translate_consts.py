"""Constants regenerated from /repo's working tree into coq/theories/Gen/ConstGen.v on every run."""
import os, importlib
from . import common as C


def gen_ident():
    C.use_repo()
    import ofxtools.lib as lib
    importlib.reload(lib)
    keys = list(lib.NUMBERING_AGENCIES.keys())
    for k in keys:
        if not isinstance(k, str):
            raise ValueError("NUMBERING_AGENCIES key is not a str: %r" % (k,))
    body = "(** GENERATED from /repo/ofxtools/lib.py NUMBERING_AGENCIES.keys() -- do not edit *)\n"
    body += "From OfxV Require Import Base.Prelude.\nLocal Open Scope N_scope.\n"
    body += "Definition numbering_agencies : list text :=\n [ " + "\n ; ".join(C.ctext(k) for k in keys) + " ].\n"
    C.write_if_changed(os.path.join(C.THEORIES, "Gen", "IdentGen.v"), body)
    return keys
