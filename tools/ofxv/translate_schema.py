"""Translator: the live class table of ofxtools.models  ->  coq/theories/Gen/SchemaGen.v  (regenerated on every run).

Emits the INPUTS of Aggregate._superdict/spec (per-class own attributes in definition order, MRO, own mutex lists,
hook ids) so that the ordered key union / first-hit lookup is computed in Coq, plus a cross-check table of what Python
itself computes (spec keys, effective mutexes, list attributes) which a Coq Example compares for every class.
Fail-closed: anything not understood sets `translator_complete := false` with the reasons."""
import os, sys, inspect, ast, textwrap, hashlib, importlib, json
from . import common as C

# validate_args / groom / ungroom overrides that Model/Convert.v models by hand, pinned by normalised-AST hash
HOOKS = {
    "d0744d11bf57": "HAtLeastOne", "fb822c3cac11": "HAtLeastOne",
    "965036d1b970": "HAcctInfo", "c7e8bf3bf8a3": "HTax1099Rs", "3bf993699ad9": "HExtdPmt", "81c51255766c": "HExtdPayee",
    "c3554ac30cec": "HSonRq", "a04fbf003fd0": "HContribSecurity", "4acf3a3fb9eb": "HTax1099R", "e92888967f26": "HTax1099Misc",
    "235cc0e977df": "HOfx",
}
# the hook / rename each class had when the model was last validated against the source: used (with a recorded problem, i.e. fail closed)
# when a body is no longer recognised, so that the regenerated model still states the constraint as validated and the search for a
# failing input can compare it with what the changed code does
HOOK_BY_CLASS = {"MSGSETCORE": "HAtLeastOne", "TAX1099MSGSETV1": "HAtLeastOne", "SONRQ": "HSonRq", "MFACHALLENGERS": "HAtLeastOne", "EXTDPMT": "HExtdPmt",
                 "EXTDPAYEE": "HExtdPayee", "CONTRIBSECURITY": "HContribSecurity", "CONTRIBINFO": "HAtLeastOne", "ACCTINFO": "HAcctInfo",
                 "TAX1099MISC_V100": "HTax1099Misc", "TAX1099R_V100": "HTax1099R", "TAX1099RS": "HTax1099Rs", "TAX1099MSGSRQV1": "HAtLeastOne",
                 "TAX1099MSGSRSV1": "HAtLeastOne", "MSGSETLIST": "HAtLeastOne", "OFX": "HOfx"}
RENAME_BY_CLASS = {"MAIL": ("FROM", "FRM"), "MFINFO": ("YIELD", "YLD"), "STOCKINFO": ("YIELD", "YLD")}
RENAMES = {  # (groom hash, ungroom hash) -> (wire tag, python tag)
    # groom bodies after "fix: groom renames every YIELD / FROM child" (findall: every child with the wire tag, as Model/Convert.v's
    # groomed_tag now does); the first-child-only bodies are no longer recognised
    ("daadf463b1d7", "f4a5a61babcf"): ("FROM", "FRM"),
    ("fef33ad36095", "3c9351d2d1f9"): ("YIELD", "YLD"),
    ("451a7170f739", "ed82740a2df6"): ("YIELD", "YLD"),
}
# overrides that do not influence construct / from_etree / to_etree (repr, read-only shortcut properties: C16 pins those itself)
IGNORED_KINDS = ("property",)
IGNORED_NAMES = ("__repr__", "__module__", "__doc__", "__qualname__", "__annotations__", "__firstlineno__", "__static_attributes__",
                 "__dict__", "__weakref__", "optionalMutexes", "requiredMutexes", "__orig_bases__", "__parameters__",
                 "__slotnames__")      # __slotnames__: cached on a class by copyreg the first time an instance is copied / pickled (CPython), not source
BASE_PINS = {"Aggregate.__init__": "072ba5844858", "Aggregate.validate_args": "91c7141526f3", "Aggregate._apply_args": "2dc68bc9bb7c",
             "Aggregate._apply_residual_kwargs": "33b91916535f", "Aggregate.from_etree": "61e75e3c821c", "Aggregate._convert": "ce8bb31ab7da",
             "Aggregate.groom": "7444b1283e1c", "Aggregate.to_etree": "b74f0e2680c2", "Aggregate._listAppend": "e84bc2091ac6",
             "Aggregate.ungroom": "194cb3d5f0f2", "Aggregate._superdict": "4116543588f8", "Aggregate._filter_attrs": "972a1741be29",
             "Aggregate.spec": "5a9af2516416", "Aggregate.spec_no_listaggregates": "d69742976d2b", "Aggregate.elements": "67ea06e67951",
             "Aggregate.subaggregates": "ebd731df4b79", "Aggregate.unsupported": "6572f54b9b2b", "Aggregate.listaggregates": "0a024b86de20",
             "Aggregate.listelements": "82e90e17f0e3", "utils.classproperty": "08f166aafc16"}
ELEMENTLIST_PINS = {"listaggregates": "6a698cd5608b", "_apply_args": "fe3eb94a3963", "_listAppend": "3a39c5134994"}


def ast_hash(f):
    f = getattr(f, "__func__", f)
    if isinstance(f, property):
        f = f.fget
    try:
        src = textwrap.dedent(inspect.getsource(f))
    except (TypeError, OSError):
        return "no-source:%s" % type(f).__name__       # a class-level value that is not code (a memo stored on the class, say): matches no pin
    t = ast.parse(src)
    for n in ast.walk(t):
        if isinstance(n, ast.FunctionDef) and n.body and isinstance(n.body[0], ast.Expr) \
                and isinstance(getattr(n.body[0], "value", None), ast.Constant) and isinstance(n.body[0].value.value, str):
            n.body = n.body[1:] or [ast.Pass()]
    return hashlib.sha1(ast.dump(t).encode()).hexdigest()[:12]


def cstr(s):
    assert isinstance(s, str) and all(32 <= ord(c) < 127 and c != '"' for c in s), s
    return '"%s"' % s


def load():
    C.use_repo()
    for m in [k for k in sys.modules if k == "ofxtools" or k.startswith("ofxtools.")]:
        pass  # modules are imported once per process; every check runs in a fresh interpreter
    import ofxtools.models as M
    from ofxtools.models.base import Aggregate, ElementList
    from ofxtools import Types
    return M, Aggregate, ElementList, Types


def describe_type(v, Types, enums, problems, where):
    """-> canonical tuple describing an Element converter; registers OneOf token lists in `enums`."""
    cn = type(v).__name__
    if type(v) is Types.Bool:
        return ("Bool", v.required)
    if type(v) is Types.String:
        return ("String", v.length, v.required)
    if type(v) is Types.NagString:
        return ("NagString", v.length, v.required)
    if type(v) is Types.OneOf:
        toks = tuple(v.valid)
        if not all(isinstance(t, str) for t in toks):
            problems.append("%s: OneOf with non-str tokens" % where)
        return ("OneOf", enums.setdefault(toks, len(enums)), v.required)
    if type(v) is Types.Integer:
        return ("Integer", v.length, v.required)
    if type(v) is Types.Decimal:
        return ("Decimal", str(v.scale) if v.scale is not None else None, v.required)
    if type(v) is Types.DateTime:
        return ("DateTime", v.required)
    if type(v) is Types.Time:
        return ("Time", v.required)
    problems.append("%s: unknown Element type %s" % (where, cn))
    return ("Unknown", cn)


def extract():
    M, Aggregate, ElementList, Types = load()
    seen = []

    def walk(c):
        for s in c.__subclasses__():
            if s not in seen:
                seen.append(s); walk(s)
    walk(Aggregate)
    allc = [Aggregate] + list(seen)
    for c in seen:
        for b in c.__mro__:
            if b not in (object, list) and b not in allc:
                allc.append(b)
    problems, enums, etys = [], {}, {}
    source_changes = []      # hand-transcribed functions whose source is no longer the one the transcription was validated against
    names = [c.__name__ for c in allc]
    if len(set(names)) != len(names):
        problems.append("duplicate class names: %s" % sorted(n for n in names if names.count(n) > 1))
    raw = []
    for c in allc:
        own = []
        hook, rename = None, None
        groom_h = ungroom_h = None
        for k, v in c.__dict__.items():
            where = "%s.%s" % (c.__name__, k)
            if isinstance(v, Types.Unsupported):
                own.append((k, ("unsup",)))
            elif isinstance(v, Types.ListAggregate):
                own.append((k, ("listagg", v.__type__.__name__)))
            elif isinstance(v, Types.SubAggregate):
                own.append((k, ("sub", v.__type__.__name__, bool(v.required))))
            elif isinstance(v, Types.ListElement):
                d = describe_type(v.converter, Types, enums, problems, where)
                own.append((k, ("listelem", etys.setdefault(d, len(etys)))))
            elif isinstance(v, Types.Element):
                d = describe_type(v, Types, enums, problems, where)
                own.append((k, ("elem", etys.setdefault(d, len(etys)), bool(d[-1]))))
            elif c is Aggregate or k in IGNORED_NAMES or type(v).__name__ in IGNORED_KINDS:
                continue
            elif c is ElementList:
                if ELEMENTLIST_PINS.get(k) != ast_hash(v):
                    (source_changes if k in ELEMENTLIST_PINS else problems).append("%s: ElementList override changed or unknown" % where)
            elif k == "validate_args":
                h = ast_hash(v)
                if h in HOOKS:
                    hook = HOOKS[h]
                else:
                    problems.append("%s: validate_args override with unknown body (hash %s)" % (where, h))
                    hook = HOOK_BY_CLASS.get(c.__name__)
            elif k == "groom":
                groom_h = ast_hash(v)
            elif k == "ungroom":
                ungroom_h = ast_hash(v)
            else:
                problems.append("%s: override of kind %s is not modelled" % (where, type(v).__name__))
        if groom_h or ungroom_h:
            if (groom_h, ungroom_h) in RENAMES:
                rename = RENAMES[(groom_h, ungroom_h)]
            else:
                problems.append("%s: groom/ungroom override with unknown bodies (%s, %s)" % (c.__name__, groom_h, ungroom_h))
                rename = RENAME_BY_CLASS.get(c.__name__)
        mro = [b.__name__ for b in c.__mro__ if b not in (object, list)]
        raw.append(dict(name=c.__name__, mro=mro, own=own,
                        optmx=[list(g) for g in c.__dict__["optionalMutexes"]] if "optionalMutexes" in c.__dict__ else None,
                        reqmx=[list(g) for g in c.__dict__["requiredMutexes"]] if "requiredMutexes" in c.__dict__ else None,
                        elist=issubclass(c, ElementList) if isinstance(c, type) and issubclass(c, Aggregate) else False,
                        hook=hook, rename=rename,
                        export=getattr(M, c.__name__, None) is c,
                        is_agg=issubclass(c, Aggregate)))
    # what Python itself computes (cross-check table), for Aggregate subclasses only
    py = []
    for c in seen:
        py.append(dict(name=c.__name__, spec=list(c.spec), optmx=[list(g) for g in c.optionalMutexes], reqmx=[list(g) for g in c.requiredMutexes],
                       listaggs=list(c.listaggregates), listelems=list(c.listelements), subs=list(c.subaggregates), unsup=list(c.unsupported),
                       elems=list(c.elements)))
    # base-class machinery that Model/Schema.v and Model/Convert.v transcribe by hand: watched by normalised-AST hash.  The TIE between
    # these functions and their transcription is the correspondence check (model and implementation run on the same inputs), which runs
    # on every check; a changed hash is a tripwire: it is reported in `source_changes`, and check.py then re-establishes the tie by an
    # EXTENDED correspondence run (two more seeds) before it accepts the tree -- any disagreement or failing input found there is reported
    # as usual.  __getattr__ is the lookup engine's (C16), recorded only.
    watched = {}
    for k in ("__init__", "validate_args", "_apply_args", "_apply_residual_kwargs", "from_etree", "_convert", "groom", "to_etree",
              "_listAppend", "ungroom", "__getattr__", "_superdict", "_filter_attrs", "spec", "spec_no_listaggregates", "elements",
              "subaggregates", "unsupported", "listaggregates", "listelements"):
        try:
            watched["Aggregate." + k] = ast_hash(Aggregate.__dict__[k])
        except Exception as e:
            problems.append("Aggregate.%s: cannot hash (%r)" % (k, e))
    try:
        import ofxtools.utils as _U
        watched["utils.classproperty"] = hashlib.sha1(ast.dump(ast.parse(textwrap.dedent(inspect.getsource(_U.classproperty)))).encode()).hexdigest()[:12]
    except Exception as e:
        problems.append("utils.classproperty: cannot hash (%r)" % (e,))
    for k, h in watched.items():
        if k != "Aggregate.__getattr__" and BASE_PINS.get(k) != h:
            source_changes.append("%s changed (hash %s, validated %s)" % (k, h, BASE_PINS.get(k)))
    return dict(raw=raw, py=py, etys=etys, enums=enums, problems=problems, source_changes=source_changes, watched=watched, n_agg=len(seen))


def coq_attr(a):
    if a[0] == "unsup":
        return "AUnsupported"
    if a[0] == "listagg":
        return "AListAgg %s" % cstr(a[1])
    if a[0] == "sub":
        return "ASub %s %s" % (cstr(a[1]), C.cbool(a[2]))
    if a[0] == "listelem":
        return "AListElem %d" % a[1]
    return "AElem %d %s" % (a[1], C.cbool(a[2]))


def coq_strlist(l):
    return "[" + ";".join(cstr(x) for x in l) + "]"


def coq_mx(m):
    return "None" if m is None else "(Some [%s])" % ";".join(coq_strlist(g) for g in m)


LAST = None      # the last extraction of this process (check.py reads its source_changes)


def generate():
    global LAST
    d = LAST = extract()
    out = ["(** GENERATED by tools/ofxv/translate_schema.py from /repo's ofxtools.models -- do not edit *)",
           "From OfxV Require Import Base.Prelude Model.Schema.", "Local Open Scope string_scope.", "Local Open Scope N_scope.", ""]
    out.append("Definition translator_complete : bool := %s." % C.cbool(not d["problems"]))
    out.append("(* problems: %s *)" % json.dumps(d["problems"]).replace("*)", "* )"))
    if d["source_changes"]:
        out.append("(* source of hand-transcribed functions changed since the transcription was validated: %s *)" % json.dumps(d["source_changes"]).replace("*)", "* )"))
    out.append("Definition raw_classes : list rawclass :=\n [ " + "\n ; ".join(
        "mk_raw %s %s [%s] %s %s %s %s %s %s" % (
            cstr(r["name"]), coq_strlist(r["mro"]),
            ";".join("(%s,%s)" % (cstr(k), coq_attr(a)) for k, a in r["own"]),
            coq_mx(r["optmx"]), coq_mx(r["reqmx"]), C.cbool(r["elist"]),
            "None" if r["hook"] is None else "(Some %s)" % r["hook"],
            "None" if r["rename"] is None else "(Some (%s,%s))" % (cstr(r["rename"][0]), cstr(r["rename"][1])),
            C.cbool(r["export"])) for r in d["raw"]) + " ].\n")
    out.append("(** what the interpreter itself computes, per Aggregate subclass: spec keys, effective mutex lists, list attributes, subaggregates, unsupported, elements *)")
    out.append("Definition py_table : list pyrow :=\n [ " + "\n ; ".join(
        "mk_py %s %s [%s] [%s] %s %s %s %s %s" % (
            cstr(p["name"]), coq_strlist(p["spec"]), ";".join(coq_strlist(g) for g in p["optmx"]), ";".join(coq_strlist(g) for g in p["reqmx"]),
            coq_strlist(p["listaggs"]), coq_strlist(p["listelems"]), coq_strlist(p["subs"]), coq_strlist(p["unsup"]), coq_strlist(p["elems"]))
        for p in d["py"]) + " ].\n")
    # element type table (documentation for readers + C11 composition): id -> description
    inv = sorted((i, t) for t, i in d["etys"].items())
    out.append("(* element types: " + "; ".join("%d=%s" % (i, "/".join(str(x) for x in t)) for i, t in inv) + " *)")
    out.append("Definition n_etys : N := %d." % len(inv))
    content = "\n".join(out) + "\n"
    C.write_if_changed(os.path.join(C.THEORIES, "Gen", "SchemaGen.v"), content)
    C.write_if_changed(os.path.join(C.THEORIES, "Gen", "SchemaS.v"),
                       "(** GENERATED: the compiled class table, evaluated once *)\n"
                       "From OfxV Require Import Base.Prelude Model.Schema Gen.SchemaGen.\n"
                       "Definition S : schema := Eval vm_compute in compile raw_classes.\n"
                       "Lemma S_is_compiled : S = compile raw_classes.\nProof. vm_compute. reflexivity. Qed.\n")
    write_typed(d)
    return d


def write_typed(d):
    """Gen/TypedGen.v: id -> element type as the Scalars engine (Model/Scalars.v) describes it; date-time types stay abstract"""
    enum_tokens = {i: toks for toks, i in d["enums"].items()}

    def opt(n):
        return "None" if n is None else "(Some %d)" % n

    def elem(t):
        k = t[0]
        if k == "Bool": return "ESty (Elem TBool %s)" % C.cbool(t[1])
        if k == "String": return "ESty (Elem (TString %s true) %s)" % (opt(t[1]), C.cbool(t[2]))
        if k == "NagString": return "ESty (Elem (TString %s false) %s)" % (opt(t[1]), C.cbool(t[2]))
        if k == "OneOf": return "ESty (Elem (TOneOf enum_%d) %s)" % (t[1], C.cbool(t[2]))
        if k == "Integer": return "ESty (Elem (TInteger %s) %s)" % (opt(t[1]), C.cbool(t[2]))
        if k == "Decimal":
            sc = None
            if t[1] is not None:
                import decimal
                sc = -decimal.Decimal(t[1]).as_tuple().exponent
            return "ESty (Elem (TDecimal %s) %s)" % (opt(sc), C.cbool(t[2]))
        if k == "DateTime": return "EDateTime %s" % C.cbool(t[1])
        if k == "Time": return "ETime %s" % C.cbool(t[1])
        return "EUnknown"
    out = ["(** GENERATED by tools/ofxv/translate_schema.py: the element types of Gen/SchemaGen.v in terms of Model/Scalars.v -- do not edit *)",
           "From OfxV Require Import Base.Prelude Model.Scalars Model.Typed.", "Local Open Scope N_scope.", ""]
    for i in sorted(enum_tokens):
        out.append("Definition enum_%d : list text := [%s]." % (i, ";".join(C.ctext(t) for t in enum_tokens[i])))
    inv = sorted((i, t) for t, i in d["etys"].items())
    out.append("Definition ety_table : list (N * ety) :=\n [ " + "\n ; ".join("(%d, %s)" % (i, elem(t)) for i, t in inv) + " ].")
    C.write_if_changed(os.path.join(C.THEORIES, "Gen", "TypedGen.v"), "\n".join(out) + "\n")


if __name__ == "__main__":
    d = generate()
    print("classes", len(d["raw"]), "aggregates", d["n_agg"], "etys", len(d["etys"]), "enums", len(d["enums"]), "problems", d["problems"])
