"""Regenerate /verif/MANIFEST.json from the property modules (each declares MANIFEST = {...})."""
import sys, os, json, importlib, glob
sys.path.insert(0, os.path.dirname(os.path.dirname(os.path.abspath(__file__))))
from ofxv import common as C
ALL = ["C%02d" % i for i in range(1, 21)]
checks, na = [], []
# properties whose check has been validated on the unchanged tree by the coordinator (one id per line)
CLAIMED = set(open(os.path.join(C.VERIF, "tools/ofxv/claimed.txt")).read().split())
for pid in ALL:
    path = os.path.join(C.VERIF, "tools/ofxv/props", pid.lower() + ".py")
    m = None
    if os.path.exists(path):
        mod = importlib.import_module("ofxv.props." + pid.lower())
        m = getattr(mod, "MANIFEST", None)
    if not m or pid not in CLAIMED:
        na.append({"property_id": pid, "reason": "check not yet built (work in progress; see DESIGN.md section 6)"})
        continue
    checks.append({
        "property_id": pid,
        "quick_cmd": "bin/check %s --tier quick" % pid,
        "thorough_cmd": "bin/check %s --tier thorough" % pid,
        "evidence_file": "evidence/%s.json" % pid,
        "replay_cmd_template": "bin/check %s --replay {path}" % pid,
        "engine": m["engine"],
        "level_claimed": {"category": m.get("category", "proof"), "text": m["text"], "design_ref": m.get("design_ref", "DESIGN.md section 6, " + pid)},
        "level_note": m["note"],
        "technique": m.get("technique", "machine-checked proof in Coq 8.16 about an executable Gallina model + correspondence check (model evaluated by vm_compute vs implementation on the same cases)"),
    })
man = {
    "version": 1,
    "setup_cmd": "bin/setup.sh",
    "hooks": {"guard": "OFXTOOLS_VERIF", "enable": "no source hooks: every observation point is patched in-process by the harness",
              "baseline_off_cmd": "cd /repo && /venv/bin/python -m pytest -q -p no:cacheprovider", "source_commits": [], "add_only": True},
    "engines": [],
    "checks": checks,
    "not_applicable": na,
    "notes": "bin/check regenerates coq/theories/Gen/*.v from /repo's working tree, rebuilds the property's obligations (full .vo), "
             "runs the correspondence of the Gallina models with the implementation and searches for a failing input; see DESIGN.md sections 3-4.",
}
eng = {}
for c in checks:
    eng.setdefault(c["engine"], []).append(c["property_id"])
man["engines"] = [{"name": k, "path": "coq/theories/Model", "serves_properties": v, "kind_free_text": "executable Gallina model + Coq proofs + Python correspondence harness"} for k, v in eng.items()]
json.dump(man, open(os.path.join(C.VERIF, "MANIFEST.json"), "w"), indent=1)
print("checks:", [c["property_id"] for c in checks], "not_applicable:", len(na))
