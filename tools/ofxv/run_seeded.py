"""Run registered checks against a seeded change:  run_seeded.py <seeded dir> [Cxx ...]
Applies seeded/<id>/patch.diff to a scratch worktree of /repo (removed afterwards), confirms the demonstration fails with it and
passes without it, runs the given checks (default: the property the change breaks) with OFXV_REPO pointing at the worktree, and
records the outcome in seeded/<id>/meta.json under "runs".  (Equivalent to git -C /repo apply / checkout, without disturbing
other work that uses /repo at the same time.)"""
import sys, os, json, subprocess, shutil, time
V = os.path.dirname(os.path.dirname(os.path.dirname(os.path.abspath(__file__))))


def sh(cmd, **kw):
    p = subprocess.run(cmd, stdout=subprocess.PIPE, stderr=subprocess.STDOUT, text=True, **kw)
    return p.returncode, p.stdout


def main():
    d = os.path.abspath(sys.argv[1])
    meta = json.load(open(os.path.join(d, "meta.json")))
    checks = sys.argv[2:] or [meta["property"]]
    wt = "/tmp/seedrun-%d" % os.getpid()
    sh(["git", "-C", "/repo", "worktree", "add", "-q", "--detach", wt, "HEAD"])
    try:
        demo = os.path.join(d, "demo.py")
        env = dict(os.environ, PYTHONPATH=wt, PYTHONHASHSEED="0")
        rc0, out0 = sh(["/venv/bin/python", demo, wt], env=env)
        rc, out = sh(["git", "-C", wt, "apply", os.path.join(d, "patch.diff")])
        if rc:
            print("patch does not apply:", out); return 2
        rc1, out1 = sh(["/venv/bin/python", demo, wt], env=env)
        res = {"demo_without_patch": rc0, "demo_with_patch": rc1, "checks": {}}
        for c in checks:
            t = time.time()
            rcc, o = sh([os.path.join(V, "bin/check"), c], env=dict(os.environ, OFXV_REPO=wt), cwd=V)
            viol = [l for l in o.splitlines() if l.startswith("VIOLATION")]
            res["checks"][c] = {"exit": rcc, "violation_lines": viol[:5], "summary": o.strip().splitlines()[-1] if o.strip() else "", "wall_s": round(time.time() - t, 1)}
            print(c, "exit", rcc, viol[:2])
        meta.setdefault("runs", []).append(res)
        json.dump(meta, open(os.path.join(d, "meta.json"), "w"), indent=1)
    finally:
        sh(["git", "-C", "/repo", "worktree", "remove", "--force", wt])
        shutil.rmtree(wt, ignore_errors=True)
        # the alternative build tree of this scratch worktree (a copy of coq/ with its own generated tables): keep only the replay and
        # evidence files (small), drop the rest -- a thousand of these once filled 47 GB
        import hashlib
        alt = os.path.join(V, "build", "alt", hashlib.sha1(wt.encode()).hexdigest()[:10])
        for sub in ("coq", "cases", "props", "log", "scratch"):
            shutil.rmtree(os.path.join(alt, sub), ignore_errors=True)
    return 0


if __name__ == "__main__":
    sys.exit(main())
