"""Gen/ComposeGen.v: what the `Compose` engine (property C06) takes from the LIVE /repo:
class-level defaults of OFXClient, AUTH_PLACEHOLDER, http_headers, the names of the five request-parameter
classes (sort keys of request_statements) and of the three message-set classes, the header constraints, and the
shape (cls.spec in order, required flags, string limits, OneOf domains, mutexes) of the 31 aggregate classes the client
instantiates.  Fail closed: anything not understood raises, which bin/check reports as a broken translator."""
import os, sys, importlib, inspect
from . import common as C

CLIENT_ATTRS = ["userid", "clientuid", "org", "fid", "version", "appid", "appver", "language", "useragent",
                "prettyprint", "close_elements", "bankid", "brokerid", "persist_cookies"]
RQ_FIELDS = {
    "StmtRq": ("acctid", "accttype", "dtstart", "dtend", "inctran"),
    "CcStmtRq": ("acctid", "dtstart", "dtend", "inctran"),
    "InvStmtRq": ("acctid", "dtstart", "dtend", "dtasof", "inctran", "incoo", "incpos", "incbal"),
    "StmtEndRq": ("acctid", "accttype", "dtstart", "dtend"),
    "CcStmtEndRq": ("acctid", "dtstart", "dtend"),
}
MSGSETS = ["BANKMSGSRQV1", "CREDITCARDMSGSRQV1", "INVSTMTMSGSRQV1"]
CLASSES = ["OFX", "SIGNONMSGSRQV1", "SONRQ", "FI", "BANKMSGSRQV1", "CREDITCARDMSGSRQV1", "INVSTMTMSGSRQV1",
           "STMTTRNRQ", "STMTRQ", "BANKACCTFROM", "INCTRAN", "STMTENDTRNRQ", "STMTENDRQ", "CCSTMTTRNRQ", "CCSTMTRQ",
           "CCACCTFROM", "CCSTMTENDTRNRQ", "CCSTMTENDRQ", "INVSTMTTRNRQ", "INVSTMTRQ", "INVACCTFROM", "INCPOS",
           "SIGNUPMSGSRQV1", "ACCTINFOTRNRQ", "ACCTINFORQ", "TAX1099MSGSRQV1", "TAX1099TRNRQ", "TAX1099RQ",
           "PROFMSGSRQV1", "PROFTRNRQ", "PROFRQ"]


def ct(s):
    """Coq `text` literal; printable ASCII as (T "...") (fast to parse), anything else as a list of code points."""
    if all(32 <= ord(c) <= 126 and c != '"' for c in s):     # no '"': common.coq_bad_indices interns "..." literals by a simple pattern
        return '(T "%s")' % s
    return "[" + ";".join("%d" % ord(c) for c in s) + "]"


def copt_text(v):
    if v is None:
        return "None"
    if not isinstance(v, str):
        raise ValueError("expected str or None, got %r" % (v,))
    return "(Some %s)" % ct(v)


def reload_modules():
    C.use_repo()
    for name in [n for n in list(sys.modules) if n == "ofxtools" or n.startswith("ofxtools.")]:
        pass  # the check runs in a fresh interpreter; modules are imported from common.REPO by use_repo()
    import ofxtools, ofxtools.Client, ofxtools.header, ofxtools.Types, ofxtools.models
    if not os.path.abspath(ofxtools.__file__).startswith(os.path.abspath(C.REPO) + os.sep):
        raise RuntimeError("ofxtools imported from %s, not from %s" % (ofxtools.__file__, C.REPO))
    return ofxtools


def attr_term(name, t, Types):
    req = lambda: C.cbool(bool(t.required))
    if isinstance(t, Types.Unsupported):
        return "CUnsupported"
    ty = type(t)
    if ty is Types.ListAggregate:
        return "CListAgg %s" % ct(t.__type__.__name__)
    if ty is Types.ListElement:
        conv = t.converter
        if type(conv) is not Types.Integer:
            raise ValueError("ListElement converter of %s is %r (only Integer is modelled)" % (name, conv))
        return "CListInt %s" % C.copt(conv.length, C.cN)
    if ty is Types.SubAggregate:
        return "CSub %s %s" % (ct(t.__type__.__name__), req())
    if ty in (Types.String, Types.NagString):
        if t.length is not None and not (isinstance(t.length, int) and t.length >= 0):
            raise ValueError("String length of %s: %r" % (name, t.length))
        if not isinstance(t.strict, bool):
            raise ValueError("String.strict of %s: %r" % (name, t.strict))
        return "CStr %s %s %s" % (C.copt(t.length, C.cN), C.cbool(t.strict), req())
    if ty is Types.Bool:
        if t.mapping != {"Y": True, "N": False}:
            raise ValueError("Bool.mapping changed: %r" % (t.mapping,))
        return "CBool %s" % req()
    if ty is Types.OneOf:
        if not all(isinstance(v, str) for v in t.valid):
            raise ValueError("OneOf domain of %s is not all str" % name)
        return "COneOf [%s] %s" % (";".join(ct(v) for v in t.valid), req())
    if ty is Types.DateTime:
        return "CDate %s" % req()
    if ty in (Types.Integer, Types.Decimal, Types.Time):
        return "COther %s" % req()
    raise ValueError("attribute %s has a type the Compose translator does not know: %r" % (name, t))


def gen_compose():
    ofxtools = reload_modules()
    import ofxtools.Client as CL, ofxtools.header as H, ofxtools.Types as Types, ofxtools.models as M
    from ofxtools.models.base import Aggregate, ElementList
    K = CL.OFXClient
    out = ["(** GENERATED from /repo (ofxtools Client.py, header.py, models) by tools/ofxv/translate_compose.py -- do not edit *)",
           "From OfxV Require Import Base.Prelude Base.ComposeBase.", "Local Open Scope N_scope.", ""]
    # ---- AUTH_PLACEHOLDER and class-level defaults
    if not isinstance(CL.AUTH_PLACEHOLDER, str):
        raise ValueError("AUTH_PLACEHOLDER is not a str")
    out.append("Definition auth_placeholder : text := %s." % ct(CL.AUTH_PLACEHOLDER))
    data_attrs = [k for k, v in vars(K).items() if not k.startswith("_") and not callable(v)
                  and not isinstance(v, (property, classmethod, staticmethod)) and type(v).__name__ != "classproperty"]
    if sorted(data_attrs) != sorted(CLIENT_ATTRS):
        raise ValueError("OFXClient class-level attributes changed: %r" % (sorted(data_attrs),))
    src = inspect.getsource(K.__init__)
    import ast, textwrap
    tree = ast.parse(textwrap.dedent(src))
    lists = [n for n in ast.walk(tree) if isinstance(n, ast.For) and isinstance(n.iter, ast.List)]
    if len(lists) != 1:
        raise ValueError("OFXClient.__init__: expected exactly one `for attr in [...]` loop")
    init_attrs = [e.value for e in lists[0].iter.elts]
    if sorted(init_attrs) != sorted(CLIENT_ATTRS):
        raise ValueError("OFXClient.__init__ sets %r" % (init_attrs,))
    sig = list(inspect.signature(K.__init__).parameters)
    if sorted(sig) != sorted(["self", "url"] + CLIENT_ATTRS):
        raise ValueError("OFXClient.__init__ signature changed: %r" % (sig,))
    for a in ("userid", "appid", "appver", "language", "useragent"):
        v = getattr(K, a)
        if not isinstance(v, str):
            raise ValueError("default %s is not a str: %r" % (a, v))
        out.append("Definition d_%s : text := %s." % (a, ct(v)))
    for a in ("clientuid", "org", "fid", "bankid", "brokerid"):
        out.append("Definition d_%s : option text := %s." % (a, copt_text(getattr(K, a))))
    if type(K.version) is not int or K.version < 0:
        raise ValueError("default version %r" % (K.version,))
    out.append("Definition d_version : N := %d." % K.version)
    for a in ("prettyprint", "close_elements", "persist_cookies"):
        if type(getattr(K, a)) is not bool:
            raise ValueError("default %s is not a bool" % a)
        out.append("Definition d_%s : bool := %s." % (a, C.cbool(getattr(K, a))))
    # ---- http_headers as a function of the user agent
    sentinel = "\u0001UA\u0001"
    cl = K("http://x.invalid", useragent=sentinel)
    hh = cl.http_headers
    if not isinstance(hh, dict) or not all(isinstance(k, str) and isinstance(v, str) for k, v in hh.items()):
        raise ValueError("http_headers is not a dict of str")
    if [k for k, v in hh.items() if v == sentinel] != ["User-Agent"] or any(sentinel in v for k, v in hh.items() if k != "User-Agent"):
        raise ValueError("http_headers no longer carries the user agent in User-Agent only: %r" % (hh,))
    out.append("Definition http_headers (useragent : text) : list (text * text) :=\n [ " +
               "\n ; ".join("(%s, %s)" % (ct(k), "useragent" if v == sentinel else ct(v)) for k, v in hh.items()) + " ].")
    # ---- request parameter classes (sort keys) and message-set classes
    reg = {k.__name__ for k in CL.wrap_stmtrq.registry if k is not object}
    if reg != set(RQ_FIELDS):
        raise ValueError("wrap_stmtrq is registered for %r" % (sorted(reg),))
    for name, fields in RQ_FIELDS.items():
        cls = getattr(CL, name)
        if cls._fields != fields:
            raise ValueError("%s._fields = %r" % (name, cls._fields))
        if cls.__name__ != name:
            raise ValueError("%s.__name__ = %r" % (name, cls.__name__))
        out.append("Definition cn_%s : text := %s." % (name, ct(cls.__name__)))
    for name in MSGSETS:
        out.append("Definition mn_%s : text := %s." % (name, ct(getattr(CL, name).__name__)))
    # ---- header constraints
    v2 = H.OFXHeaderV2.__dict__["version"]
    v1 = H.OFXHeaderV1.__dict__["version"]
    if type(v2) is not Types.OneOf or not all(type(v) is int and v >= 0 for v in v2.valid):
        raise ValueError("OFXHeaderV2.version is not a OneOf of ints")
    if type(v1) is not Types.Integer or type(v1.length) is not int:
        raise ValueError("OFXHeaderV1.version is not Integer(n)")
    out.append("Definition hdr_v2_versions : list N := [%s]." % ";".join("%d" % v for v in v2.valid))
    out.append("Definition hdr_v1_version_len : N := %d." % v1.length)
    for hc in (H.OFXHeaderV1, H.OFXHeaderV2):
        for a in ("oldfileuid", "newfileuid"):
            t = hc.__dict__[a]
            if type(t) is not Types.String or t.length != 36 or t.required:
                raise ValueError("%s.%s is not String(36)" % (hc.__name__, a))
    out.append("Definition hdr_fileuid_len : N := 36.")
    # ---- shapes of the aggregate classes the client instantiates
    terms = []
    for name in CLASSES:
        cls = getattr(CL, name, None) or getattr(M, name)
        if not (isinstance(cls, type) and issubclass(cls, Aggregate)) or cls.__name__ != name:
            raise ValueError("%s is not the Aggregate class of that name" % name)
        spec = ["(%s, %s)" % (ct(a), attr_term("%s.%s" % (name, a), t, Types)) for a, t in cls.spec.items()]
        mx = lambda m: "[" + ";".join("[" + ";".join(ct(x) for x in g) + "]" for g in m) + "]"
        terms.append("{| cc_name := %s;\n     cc_spec := [%s];\n     cc_optmx := %s; cc_reqmx := %s; cc_elementlist := %s |}"
                     % (ct(name), ";\n        ".join(spec), mx(cls.optionalMutexes), mx(cls.requiredMutexes), C.cbool(issubclass(cls, ElementList))))
    out.append("Definition class_table : list cclass :=\n [ " + "\n ; ".join(terms) + " ].")
    path = os.path.join(C.THEORIES, "Gen", "ComposeGen.v")
    C.write_if_changed(path, "\n".join(out) + "\n")
    return path
